#!/bin/bash
# Entry point for every MANIFEST command. Rebuilds the harness against /repo's current working tree.
set -u
cd "$(dirname "$0")"
export GOFLAGS=-mod=mod GOPROXY=off GOSUMDB=off GOTOOLCHAIN=local
export VERIF_ROOT="$(pwd)"
export VERIF_REPO="${VERIF_REPO:-/repo}"
mkdir -p bin evidence out
build() {
  # go.sum must match the repo's (offline module resolution)
  cp "$VERIF_REPO/go.sum" h/go.sum 2>/dev/null
  local modfile=()
  if [ "$VERIF_REPO" != "/repo" ]; then
    sed "s#=> /repo#=> $VERIF_REPO#" h/go.mod > h/alt.mod; cp h/go.sum h/alt.sum
    modfile=(-modfile=alt.mod)
  fi
  HOOKS=1
  if ! (cd h && go build "${modfile[@]}" -tags verif -o ../bin/verif ./cmd/verif) 2> out/build.err; then
    # hooks may not compile against an edited tree: fall back to the boundary-only harness
    HOOKS=0
    if ! (cd h && go build "${modfile[@]}" -o ../bin/verif ./cmd/verif) 2> out/build2.err; then
      cat out/build.err out/build2.err >&2
      echo "BROKEN: harness does not build against $VERIF_REPO" >&2
      exit 2
    fi
  fi
  export VERIF_HOOKS=$HOOKS
  # the CLI under test (C20), rebuilt from the tree under test
  (cd "$VERIF_REPO" && go build -o "$VERIF_ROOT/bin/ion-go-cli" ./cmd/ion-go) 2> out/build-cli.err || { echo "BROKEN: cmd/ion-go does not build" >&2; cat out/build-cli.err >&2; rm -f bin/ion-go-cli; }
  export VERIF_MODFILE="${modfile[*]:-}"
}
case "${1:-}" in
  setup) build; echo "setup ok (hooks=$VERIF_HOOKS)";;
  check) build; shift
    if [ "${1:-}" = "C18" ]; then
      # C18 is decided by the Go race detector: a second binary built with -race
      TAGS=(-tags verif); [ "$VERIF_HOOKS" = 1 ] || TAGS=()
      if (cd h && go build $VERIF_MODFILE -race "${TAGS[@]}" -o ../bin/verif-race ./cmd/verif) 2> out/build-race.err; then
        rm -rf out/race; mkdir -p out/race
        export VERIF_RACE_LOG="$VERIF_ROOT/out/race/c18"
        export GORACE="halt_on_error=0 log_path=$VERIF_RACE_LOG history_size=3"
        exec ./bin/verif-race check "$@"
      fi
      cat out/build-race.err >&2; echo "NOTE: race build failed; running without the race detector" >&2
    fi
    exec ./bin/verif check "$@";;
  replay) build; shift; exec ./bin/verif replay "$@";;
  *) echo "usage: run.sh setup | check <ID> quick|thorough | replay <path>"; exit 2;;
esac
