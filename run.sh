#!/bin/bash
# Entry point for every MANIFEST command. Rebuilds the harness against /repo's current working tree.
# Every invocation builds into a directory of its own (bin/run-<pid>, removed at the end), so that several
# checks, also against different trees (VERIF_REPO), can run at the same time from one /verif.
set -u
cd "$(dirname "$0")"
export GOFLAGS=-mod=mod GOPROXY=off GOSUMDB=off GOTOOLCHAIN=local
export VERIF_ROOT="$(pwd)"
export VERIF_REPO="${VERIF_REPO:-/repo}"
mkdir -p bin evidence out
BIN="$VERIF_ROOT/bin/run-$$"
# (what a killed run left behind goes, unless that run is still alive)
for d in bin/run-*; do p="${d##*-}"; [ -d "$d" ] && ! kill -0 "$p" 2>/dev/null && rm -rf "$d" "h/alt-$p.mod" "h/alt-$p.sum"; done
mkdir -p "$BIN"
export VERIF_BIN="$BIN"
ERR="out/build-$$"
cleanup() { rm -rf "$BIN" "h/alt-$$.mod" "h/alt-$$.sum" "$ERR".*; }
trap cleanup EXIT
build() {
  # go.sum must match the repo's (offline module resolution)
  cmp -s "$VERIF_REPO/go.sum" h/go.sum || cp "$VERIF_REPO/go.sum" h/go.sum 2>/dev/null
  local modfile=()
  if [ "$VERIF_REPO" != "/repo" ]; then
    sed "s#=> /repo#=> $VERIF_REPO#" h/go.mod > "h/alt-$$.mod"; cp h/go.sum "h/alt-$$.sum"
    modfile=(-modfile="alt-$$.mod")
  fi
  HOOKS=1
  if ! (cd h && go build "${modfile[@]}" -tags verif -o "$BIN/verif" ./cmd/verif) 2> "$ERR.1"; then
    # hooks may not compile against an edited tree: fall back to the boundary-only harness
    HOOKS=0
    if ! (cd h && go build "${modfile[@]}" -o "$BIN/verif" ./cmd/verif) 2> "$ERR.2"; then
      cat "$ERR.1" "$ERR.2" >&2
      echo "BROKEN: harness does not build against $VERIF_REPO" >&2
      exit 2
    fi
  fi
  export VERIF_HOOKS=$HOOKS
  # the CLI under test (C20), rebuilt from the tree under test
  (cd "$VERIF_REPO" && go build -o "$BIN/ion-go-cli" ./cmd/ion-go) 2> "$ERR.3" || { echo "BROKEN: cmd/ion-go does not build" >&2; cat "$ERR.3" >&2; rm -f "$BIN/ion-go-cli"; }
  export VERIF_MODFILE="${modfile[*]:-}"
}
# run the checking binary as a child (not exec: the private build directory is removed afterwards) and
# hand on the signals a caller may send (timeout -s QUIT asks for the goroutine dump)
run() {
  "$@" &
  child=$!
  trap 'kill -TERM $child 2>/dev/null' TERM
  trap 'kill -INT $child 2>/dev/null' INT
  trap 'kill -QUIT $child 2>/dev/null' QUIT
  wait $child; rc=$?
  while kill -0 $child 2>/dev/null; do wait $child; rc=$?; done
  exit $rc
}
case "${1:-}" in
  setup) build; echo "setup ok (hooks=$VERIF_HOOKS)";;
  check) build; shift
    if [ "${1:-}" = "C18" ]; then
      # C18 is decided by the Go race detector: a second binary built with -race
      TAGS=(-tags verif); [ "$VERIF_HOOKS" = 1 ] || TAGS=()
      if (cd h && go build $VERIF_MODFILE -race "${TAGS[@]}" -o "$BIN/verif-race" ./cmd/verif) 2> "$ERR.4"; then
        RACEDIR="out/race-$$"
        # (race logs of earlier runs go, unless that run is still alive)
        for d in out/race-*; do p="${d##*-}"; [ -d "$d" ] && ! kill -0 "$p" 2>/dev/null && rm -rf "$d"; done
        rm -rf "$RACEDIR" out/race; mkdir -p "$RACEDIR"
        ln -sfn "race-$$" out/race
        export VERIF_RACE_LOG="$VERIF_ROOT/$RACEDIR/c18"
        export GORACE="halt_on_error=0 log_path=$VERIF_RACE_LOG history_size=3"
        run "$BIN/verif-race" check "$@"
      fi
      cat "$ERR.4" >&2; echo "NOTE: race build failed; running without the race detector" >&2
    fi
    run "$BIN/verif" check "$@";;
  replay) build; shift; run "$BIN/verif" replay "$@";;
  *) echo "usage: run.sh setup | check <ID> quick|thorough | replay <path>"; exit 2;;
esac
