#!/bin/bash
# Entry point for every MANIFEST command. Rebuilds the harness against /repo's current working tree.
set -u
cd "$(dirname "$0")"
export GOFLAGS=-mod=mod GOPROXY=off GOSUMDB=off GOTOOLCHAIN=local
export VERIF_ROOT="$(pwd)"
export VERIF_REPO="${VERIF_REPO:-/repo}"
mkdir -p bin evidence out
build() {
  # go.sum must match the repo's (offline module resolution)
  cp "$VERIF_REPO/go.sum" h/go.sum 2>/dev/null
  local modfile=()
  if [ "$VERIF_REPO" != "/repo" ]; then
    sed "s#=> /repo#=> $VERIF_REPO#" h/go.mod > h/alt.mod; cp h/go.sum h/alt.sum
    modfile=(-modfile=alt.mod)
  fi
  HOOKS=1
  if ! (cd h && go build "${modfile[@]}" -tags verif -o ../bin/verif ./cmd/verif) 2> out/build.err; then
    # hooks may not compile against an edited tree: fall back to the boundary-only harness
    HOOKS=0
    if ! (cd h && go build "${modfile[@]}" -o ../bin/verif ./cmd/verif) 2> out/build2.err; then
      cat out/build.err out/build2.err >&2
      echo "BROKEN: harness does not build against $VERIF_REPO" >&2
      exit 2
    fi
  fi
  export VERIF_HOOKS=$HOOKS
  export VERIF_MODFILE="${modfile[*]:-}"
}
case "${1:-}" in
  setup) build; echo "setup ok (hooks=$VERIF_HOOKS)";;
  check) build; shift; exec ./bin/verif check "$@";;
  replay) build; shift; exec ./bin/verif replay "$@";;
  *) echo "usage: run.sh setup | check <ID> quick|thorough | replay <path>"; exit 2;;
esac
