#!/bin/bash
# usage: trymutant.sh <patch.diff> <ID>... ; applies the patch to /repo, runs the quick checks, reverts.
patch="$1"; shift
cd /verif
if ! git -C /repo diff --quiet; then echo "repo dirty, refusing"; exit 3; fi
if ! git -C /repo apply --3way "$patch" 2>/tmp/apply.err && ! git -C /repo apply "$patch" 2>>/tmp/apply.err; then echo "PATCH DOES NOT APPLY: $patch"; cat /tmp/apply.err | tail -3; git -C /repo reset -q --hard HEAD; exit 4; fi
for id in "$@"; do
  out=$(timeout 900 ./run.sh check $id quick 2>&1); rc=$?
  nv=$(echo "$out" | grep -c '^VIOLATION')
  echo "$(basename $(dirname $patch))/$(basename $(dirname $(dirname $patch))) check=$id exit=$rc violations=$nv :: $(echo "$out" | grep -A1 '^VIOLATION' | grep 'sub=' | head -1 | cut -c1-200)"
done
git -C /repo reset -q; git -C /repo checkout -- . ; git -C /repo clean -fdq
