#!/usr/bin/env python3
"""Regenerates /verif/MANIFEST.json from the table below (keeps the file valid at all times)."""
import json, subprocess
CHECKS = {
 "C01": dict(level="exploration", tech="reference-model monitor: generated value streams written through the real Writer API, read back by the real Reader, compared under Ion data-model equivalence by an independent model; exhaustive boundary grid",
   text="Held on the executions produced: seeded boundary-biased value streams x 4 writer modes plus an exhaustive boundary grid (ints around every 2^k up to 2^80 x every writer entry point, payload/container/annotation-wrapper lengths at 13/14, 127/128, 16383/16384, every kind x typed null x annotated x container position, every reserved-looking symbol text x symbol position). A violation comes with a minimised value stream.",
   note="Trusted: the harness's independent data model and its equivalence relation; the driver makes only legal Writer calls. Nothing is claimed about value streams outside the generator's reach (depth > 1000, payloads > 2 MiB).", ref="3 C01"),
 "C02": dict(level="exploration", tech="reference-model monitor: an independent spec-derived text printer with a random spelling choice at every token feeds the real text Reader; oracle = independent model; producer output cross-checked by an independent strict parser",
   text="Held on the renderings produced: each model stream is rendered with randomised whitespace/comments/radix/underscore/exponent/escape/long-string/symbol/lob/timestamp spellings; the rendering must parse back to the model under the reference parser (else dropped and counted), then ion-go must decode exactly the model. Violations are minimised over values and over spelling features.",
   note="Trusted: reftext (Ion 1.0 text grammar as written in DESIGN.md appendix A). Spellings whose legality is unsettled are not generated (DESIGN.md section 5).", ref="3 C02"),
 "C03": dict(level="exploration", tech="reference-model monitor: an independent spec-derived binary encoder with random representation choices feeds the real binary Reader; oracle = independent model; encoder output cross-checked by an independent strict decoder",
   text="Held on the encodings produced: inline vs VarUInt lengths, padded VarUInt/VarInt/ints/SIDs, 32/64-bit floats, decimal and timestamp sub-field forms, NOP pads at every level incl. structs, sorted-field structs, repeated version markers, multi-segment symbol tables (replace/append, duplicates, gaps), annotation wrappers around every kind incl. both booleans.",
   note="Trusted: refbin (Ion 1.0 binary format as written in DESIGN.md appendix A).", ref="3 C03"),
 "C04": dict(level="exploration", tech="independent-decoder monitor over real Writer output plus hook-level exhaustive codec monitor (xxxLen vs appendXxx vs reference primitive decoders)",
   text="Held on the executions produced: the C01 workload judged by decoders that share no code with ion-go (strict validity: version marker, declared lengths, nesting, every SID defined earlier in the stream, text grammar) plus an exhaustive boundary grid over every length/append codec pair exposed by the verif hooks.",
   note="Trusted: refbin/reftext. The codec sub-check needs the verif build tag; if hooks do not build it reports inconclusive and the stream-level monitor decides alone.", ref="3 C04"),
 "C09": dict(level="exploration", tech="reference-model monitor: symbol-table configurations and builder histories driven through the public API and the Reader, every observable compared with an independent model of the symbol-id space; exhaustive over small configurations",
   text="Held on the configurations explored: exhaustive small space (0-3 imports over small alphabets, every adjusted max_id 0..len+2, locals with duplicates/gaps/shadowing), exhaustive builder Add histories (length <= 4/5) with re-checks of every earlier (text,id) pair and Build() snapshot, random larger configurations incl. reader+catalog routes (exact / other version / missing / no catalog) and placeholder imports up to 2^40.",
   note="Trusted: refsym (id-space model). Text \"\" in a table definition is treated as an undefined slot for by-name lookup.", ref="3 C09"),
 "C13": dict(level="exploration", tech="boundary-exhaustive accessor monitor: every integer of a boundary set through every writer entry point and reference encoding into all four int accessors; exhaustive accessor x type x nullness matrix; byte-level check of the float width chosen by the binary writer; hook-level exhaustive reader codecs",
   text="Held on the values explored: ints ±(2^k+{-2..2}) at every 7/8-bit step to 2^80, all of [-65536,65536], random to 2^256; 13 types x null x format x annotated x 11 accessors; float32 boundary classes, sub-float32-subnormal values with clean mantissa bits, random bit patterns; lengths to 2^21, decimal exponents at every VarInt step to ±(2^31-1), symbol ids to 2^40.",
   note="Trusted: math/big and math.Float32bits as oracle; refbin primitive decoders. Reader-codec sub-check needs the verif tag.", ref="3 C13"),
 "C14": dict(level="exploration", tech="algebraic-law monitor: Decimal operations on the real type compared with math/big.Rat; String() judged by an independent Ion lexer and ParseDecimal; exhaustive small grid, exponent-gap sweep, Truncate sweep, formatting sweep",
   text="Held on the operations executed: all ordered pairs of a 500-decimal grid for Add/Sub/Mul/Cmp/Equal, every exponent gap 0..80, Truncate over every coefficient in a +-25000 (quick) / +-300000 (thorough) window x precisions 1..6, formatting over digit count 1..40 x scale -45..45 x sign x negative zero, random 300-digit operands over the int32 exponent range.",
   note="Domain: results representable (exponent sums within int32, |exponent difference| <= 2000). Negative zero is only checked by String/Parse.", ref="3 C14"),
 "C15": dict(level="exploration", tech="reference-model monitor over an exhaustive calendar-boundary grid: each timestamp through String/ParseTimestamp, text and binary write+read, reference encodings/spellings; negative corpus; sub-nanosecond fraction rounding judged with exact rational arithmetic",
   text="Held on the timestamps explored: grid of years {1,2,1900,2000,2023,2024,9998,9999} x every month x boundary days x 3 times x 12 offsets (incl. UTC year 0/10000) x precisions x fraction digits 0..9 (quick: seeded subsample), random timestamps, 42 impossible strings, 19 impossible binary encodings, 10..30-digit fractions in text and binary within 0.5 ns.",
   note="Oracle: independent proleptic-Gregorian arithmetic in the harness model (no time.Time); reftext/refbin lexers.", ref="3 C15"),
 "C07": dict(level="exploration", tech="fault-catalogue monitor: valid documents from the reference producers made invalid by catalogued edits (truncation at every interior offset, invalid atoms substituted with consistent enclosing lengths), cross-checked by the independent reference decoder; oracle on Reader.Err stickiness after a full traversal",
   text="Held on the edited documents produced: every interior truncation offset of every top-level item, 80+ binary and 110+ text invalid atoms (illegal tag/length pairs, negative zero, wrapper faults, impossible calendar fields, non-UTF-8, undefined ids, bad digits/escapes/separators/annotations/field names/base64) substituted at random depths; after the traversal Err() != nil, three further Next() false, Err() unchanged in type and message.",
   note="An edit counts only if the independent reference decoder rejects the result (edits it accepts are dropped and counted). Level is exploration, not fault enumeration: positions are exhaustive per document, documents are sampled.", ref="3 C07"),
 "C08": dict(level="exploration", tech="reference-cursor monitor: scripted navigation programs (skip / read / wrong accessor / refused StepIn / early StepOut / StepOut at top level / Next after end) over documents from both reference producers, every observation compared with a cursor over the model tree; exhaustive program enumeration for small documents",
   text="Held on the (document, program) pairs executed: all decision scripts for documents with <= 8 values (capped at 3000), 50 random programs for larger ones, text and binary, with skipped regions containing comments, long strings, lobs with delimiters, NOP pads, nested containers.",
   note="Trusted: the reference cursor (contract of reader.go's doc comment). FieldName/Annotations are not compared where a plain traversal would not look (no current value).", ref="3 C08"),
 "C06": dict(level="exploration", tech="hostile-input monitor with process isolation: grammar-aware hostile documents, byte-level mutations and exhaustive short inputs run in rlimited child workers through six API programs; oracles on recovered panics, fatal runtime errors, values-per-byte, TotalAlloc deltas and CPU seconds",
   text="Held on the inputs executed: every slot of symbol-table/import structs x every typed null/wrong type/duplicate/extreme number (text and binary), extreme lengths/ids/exponents/years at top level and nested, 65 000-deep nesting, mutations of valid documents in both formats, all short inputs; each through traversal (with and without catalog), random call sequences that continue after errors, Decoder.Decode, Unmarshal into 27 target types.",
   note="Workers run with RLIMIT_AS = 4 GiB and GOMAXPROCS=1; a worker death is attributed to the input journalled before it started. Allocation bound 1 MiB + 1 KiB per input byte per API call; hang = more than 30 s of child CPU.", ref="3 C06"),
 "C19": dict(level="fault_enumeration", tech="fault-injection monitor: instrumented io.Reader (every split point, chunk patterns, zero-length reads, EOF with data, failure at every byte offset) and instrumented io.Writer (failure at every write call index, persistent/once, rejected/partial) around the real readers and writers; oracle = equality with the fault-free run, error stickiness, prefix relation",
   text="Per document the fault space is enumerated: every single split point, read failure at every byte offset 0..len, write failure at every write call index in four fault models and four writer configurations (text, pretty, binary, binary with fixed table); documents are sampled from both reference producers with lookahead-heavy tokens.",
   note="Read failures are persistent; write failures use both a persistent and a one-shot model. Long write sequences (> 60 calls) are thinned to every third index in the middle.", ref="3 C19"),
 "C05": dict(level="exploration", tech="end-to-end copy monitor: source documents with their own symbol tables/imports/id references copied by the documented Reader->Writer loop into four writer configurations; destination judged by ion-go's reader and by the independent decoder against what the Reader saw in the source",
   text="Held on the copies executed: reference renderings in text and binary (local tables, multi-segment streams, $n/SID references) and symbol-heavy sources (1..3 replacing/appending tables, shared imports through a catalog, text shadowing imports/system symbols, id-looking text) x {text, pretty, binary, binary with the source's shared tables}.",
   note="Sources the Reader rejects or that contain unknown-text symbols other than $0 are skipped (counted).", ref="3 C05"),
 "C10": dict(level="exploration", tech="history monitor: stream histories of version markers, replacing/appending tables and imports rendered in both formats, compared value by value and table by table (Reader.SymbolTable after every user value) with an independent evolution of the symbol context under six catalog variants",
   text="Held on the histories executed: 1..8 segments per stream, imports with declared max_id absent/=/</>, catalogs nil/empty/exact/newer/older/all, ids referenced at every region boundary incl. max id + 1 (must fail), alternative spellings of the table annotation and of the append symbol ($3, quoted).",
   note="Gap slots and duplicate imports/symbols fields are outside the strict oracle.", ref="3 C10"),
 "C11": dict(level="exploration", tech="output-structure monitor: binary writers created with shared tables or a fixed table, output decoded by the independent decoder raw and with the tables, import declarations, id choice (lowest id per text) and local-symbol minimality checked against the id-space model; failure semantics of fixed tables checked call by call",
   text="Held on the configurations executed: 0..3 shared tables with overlapping text, gaps, adjusted max_id; streams mixing inside and outside text in symbol, field-name and annotation positions; fixed tables from NewLocalSymbolTable and from a Build() snapshot of a builder that keeps growing.",
   note="Trusted: refbin and refsym.", ref="3 C11"),
 "C12": dict(level="exploration", tech="protocol monitor: a shadow automaton of the Writer protocol driven by the actual return values over exhaustively enumerated short call sequences and random long ones; oracles on panics, error stickiness, validity and content of the output under the independent decoder, determinism (two runs)",
   text="Held on the sequences executed: every sequence of length <= 4 (quick) / <= 6 (thorough) over a 12-call alphabet x 4 writer configurations, plus random sequences to length 60 over the 29-call interface biased towards legal continuations, each followed by a final Finish and executed twice.",
   note="Arguments are valid Go values; legality concerns the sequence. Sequences where a successful End*/Finish discards pending annotations/field names are checked for validity and stickiness only.", ref="3 C12"),
}
NA = {}
def main():
    commits = subprocess.run(["git","-C","/repo","log","--format=%h %s"],capture_output=True,text=True).stdout.splitlines()
    hooks = [l.split()[0] for l in commits if l.split(" ",1)[1].startswith("verif hooks")]
    m = {
     "version": 1,
     "setup_cmd": "./run.sh setup",
     "hooks": {"guard": "verif", "enable": "go build -tags verif (run.sh builds /verif/h with -tags verif against /repo via a replace directive; falls back to a build without the tag if the hooks do not compile)",
               "baseline_off_cmd": "cd /repo && GOFLAGS=-mod=mod GOPROXY=off GOSUMDB=off GOTOOLCHAIN=local go test -json -vet=off -count=1 -timeout 25m ./...",
               "source_commits": hooks, "add_only": True},
     "engines": [{"name": "verif", "path": "/verif/h", "serves_properties": sorted(CHECKS), "kind_free_text": "Go harness: generators, independent reference encoders/decoders, per-property runtime monitors, supervised child processes"}],
     "checks": [], "not_applicable": [],
     "notes": "Every command rebuilds bin/verif from /repo's current working tree. VERIF_SEED selects the PRNG seed (default 1). Exit 0 held / 1 violation (VIOLATION line) / 2 harness broken or nothing observed. Known findings: KNOWN_FINDINGS.jsonl."
    }
    for i in range(1,21):
        pid = "C%02d" % i
        if pid in CHECKS:
            c = CHECKS[pid]
            m["checks"].append({"property_id": pid, "quick_cmd": f"./run.sh check {pid} quick", "thorough_cmd": f"./run.sh check {pid} thorough",
              "evidence_file": f"/verif/evidence/{pid}.json", "replay_cmd_template": "./run.sh replay {path}", "engine": "verif",
              "level_claimed": {"category": c["level"], "text": c["text"], "design_ref": "DESIGN.md section " + c["ref"]},
              "level_note": c["note"], "technique": c["tech"]})
        else:
            m["not_applicable"].append({"property_id": pid, "reason": NA.get(pid, "check not built yet in this session (work in progress; DESIGN.md section 3 describes the planned monitor)")})
    json.dump(m, open("/verif/MANIFEST.json","w"), indent=1)
    print("checks:", len(m["checks"]), "not_applicable:", len(m["not_applicable"]))
main()
