#!/bin/bash
# usage: allquick.sh [tier] [ids...] ; runs the checks on /repo (or $VERIF_REPO) and prints one line per check.
cd "$(dirname "$0")/.."
tier="${1:-quick}"; shift
ids="${*:-C01 C02 C03 C04 C05 C06 C07 C08 C09 C10 C11 C12 C13 C14 C15 C16 C17 C18 C19 C20}"
rc=0
for id in $ids; do
  out=$(./run.sh check $id $tier 2>&1); r=$?
  echo "$id exit=$r :: $(echo "$out" | grep -a "^$id $tier" | tail -1) $(echo "$out" | grep -a -c '^VIOLATION') viol $(echo "$out" | grep -a '^INCONCLUSIVE\|^BROKEN' | head -2 | cut -c1-160)"
  [ $r -ne 0 ] && { rc=1; echo "$out" | grep -a -A1 '^VIOLATION' | grep 'sub=' | head -3 | cut -c1-260; }
done
exit $rc
