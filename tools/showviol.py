#!/usr/bin/env python3
"""showviol.py <ID> <substring> [n]: print detail of recorded violations whose fingerprint contains substring."""
import json, sys, glob
pid, sub = sys.argv[1], sys.argv[2]
n = int(sys.argv[3]) if len(sys.argv) > 3 else 1
for f in sorted(glob.glob(f'/verif/out/violations/{pid}/*.json')):
    v = json.load(open(f))
    if sub in v.get('fingerprint', ''):
        print(f, v['fingerprint'][:150]); print('  ', v['detail'][:1500]); n -= 1
        if n <= 0: break
