#!/bin/bash
# usage: retest_seeds.sh [seed dirs...] ; for each seeded change: scratch worktree of /repo HEAD, apply, run the quick check of the
# property it breaks (and of the other checks recorded in its meta.json) against it. Prints one line per (seed, check).
cd "$(dirname "$0")/.."
dirs="${*:-seeded/*}"
for d in $dirs; do
  d=$(realpath "$d"); name=$(basename $d); id=${name%%-*}
  wt=/tmp/rs-$$
  git -C /repo worktree remove --force $wt 2>/dev/null; rm -rf $wt
  git -C /repo worktree add -q --detach $wt HEAD || exit 2
  if ! git -C $wt apply --3way "$d/patch.diff" 2>/dev/null && ! git -C $wt apply "$d/patch.diff" 2>/dev/null; then echo "SEED $name: DOES NOT APPLY"; git -C /repo worktree remove --force $wt; continue; fi
  extra=$(python3 -c "import json,sys; m=json.load(open('$d/meta.json')); print(' '.join(k for k in m.get('detected_by',{}) if k!='$id'))" 2>/dev/null)
  for c in $id $extra; do
    out=$(VERIF_REPO=$wt timeout 1200 ./run.sh check $c quick 2>&1); r=$?
    echo "SEED $name check=$c exit=$r violations=$(echo "$out" | grep -a -c '^VIOLATION') :: $(echo "$out" | grep -a -A1 '^VIOLATION' | grep -a 'sub=' | head -1 | cut -c1-220)"
  done
  git -C /repo worktree remove --force $wt 2>/dev/null; rm -rf $wt
done
