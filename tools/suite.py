#!/usr/bin/env python3
"""Run the repository's suite (hooks off) in a tree and compare with BASELINE.json's stable_pass."""
import json, subprocess, sys, os
tree = sys.argv[1] if len(sys.argv) > 1 else '/repo'
tags = sys.argv[2:]  # e.g. -tags verif
env = dict(os.environ, GOFLAGS='-mod=mod', GOPROXY='off', GOSUMDB='off', GOTOOLCHAIN='local')
p = subprocess.run(['go', 'test', '-json', '-vet=off', '-count=1', '-timeout', '25m'] + tags + ['./...'], cwd=tree, env=env, capture_output=True, text=True)
res = {}
for l in p.stdout.splitlines():
    try: e = json.loads(l)
    except Exception: continue
    if e.get('Test') and e.get('Action') in ('pass', 'fail', 'skip'):
        res[e['Package'] + '::' + e['Test']] = e['Action']
base = json.load(open('/root/.vp/BASELINE.json'))
want = set(base['stable_pass'])
passed = {k for k, v in res.items() if v == 'pass'}
missing = sorted(want - passed)
newfail = sorted(k for k, v in res.items() if v == 'fail' and k not in set(base.get('always_fail', [])))
print(f"passed={len(passed)} baseline={len(want)} missing_from_baseline={len(missing)} new_failures={len(newfail)}")
for m in missing[:20]: print("  MISSING", m)
for m in newfail[:20]: print("  NEWFAIL", m)
sys.exit(0 if not missing and not newfail else 1)
