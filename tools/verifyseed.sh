#!/bin/bash
# usage: verifyseed.sh <Cxx> <a|b> [extra check ids...]
# (runs its checks through VERIF_REPO on the scratch worktree; safe to run from a `vp run` snapshot)
# Confirms a seeded change in a scratch worktree of /repo's HEAD: the demo passes on the clean tree, the patch applies and builds,
# the repository suite still matches the baseline, the demo fails with the patch; then runs the property's quick check (and any extra
# checks) against /repo with the patch applied and stores everything under /verif/seeded/<Cxx>-<v>/.
set -u
id="$1"; v="$2"; shift 2
src=/tmp/seed/$id/$v
dst=/verif/seeded/$id-$v
export GOFLAGS=-mod=mod GOPROXY=off GOSUMDB=off GOTOOLCHAIN=local
wt=/tmp/vw-$id-$v
git -C /repo worktree remove --force $wt 2>/dev/null; rm -rf $wt
git -C /repo worktree add -q --detach $wt HEAD || exit 2
cleanup() { git -C /repo worktree remove --force $wt 2>/dev/null; rm -rf $wt; }
demo=$(ls $src/demo_test.go $src/*_test.go 2>/dev/null | head -1)
demosh=$(ls $src/demo.sh 2>/dev/null | head -1)
rundemo() {
  if [ -n "$demo" ]; then
    pkgdir=ion; grep -q '^package main' "$demo" && pkgdir=cmd/ion-go
    cp "$demo" $wt/$pkgdir/zz_seed_demo_test.go
    names=$(grep -oE '^func (Test[A-Za-z0-9_]+)' "$demo" | awk '{print $2}' | paste -sd'|')
    (cd $wt && go test -vet=off -count=1 -run "^($names)\$" ./$pkgdir > /tmp/demo-$id-$v.log 2>&1); rc=$?
    rm -f $wt/$pkgdir/zz_seed_demo_test.go
    return $rc
  elif [ -n "$demosh" ]; then
    (cd $wt && bash "$demosh" > /tmp/demo-$id-$v.log 2>&1); return $?
  fi
  return 99
}
rundemo; clean_rc=$?
if ! git -C $wt apply --3way "$src/patch.diff" 2>/tmp/apply-$id-$v.err && ! git -C $wt apply "$src/patch.diff" 2>>/tmp/apply-$id-$v.err; then
  echo "$id-$v: PATCH DOES NOT APPLY to HEAD"; cleanup; exit 1
fi
git -C $wt diff HEAD > /tmp/patch-$id-$v.diff
(cd $wt && go build ./... ) || { echo "$id-$v: does not build"; cleanup; exit 1; }
suite=$(/verif/tools/suite.py $wt 2>&1 | head -1)
rundemo; mut_rc=$?
# quick checks against the patched scratch worktree (VERIF_REPO), so /repo itself is left alone
checks="$id $*"
results=""
if [ $clean_rc -eq 0 ] && [ $mut_rc -ne 0 ]; then
  for c in $checks; do
    out=$(cd "$(dirname "$0")/.." && VERIF_REPO=$wt timeout 1500 ./run.sh check $c quick 2>&1); rc=$?
    results="$results$id-$v check=$c exit=$rc violations=$(echo "$out" | grep -a -c '^VIOLATION') :: $(echo "$out" | grep -a -A1 '^VIOLATION' | grep -a 'sub=' | head -1 | cut -c1-200)\n"
  done
fi
cleanup
echo "$id-$v: demo_on_clean_tree_exit=$clean_rc suite_with_patch=[$suite] demo_with_patch_exit=$mut_rc"
if [ $clean_rc -ne 0 ] || [ $mut_rc -eq 0 ] || ! echo "$suite" | grep -q "missing_from_baseline=0 new_failures=0"; then
  echo "$id-$v: NOT CONFIRMED"; exit 1
fi
mkdir -p $dst
cp /tmp/patch-$id-$v.diff $dst/patch.diff
[ -n "$demo" ] && cp "$demo" $dst/demo_test.go
[ -n "$demosh" ] && cp "$demosh" $dst/demo.sh
cp $src/NOTES.md $dst/NOTES.md 2>/dev/null
printf "$results" > $dst/checks.txt
python3 - "$id" "$v" "$dst" "$suite" <<'PY'
import json, sys, re, subprocess
id, v, dst, suite = sys.argv[1:5]
notes = open(dst + '/NOTES.md').read() if __import__('os').path.exists(dst + '/NOTES.md') else ''
lines = [l for l in open(dst + '/checks.txt').read().splitlines() if l.strip()]
caught = {}
for l in lines:
    m = re.search(r'check=(C\d+) exit=(\d+) violations=(\d+) :: (.*)', l)
    if m: caught[m.group(1)] = {"exit": int(m.group(2)), "violations": int(m.group(3)), "first": m.group(4).strip()[:300]}
head = subprocess.run(["git", "-C", "/repo", "log", "--format=%h", "-1"], capture_output=True, text=True).stdout.strip()
meta = {"property": id, "variant": v, "breaks": id, "source": "independent sub-agent given only the property text and a scratch worktree",
        "needs_to_manifest": notes[:1500], "confirmed_at_repo_commit": head,
        "what_was_run": ["demo on the clean scratch worktree: pass", "git apply patch.diff: ok; go build ./...: ok", "repository suite with the patch, hooks off: " + suite,
                         "demo with the patch: fails", "quick checks with the patch applied to /repo (then reverted): see detected_by"],
        "detected_by": caught}
json.dump(meta, open(dst + '/meta.json', 'w'), indent=1)
print(id + '-' + v + ': stored; detected_by=' + json.dumps({k: x['exit'] for k, x in caught.items()}))
PY
rm -f $dst/checks.txt
