#!/bin/bash
# usage: tryneutral.sh <patch.diff>... ; for each property-preserving patch: scratch worktree of /repo HEAD, apply, run every quick
# check against it (VERIF_REPO; NPAR checks at a time, default 5: run.sh gives every invocation its own build directory), print the
# checks that alarmed. A sound harness prints nothing but "silent" lines.
cd "$(dirname "$0")/.."
NPAR="${NPAR:-5}"
for patch in "$@"; do
  patch=$(realpath "$patch")
  wt=/tmp/nw-$$
  git -C /repo worktree remove --force $wt 2>/dev/null; rm -rf $wt
  git -C /repo worktree add -q --detach $wt HEAD || exit 2
  if ! git -C $wt apply --3way "$patch" 2>/dev/null && ! git -C $wt apply "$patch"; then echo "$patch: DOES NOT APPLY"; git -C /repo worktree remove --force $wt; continue; fi
  res=/tmp/nw-$$-res; rm -rf $res; mkdir -p $res
  printf '%s\n' C01 C02 C03 C04 C05 C06 C07 C08 C09 C10 C11 C12 C13 C14 C15 C16 C17 C18 C19 C20 | \
    xargs -P "$NPAR" -I{} sh -c "VERIF_REPO=$wt timeout 1800 ./run.sh check {} quick > $res/{}.out 2>&1; echo \$? > $res/{}.rc"
  alarms=""
  for id in C01 C02 C03 C04 C05 C06 C07 C08 C09 C10 C11 C12 C13 C14 C15 C16 C17 C18 C19 C20; do
    r=$(cat $res/$id.rc 2>/dev/null || echo 99)
    if [ "$r" -ne 0 ]; then
      alarms="$alarms $id(exit=$r)"
      echo "$patch: ALARM $id exit=$r"
      grep -a -A2 '^VIOLATION' $res/$id.out | grep -a -v '^VIOLATION\|^--' | head -6 | cut -c1-420
      grep -a '^INCONCLUSIVE\|^BROKEN' $res/$id.out | head -3 | cut -c1-300
    fi
  done
  echo "$patch: done; alarms:${alarms:- none (silent)}"
  rm -rf $res
  git -C /repo worktree remove --force $wt 2>/dev/null; rm -rf $wt
done
