package ionx

import (
	"fmt"
	"math"
	"math/big"
	"math/rand"
	"strconv"

	"github.com/amzn/ion-go/ion"

	"verifh/model"
)

// WriteOpts selects among equivalent ways of making the same Writer calls.
type WriteOpts struct {
	Rnd *rand.Rand // nil: canonical choices

	// SymbolFromString allows WriteSymbolFromString for text that is not $n-shaped.
	SymbolFromString bool
	// IntVia forces the integer entry point: 1 WriteInt, 2 WriteUint, 3 WriteBigInt (0: by magnitude / random).
	IntVia int
	// Calls, when non-nil, receives a log of the calls made.
	Calls *[]string

	// arena, when non-nil, is one buffer out of which the lob arguments are cut as adjacent
	// sub-slices with spare capacity (the way a caller chunks a larger buffer).
	arena []byte

	// reuse: field names and symbol values are passed in one SymbolToken per role whose Text points
	// at a string variable that is assigned before each call (the shape of a loop that re-uses its
	// token); a writer has to look at the text, not at the pointer.
	reuse            bool
	fieldVar, symVar string
}

func (o *WriteOpts) tokFor(role int, s model.Sym) ion.SymbolToken {
	if !o.reuse || !s.HasText {
		return Tok(s)
	}
	if role == 0 {
		o.fieldVar = s.Text
		return ion.SymbolToken{Text: &o.fieldVar, LocalSID: ion.SymbolIDUnknown}
	}
	o.symVar = s.Text
	return ion.SymbolToken{Text: &o.symVar, LocalSID: ion.SymbolIDUnknown}
}

func (o *WriteOpts) lob(b []byte) []byte {
	if o.arena == nil || len(o.arena)+len(b) > cap(o.arena) {
		return b
	}
	st := len(o.arena)
	o.arena = append(o.arena, b...)
	return o.arena[st:len(o.arena)]
}

// systemWordSID: the system symbols that are ordinary words (ids fixed by the Ion 1.0 system table).
var systemWordSID = map[string]int{"name": 4, "version": 5, "imports": 6, "symbols": 7, "max_id": 8}

// LooksLikeSID mirrors the *documented* notion of "$n-shaped" text, generously: anything that
// starts with '$' followed by an optional sign and digits only.
func LooksLikeSID(s string) bool {
	if len(s) < 2 || s[0] != '$' {
		return false
	}
	_, err := strconv.Atoi(s[1:])
	if err == nil {
		return true
	}
	// very long digit strings overflow Atoi; still treat as sid-shaped
	for i, c := range s[1:] {
		if c >= '0' && c <= '9' {
			continue
		}
		if i == 0 && (c == '+' || c == '-') {
			continue
		}
		return false
	}
	return true
}

// Tok converts a model symbol into the token a caller would construct by hand.
func Tok(s model.Sym) ion.SymbolToken {
	if s.HasText {
		return ion.NewSymbolTokenFromString(s.Text)
	}
	return ion.SymbolToken{LocalSID: s.SID}
}

type WriteError struct {
	Call string
	Err  error
}

func (e *WriteError) Error() string { return e.Call + ": " + e.Err.Error() }
func (e *WriteError) Unwrap() error { return e.Err }

// Write drives the Writer with the calls that write vals. It stops at the first error.
// Finish is NOT called.
func Write(w ion.Writer, vals []*model.Value, o *WriteOpts) error {
	if o == nil {
		o = &WriteOpts{}
	}
	o.arena = nil
	o.reuse = o.Rnd != nil && o.Rnd.Intn(3) == 0
	if o.Rnd != nil {
		total := 0
		model.Walk(vals, func(v *model.Value, _ int) {
			if (v.Kind == model.Blob || v.Kind == model.Clob) && !v.IsNull {
				total += len(v.Bytes)
			}
		})
		if total > 0 && o.Rnd.Intn(2) == 0 {
			o.arena = make([]byte, 0, total+32)
		}
	}
	for _, v := range vals {
		if err := writeValue(w, v, o, false); err != nil {
			return err
		}
	}
	return nil
}

func logCall(o *WriteOpts, s string) {
	if o.Calls != nil {
		*o.Calls = append(*o.Calls, s)
	}
}

func wrap(call string, err error) error {
	if err == nil {
		return nil
	}
	return &WriteError{call, err}
}

func writeValue(w ion.Writer, v *model.Value, o *WriteOpts, inStruct bool) error {
	// the field name and the annotations of the next value may be announced in either order
	nameLast := inStruct && len(v.Ann) > 0 && o.Rnd != nil && o.Rnd.Intn(3) == 0
	setName := func() error {
		if v.Field == nil {
			return &WriteError{"harness", fmt.Errorf("struct child without field name in model")}
		}
		logCall(o, "FieldName("+v.Field.String()+")")
		return wrap("FieldName", w.FieldName(o.tokFor(0, *v.Field)))
	}
	if inStruct && !nameLast {
		if err := setName(); err != nil {
			return err
		}
	}
	if len(v.Ann) > 0 {
		if o.Rnd != nil && o.Rnd.Intn(2) == 0 {
			for _, a := range v.Ann {
				logCall(o, "Annotation("+a.String()+")")
				if err := w.Annotation(Tok(a)); err != nil {
					return wrap("Annotation", err)
				}
			}
		} else {
			// The slice handed to Annotations is the caller's: it may have spare capacity that holds
			// the caller's other tokens, the rest may follow through Annotation, and the caller may
			// recycle the slice as soon as the call has returned.
			mode := 0
			if o.Rnd != nil {
				mode = o.Rnd.Intn(4)
			}
			split := len(v.Ann)
			if mode == 1 && len(v.Ann) > 1 {
				split = 1 + o.Rnd.Intn(len(v.Ann)-1)
			}
			private := "private_to_the_caller"
			toks := make([]ion.SymbolToken, len(v.Ann)+3)
			for i := range toks {
				toks[i] = ion.SymbolToken{Text: &private, LocalSID: ion.SymbolIDUnknown}
			}
			for i, a := range v.Ann[:split] {
				toks[i] = Tok(a)
			}
			logCall(o, fmt.Sprintf("Annotations(%v) [mode %d, first %d]", v.Ann, mode, split))
			if err := w.Annotations(toks[:split]...); err != nil {
				return wrap("Annotations", err)
			}
			for i := split; i < len(v.Ann); i++ {
				if err := w.Annotation(Tok(v.Ann[i])); err != nil {
					return wrap("Annotation", err)
				}
			}
			for i := split; i < len(toks); i++ {
				if toks[i].Text != &private {
					return &WriteError{"Annotations", fmt.Errorf("the Writer wrote into the caller's slice behind the %d tokens it was given", split)}
				}
			}
			if mode >= 2 {
				junk := "recycled_by_the_caller"
				for i := range toks[:cap(toks)] {
					toks[:cap(toks)][i] = ion.SymbolToken{Text: &junk, LocalSID: ion.SymbolIDUnknown}
				}
			}
		}
	}
	if nameLast {
		if err := setName(); err != nil {
			return err
		}
	}
	if v.Kind == model.Null {
		if o.Rnd != nil && o.Rnd.Intn(2) == 0 {
			logCall(o, "WriteNullType(null)")
			return wrap("WriteNullType", w.WriteNullType(ion.NullType))
		}
		logCall(o, "WriteNull")
		return wrap("WriteNull", w.WriteNull())
	}
	if v.IsNull {
		logCall(o, "WriteNullType("+v.Kind.String()+")")
		return wrap("WriteNullType", w.WriteNullType(KindTypes[v.Kind]))
	}
	switch v.Kind {
	case model.Bool:
		logCall(o, fmt.Sprintf("WriteBool(%v)", v.B))
		return wrap("WriteBool", w.WriteBool(v.B))
	case model.Int:
		return writeInt(w, v.I, o)
	case model.Float:
		f := math.Float64frombits(v.F)
		logCall(o, fmt.Sprintf("WriteFloat(%016x)", v.F))
		return wrap("WriteFloat", w.WriteFloat(f))
	case model.Decimal:
		logCall(o, "WriteDecimal("+v.D.String()+")")
		return wrap("WriteDecimal", w.WriteDecimal(ToDec(v.D)))
	case model.Timestamp:
		variant := 0
		if o.Rnd != nil {
			variant = o.Rnd.Intn(6)
		}
		logCall(o, "WriteTimestamp("+v.T.String()+")")
		return wrap("WriteTimestamp", w.WriteTimestamp(ToTS(v.T, variant)))
	case model.Symbol:
		if o.SymbolFromString && v.Sy.HasText && !LooksLikeSID(v.Sy.Text) && o.Rnd != nil && o.Rnd.Intn(3) == 0 {
			logCall(o, "WriteSymbolFromString("+v.Sy.String()+")")
			return wrap("WriteSymbolFromString", w.WriteSymbolFromString(v.Sy.Text))
		}
		// a symbol known by id only: through this entry point "$n" is the id n (DESIGN 7.3), the same
		// thing as a token without text
		if o.SymbolFromString && !v.Sy.HasText && v.Sy.SID >= 0 && o.Rnd != nil && o.Rnd.Intn(2) == 0 {
			logCall(o, fmt.Sprintf("WriteSymbolFromString($%d)", v.Sy.SID))
			return wrap("WriteSymbolFromString", w.WriteSymbolFromString(fmt.Sprintf("$%d", v.Sy.SID)))
		}
		// ... and the five system symbols that are ordinary words have the same id in every context
		if sid, ok := systemWordSID[v.Sy.Text]; ok && o.SymbolFromString && v.Sy.HasText && o.Rnd != nil && o.Rnd.Intn(2) == 0 {
			logCall(o, fmt.Sprintf("WriteSymbolFromString($%d) for %q", sid, v.Sy.Text))
			return wrap("WriteSymbolFromString", w.WriteSymbolFromString(fmt.Sprintf("$%d", sid)))
		}
		logCall(o, "WriteSymbol("+v.Sy.String()+")")
		return wrap("WriteSymbol", w.WriteSymbol(o.tokFor(1, v.Sy)))
	case model.String:
		logCall(o, fmt.Sprintf("WriteString(len %d)", len(v.S)))
		return wrap("WriteString", w.WriteString(v.S))
	case model.Clob:
		logCall(o, fmt.Sprintf("WriteClob(len %d)", len(v.Bytes)))
		return wrap("WriteClob", w.WriteClob(o.lob(v.Bytes)))
	case model.Blob:
		logCall(o, fmt.Sprintf("WriteBlob(len %d)", len(v.Bytes)))
		return wrap("WriteBlob", w.WriteBlob(o.lob(v.Bytes)))
	case model.List, model.Sexp, model.Struct:
		var begin, end func() error
		name := ""
		switch v.Kind {
		case model.List:
			begin, end, name = w.BeginList, w.EndList, "List"
		case model.Sexp:
			begin, end, name = w.BeginSexp, w.EndSexp, "Sexp"
		default:
			begin, end, name = w.BeginStruct, w.EndStruct, "Struct"
		}
		logCall(o, "Begin"+name)
		if err := begin(); err != nil {
			return wrap("Begin"+name, err)
		}
		for _, k := range v.Kids {
			if err := writeValue(w, k, o, v.Kind == model.Struct); err != nil {
				return err
			}
		}
		logCall(o, "End"+name)
		return wrap("End"+name, end())
	}
	return &WriteError{"harness", fmt.Errorf("unknown kind %v", v.Kind)}
}

func writeInt(w ion.Writer, n *big.Int, o *WriteOpts) error {
	// applicable entry points
	var opts []int
	if n.IsInt64() {
		opts = append(opts, 0)
	}
	if n.IsUint64() {
		opts = append(opts, 1)
	}
	opts = append(opts, 2)
	pick := opts[0]
	if o.Rnd != nil {
		pick = opts[o.Rnd.Intn(len(opts))]
	}
	if o.IntVia > 0 {
		for _, x := range opts {
			if x == o.IntVia-1 {
				pick = x
			}
		}
	}
	switch pick {
	case 0:
		logCall(o, "WriteInt("+n.String()+")")
		return wrap("WriteInt", w.WriteInt(n.Int64()))
	case 1:
		logCall(o, "WriteUint("+n.String()+")")
		return wrap("WriteUint", w.WriteUint(n.Uint64()))
	default:
		logCall(o, "WriteBigInt("+n.String()+")")
		// the number is the caller's: a counter or running total is changed in place as soon as
		// the call has returned
		own := new(big.Int).Set(n)
		err := w.WriteBigInt(own)
		own.Add(own, big.NewInt(1))
		own.Lsh(own, 3)
		return wrap("WriteBigInt", err)
	}
}
