// Package ionx is the glue between the independent model and ion-go's public API:
// Observe (Reader -> model), Write (model -> Writer calls), conversions.
package ionx

import (
	"fmt"
	"math"
	"math/big"
	"runtime"
	"strings"
	"sync"
	"time"
	_ "time/tzdata" // the zone database travels with the binary: real zones do not depend on the machine

	"github.com/amzn/ion-go/ion"

	"verifh/model"
)

var (
	realZonesOnce sync.Once
	realZones     []*time.Location
)

// inRealZone returns dt carried by a Location of the zone database (daylight saving rules and all)
// when one of a few such zones has exactly dt's offset at that instant, as the time.Time values of a
// program that works in local time are. The instant and the offset stay what they were.
func inRealZone(dt time.Time) time.Time {
	realZonesOnce.Do(func() {
		for _, n := range []string{"America/New_York", "Europe/Berlin", "Australia/Lord_Howe", "Asia/Kolkata", "America/St_Johns", "Pacific/Chatham", "America/Sao_Paulo"} {
			if l, err := time.LoadLocation(n); err == nil {
				realZones = append(realZones, l)
			}
		}
	})
	_, want := dt.Zone()
	for _, l := range realZones {
		if in := dt.In(l); func() int { _, o := in.Zone(); return o }() == want {
			return in
		}
	}
	return dt
}

// Obs is the result of a full traversal.
type Obs struct {
	Vals     []*model.Value
	Err      error    // final r.Err() or the accessor error that stopped the traversal
	ErrWhere string   // "" when Err came from Next/Err, else the accessor name
	Panic    string   // non-empty when a call panicked (message + top ion frames)
	Soft     []string // accessor inconsistencies that do not stop the traversal
	Calls    int
}

func (o Obs) Failed() bool { return o.Err != nil || o.Panic != "" }

func (o Obs) ErrString() string {
	if o.Panic != "" {
		return "PANIC: " + o.Panic
	}
	if o.Err != nil {
		w := o.ErrWhere
		if w != "" {
			w = " [" + w + "]"
		}
		return o.Err.Error() + w
	}
	return ""
}

// PanicSite extracts "message @ ion.func" from a recovered panic.
func PanicSite(rec interface{}) string {
	buf := make([]byte, 1<<14)
	n := runtime.Stack(buf, false)
	lines := strings.Split(string(buf[:n]), "\n")
	site := ""
	for _, l := range lines {
		if strings.Contains(l, "github.com/amzn/ion-go/") && !strings.HasPrefix(l, "\t") {
			l = strings.TrimSpace(l)
			if i := strings.LastIndex(l, "("); i > 0 {
				l = l[:i]
			}
			l = strings.TrimPrefix(l, "github.com/amzn/ion-go/")
			site = l
			break
		}
	}
	msg := fmt.Sprint(rec)
	if len(msg) > 200 {
		msg = msg[:200]
	}
	return msg + " @ " + site
}

// Observe drives a Reader through every value: enters every container, reads every scalar
// with its accessors, field name and annotations. It stops at the first error.
func Observe(r ion.Reader) (o Obs) {
	defer func() {
		if rec := recover(); rec != nil {
			o.Panic = PanicSite(rec)
		}
	}()
	vals, err, where := observeSeq(r, &o, false, 0)
	o.Vals = vals
	o.Err = err
	o.ErrWhere = where
	return o
}

const maxDepth = 100000

func observeSeq(r ion.Reader, o *Obs, inStruct bool, depth int) ([]*model.Value, error, string) {
	var out []*model.Value
	for {
		o.Calls++
		if !r.Next() {
			break
		}
		v, err, where := observeValue(r, o, inStruct, depth)
		if v != nil {
			out = append(out, v)
		}
		if err != nil {
			return out, err, where
		}
	}
	if err := r.Err(); err != nil {
		return out, err, ""
	}
	return out, nil, ""
}

func symOf(t *ion.SymbolToken) model.Sym {
	if t.Text != nil {
		return model.T(*t.Text)
	}
	return model.SID(t.LocalSID)
}

var typeKinds = map[ion.Type]model.Kind{
	ion.NullType: model.Null, ion.BoolType: model.Bool, ion.IntType: model.Int, ion.FloatType: model.Float,
	ion.DecimalType: model.Decimal, ion.TimestampType: model.Timestamp, ion.SymbolType: model.Symbol,
	ion.StringType: model.String, ion.ClobType: model.Clob, ion.BlobType: model.Blob,
	ion.ListType: model.List, ion.SexpType: model.Sexp, ion.StructType: model.Struct,
}

var KindTypes = func() map[model.Kind]ion.Type {
	m := map[model.Kind]ion.Type{}
	for t, k := range typeKinds {
		m[k] = t
	}
	return m
}()

// ReadCurrent converts the value the reader is positioned on (recursing into containers).
func observeValue(r ion.Reader, o *Obs, inStruct bool, depth int) (*model.Value, error, string) {
	t := r.Type()
	k, ok := typeKinds[t]
	if !ok {
		return nil, fmt.Errorf("Next returned true but Type() = %v", t), "Type"
	}
	v := &model.Value{Kind: k, IsNull: r.IsNull()}
	if k == model.Null {
		v.IsNull = true // null.null is always null in the model
		if !r.IsNull() {
			o.Soft = append(o.Soft, "IsNull()==false on a null value")
		}
	}
	o.Calls += 3
	fn, err := r.FieldName()
	if err != nil {
		return nil, err, "FieldName"
	}
	if fn != nil {
		s := symOf(fn)
		v.Field = &s
	}
	if inStruct != r.IsInStruct() {
		o.Soft = append(o.Soft, fmt.Sprintf("IsInStruct()=%v inside struct=%v", r.IsInStruct(), inStruct))
	}
	if inStruct && fn == nil {
		o.Soft = append(o.Soft, "no field name inside a struct")
	}
	if !inStruct && fn != nil {
		o.Soft = append(o.Soft, "field name outside a struct")
	}
	as, err := r.Annotations()
	if err != nil {
		return nil, err, "Annotations"
	}
	for i := range as {
		v.Ann = append(v.Ann, symOf(&as[i]))
	}
	if v.IsNull || k == model.Null {
		return v, nil, ""
	}
	o.Calls++
	switch k {
	case model.Bool:
		b, err := r.BoolValue()
		if err != nil {
			return nil, err, "BoolValue"
		}
		if b == nil {
			return nil, fmt.Errorf("BoolValue returned nil for a non-null bool"), "BoolValue"
		}
		v.B = *b
	case model.Int:
		bi, err := r.BigIntValue()
		if err != nil {
			return nil, err, "BigIntValue"
		}
		if bi == nil {
			return nil, fmt.Errorf("BigIntValue returned nil for a non-null int"), "BigIntValue"
		}
		v.I = new(big.Int).Set(bi)
		if s := CheckIntAccessors(r, v.I); s != "" {
			o.Soft = append(o.Soft, s)
		}
	case model.Float:
		f, err := r.FloatValue()
		if err != nil {
			return nil, err, "FloatValue"
		}
		if f == nil {
			return nil, fmt.Errorf("FloatValue returned nil for a non-null float"), "FloatValue"
		}
		v.F = math.Float64bits(*f)
	case model.Decimal:
		d, err := r.DecimalValue()
		if err != nil {
			return nil, err, "DecimalValue"
		}
		if d == nil {
			return nil, fmt.Errorf("DecimalValue returned nil for a non-null decimal"), "DecimalValue"
		}
		v.D = DecOf(d)
	case model.Timestamp:
		ts, err := r.TimestampValue()
		if err != nil {
			return nil, err, "TimestampValue"
		}
		if ts == nil {
			return nil, fmt.Errorf("TimestampValue returned nil for a non-null timestamp"), "TimestampValue"
		}
		mt, soft := TSOf(*ts)
		v.T = mt
		if soft != "" {
			o.Soft = append(o.Soft, soft)
		}
	case model.Symbol:
		st, err := r.SymbolValue()
		if err != nil {
			return nil, err, "SymbolValue"
		}
		if st == nil {
			return nil, fmt.Errorf("SymbolValue returned nil for a non-null symbol"), "SymbolValue"
		}
		v.Sy = symOf(st)
	case model.String:
		s, err := r.StringValue()
		if err != nil {
			return nil, err, "StringValue"
		}
		if s == nil {
			return nil, fmt.Errorf("StringValue returned nil for a non-null string"), "StringValue"
		}
		v.S = *s
	case model.Clob, model.Blob:
		bs, err := r.ByteValue()
		if err != nil {
			return nil, err, "ByteValue"
		}
		if bs == nil {
			return nil, fmt.Errorf("ByteValue returned nil for a non-null lob"), "ByteValue"
		}
		v.Bytes = append([]byte{}, bs...)
	case model.List, model.Sexp, model.Struct:
		if depth > maxDepth {
			return nil, fmt.Errorf("harness depth limit"), "depth"
		}
		if err := r.StepIn(); err != nil {
			return nil, err, "StepIn"
		}
		kids, err, where := observeSeq(r, o, k == model.Struct, depth+1)
		v.Kids = kids
		if err != nil {
			return v, err, where
		}
		o.Calls++
		if err := r.StepOut(); err != nil {
			return v, err, "StepOut"
		}
	}
	return v, nil, ""
}

// CheckIntAccessors cross-checks IntSize / IntValue / Int64Value against the exact value.
func CheckIntAccessors(r ion.Reader, n *big.Int) string {
	sz, err := r.IntSize()
	if err != nil {
		return fmt.Sprintf("IntSize error on int %v: %v", n, err)
	}
	fits32 := n.IsInt64() && n.Int64() >= math.MinInt32 && n.Int64() <= math.MaxInt32
	fits64 := n.IsInt64()
	switch sz {
	case ion.Int32:
		if !fits32 {
			return fmt.Sprintf("IntSize=Int32 for %v", n)
		}
	case ion.Int64:
		if !fits64 {
			return fmt.Sprintf("IntSize=Int64 for %v", n)
		}
	case ion.BigInt:
	default:
		return fmt.Sprintf("IntSize=%v for non-null int %v", sz, n)
	}
	i64, err := r.Int64Value()
	if fits64 {
		if err != nil || i64 == nil || *i64 != n.Int64() {
			return fmt.Sprintf("Int64Value on %v: %v, %v", n, fmtI64(i64), err)
		}
	} else if err == nil {
		return fmt.Sprintf("Int64Value on %v returned %v without error", n, fmtI64(i64))
	}
	i32, err := r.IntValue()
	if fits32 {
		if err != nil || i32 == nil || int64(*i32) != n.Int64() {
			return fmt.Sprintf("IntValue on %v: %v, %v", n, fmtI(i32), err)
		}
	} else if err == nil {
		return fmt.Sprintf("IntValue on %v returned %v without error", n, fmtI(i32))
	}
	return ""
}

func fmtI64(p *int64) string {
	if p == nil {
		return "nil"
	}
	return fmt.Sprint(*p)
}
func fmtI(p *int) string {
	if p == nil {
		return "nil"
	}
	return fmt.Sprint(*p)
}

// DecOf converts an ion.Decimal into the model through its public API only.
func DecOf(d *ion.Decimal) model.Dec {
	c, e := d.CoEx()
	out := model.Dec{Coef: new(big.Int).Set(c), Exp: e}
	// Negative zero is only observable through String() at the public API.
	if c.Sign() == 0 && strings.HasPrefix(d.String(), "-") {
		out.NegZero = true
	}
	return out
}

// ToDec converts a model decimal to an ion.Decimal.
func ToDec(d model.Dec) *ion.Decimal {
	c := d.Coef
	if c == nil {
		c = new(big.Int)
	}
	return ion.NewDecimal(new(big.Int).Set(c), d.Exp, d.NegZero)
}

// TSOf converts an ion.Timestamp into the model; soft is non-empty when the timestamp's
// components are mutually inconsistent.
func TSOf(ts ion.Timestamp) (model.TS, string) {
	dt := ts.GetDateTime()
	var t model.TS
	soft := ""
	y, m, d := dt.Date()
	t.Y, t.M, t.D = y, int(m), d
	t.H, t.Mi, t.S = dt.Clock()
	t.Nanos = dt.Nanosecond()
	_, off := dt.Zone()
	switch ts.GetPrecision() {
	case ion.TimestampPrecisionYear:
		t.Prec = model.PYear
	case ion.TimestampPrecisionMonth:
		t.Prec = model.PMonth
	case ion.TimestampPrecisionDay:
		t.Prec = model.PDay
	case ion.TimestampPrecisionMinute:
		t.Prec = model.PMinute
	case ion.TimestampPrecisionSecond:
		t.Prec = model.PSecond
	case ion.TimestampPrecisionNanosecond:
		t.Prec = model.PSecond
		t.FracDigits = int(ts.GetNumberOfFractionalSeconds())
	default:
		soft = fmt.Sprintf("timestamp with precision %v", ts.GetPrecision())
		t.Prec = 0
	}
	if t.Prec >= model.PMinute {
		if off%60 != 0 {
			soft = fmt.Sprintf("timestamp offset %d s is not whole minutes", off)
		}
		t.OffMin = off / 60
		switch ts.GetTimezoneKind() {
		case ion.TimezoneUnspecified:
			t.OffKnown = false
			if off != 0 {
				soft = fmt.Sprintf("unspecified-offset timestamp carries zone offset %d s", off)
			}
		case ion.TimezoneUTC:
			t.OffKnown = true
			if off != 0 {
				soft = fmt.Sprintf("UTC-kind timestamp carries zone offset %d s", off)
			}
		case ion.TimezoneLocal:
			t.OffKnown = true
		}
	}
	if t.Prec == model.PSecond {
		if t.FracDigits < 9 {
			p := pow10(9 - t.FracDigits)
			if t.Nanos%p != 0 {
				// keep the raw nanos: a comparison against the model will expose it
				soft = fmt.Sprintf("timestamp has %d fractional digits but nanos=%d", t.FracDigits, t.Nanos)
			}
		}
	}
	// the instant behind a timestamp is that of its fields with everything below the precision at
	// its minimum (2022T is 2022-01-01T00:00:00): GetDateTime() and Equal expose anything else
	if n := t.Normalize(); soft == "" && (n.M != t.M || n.D != t.D || n.H != t.H || n.Mi != t.Mi || n.S != t.S || (t.Prec < model.PSecond && t.Nanos != 0)) {
		soft = fmt.Sprintf("timestamp of precision %v has the date-time %s, which is not the start of that period", ts.GetPrecision(), dt.Format(time.RFC3339Nano))
	}
	return t.Normalize(), soft
}

func pow10(n int) int {
	p := 1
	for i := 0; i < n; i++ {
		p *= 10
	}
	return p
}

// ToTS builds an ion.Timestamp from the model (variant selects among equivalent constructors).
func ToTS(t model.TS, variant int) ion.Timestamp {
	loc := time.UTC
	kind := ion.TimezoneUnspecified
	if t.Prec >= model.PMinute && t.OffKnown {
		if t.OffMin == 0 {
			kind = ion.TimezoneUTC
			if variant%2 == 1 {
				loc = time.FixedZone("", 0)
			}
		} else {
			kind = ion.TimezoneLocal
			loc = time.FixedZone("", t.OffMin*60)
		}
	}
	m, d := t.M, t.D
	if t.Prec < model.PMonth {
		m = 1
	}
	if t.Prec < model.PDay {
		d = 1
	}
	dt := time.Date(t.Y, time.Month(m), d, t.H, t.Mi, t.S, t.Nanos, loc)
	if kind == ion.TimezoneLocal && variant%2 == 1 {
		dt = inRealZone(dt)
	}
	var prec ion.TimestampPrecision
	switch t.Prec {
	case model.PYear:
		prec = ion.TimestampPrecisionYear
	case model.PMonth:
		prec = ion.TimestampPrecisionMonth
	case model.PDay:
		prec = ion.TimestampPrecisionDay
	case model.PMinute:
		prec = ion.TimestampPrecisionMinute
	case model.PSecond:
		prec = ion.TimestampPrecisionSecond
		if t.FracDigits > 0 {
			prec = ion.TimestampPrecisionNanosecond
		}
	}
	if t.Prec <= model.PDay {
		if variant%2 == 0 {
			return ion.NewDateTimestamp(dt, prec)
		}
		return ion.NewTimestamp(dt, prec, ion.TimezoneUnspecified)
	}
	if t.Prec == model.PSecond && t.FracDigits == 9 && variant%3 == 1 {
		return ion.NewTimestamp(dt, prec, kind)
	}
	if t.FracDigits == 0 && variant%3 == 2 {
		return ion.NewTimestamp(dt, prec, kind)
	}
	return ion.NewTimestampWithFractionalSeconds(dt, prec, kind, uint8(t.FracDigits))
}

// ReadAll is Observe over bytes with the default reader.
func ReadAll(data []byte) Obs { return Observe(ion.NewReaderBytes(data)) }

// ReadAllCat is Observe over bytes with a catalog.
func ReadAllCat(data []byte, cat ion.Catalog) Obs {
	return Observe(ion.NewReaderCat(strings.NewReader(string(data)), cat))
}
