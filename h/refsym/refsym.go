// Package refsym is an independent model of the Ion symbol-ID space: system symbols, shared
// tables, catalogs, local symbol tables (replace / append), written from the Ion 1.0 symbol rules.
// It imports nothing from ion-go.
package refsym

import (
	"fmt"

	"verifh/model"
)

// Slot is one symbol ID: text known or not (gap, placeholder).
type Slot struct {
	Text  string
	Known bool
}

var SystemTexts = []string{"$ion", "$ion_1_0", "$ion_symbol_table", "name", "version", "imports", "symbols", "max_id", "$ion_shared_symbol_table"}

// Shared is a shared symbol table as held by a catalog.
type Shared struct {
	Name    string
	Version int
	Slots   []Slot
}

func NewShared(name string, version int, texts ...string) *Shared {
	s := &Shared{Name: name, Version: version}
	for _, t := range texts {
		s.Slots = append(s.Slots, Slot{t, true})
	}
	return s
}

// Catalog is a set of shared tables.
type Catalog []*Shared

func (c Catalog) FindExact(name string, version int) *Shared {
	for _, s := range c {
		if s.Name == name && s.Version == version {
			return s
		}
	}
	return nil
}

func (c Catalog) FindLatest(name string) *Shared {
	var best *Shared
	for _, s := range c {
		if s.Name == name && (best == nil || s.Version > best.Version) {
			best = s
		}
	}
	return best
}

// Segment is a run of N consecutive ids; Slots (possibly shorter than N) gives the known prefix,
// the rest has unknown text. Sparse so that placeholder imports with max_id 2^40 cost nothing.
type Segment struct {
	Slots []Slot
	N     uint64
	// description (imports only)
	Name    string
	Version int
	Found   bool
	Import  bool
}

// Context is the symbol table in force. Id 0 is $0; ids 1..9 are the system symbols.
type Context struct {
	Segs []Segment
}

func System() *Context {
	sys := Segment{N: 9}
	for _, t := range SystemTexts {
		sys.Slots = append(sys.Slots, Slot{t, true})
	}
	return &Context{Segs: []Segment{sys}}
}

func (c *Context) Clone() *Context {
	return &Context{Segs: append([]Segment(nil), c.Segs...)}
}

func (c *Context) MaxID() uint64 {
	var n uint64
	for _, s := range c.Segs {
		n += s.N
	}
	return n
}

// Imports lists the import segments (excluding the system table).
func (c *Context) Imports() []Segment {
	var out []Segment
	for _, s := range c.Segs {
		if s.Import {
			out = append(out, s)
		}
	}
	return out
}

// Lookup returns the slot for id and whether id is within the table.
func (c *Context) Lookup(id uint64) (Slot, bool) {
	if id == 0 {
		return Slot{}, true
	}
	off := uint64(0)
	for _, s := range c.Segs {
		if id <= off+s.N {
			i := id - off - 1
			if i < uint64(len(s.Slots)) {
				return s.Slots[i], true
			}
			return Slot{}, true
		}
		off += s.N
	}
	return Slot{}, false
}

// Sym resolves an id to a model symbol.
func (c *Context) Sym(id uint64) (model.Sym, error) {
	s, ok := c.Lookup(id)
	if !ok {
		return model.Sym{}, fmt.Errorf("symbol id %d beyond max id %d", id, c.MaxID())
	}
	if s.Known {
		return model.T(s.Text), nil
	}
	return model.SID(int64(id)), nil
}

// IDsFor returns every id carrying the text, ascending.
func (c *Context) IDsFor(text string) []uint64 {
	var out []uint64
	off := uint64(0)
	for _, s := range c.Segs {
		for i, sl := range s.Slots {
			if uint64(i) >= s.N {
				break
			}
			if sl.Known && sl.Text == text {
				out = append(out, off+uint64(i)+1)
			}
		}
		off += s.N
	}
	return out
}

// FindByName returns the lowest id carrying the text.
func (c *Context) FindByName(text string) (uint64, bool) {
	ids := c.IDsFor(text)
	if len(ids) == 0 {
		return 0, false
	}
	return ids[0], true
}

// Import is one import declaration of a local symbol table.
type Import struct {
	Name    string
	Version int   // < 1 is treated as 1
	MaxID   int64 // < 0: absent / unusable
}

// ResolveImport yields the segment an import occupies.
// skip=true: the import is ignored (no name, or named $ion). err: no usable max_id and no exact match.
func ResolveImport(cat Catalog, imp Import) (seg Segment, skip bool, err error) {
	if imp.Name == "" || imp.Name == "$ion" {
		return Segment{}, true, nil
	}
	v := imp.Version
	if v < 1 {
		v = 1
	}
	var tab *Shared
	if cat != nil {
		tab = cat.FindExact(imp.Name, v)
		if tab == nil {
			tab = cat.FindLatest(imp.Name)
		}
	}
	max := imp.MaxID
	if max < 0 {
		if tab == nil || tab.Version != v {
			return Segment{}, false, fmt.Errorf("import %s/%d has no usable max_id and no exact match", imp.Name, v)
		}
		max = int64(len(tab.Slots))
	}
	seg = Segment{N: uint64(max), Name: imp.Name, Version: v, Found: tab != nil, Import: true}
	if tab != nil {
		n := len(tab.Slots)
		if int64(n) > max {
			n = int(max)
		}
		seg.Slots = append([]Slot(nil), tab.Slots[:n]...)
	}
	return seg, false, nil
}

// LSTSpec is the content of a local symbol table struct.
type LSTSpec struct {
	Append  bool     // imports: $ion_symbol_table
	Imports []Import // when !Append
	Symbols []Slot   // gaps are Known=false
}

// Apply computes the context in force after the table.
func Apply(cur *Context, cat Catalog, spec LSTSpec) (*Context, error) {
	var n *Context
	if spec.Append {
		n = cur.Clone()
	} else {
		n = System()
		for _, imp := range spec.Imports {
			seg, skip, err := ResolveImport(cat, imp)
			if err != nil {
				return nil, err
			}
			if skip {
				continue
			}
			n.Segs = append(n.Segs, seg)
		}
	}
	if len(spec.Symbols) > 0 {
		n.Segs = append(n.Segs, Segment{Slots: append([]Slot(nil), spec.Symbols...), N: uint64(len(spec.Symbols))})
	}
	return n, nil
}

// ParseLST interprets a decoded struct value (annotated $ion_symbol_table) as a table spec.
// Fields of the wrong type are ignored. Duplicate imports/symbols fields are reported as an error
// (the specification leaves them undefined; callers exclude such inputs from strict oracles).
func ParseLST(v *model.Value) (LSTSpec, error) {
	var spec LSTSpec
	seenI, seenS := false, false
	for _, f := range v.Kids {
		if f.Field == nil || !f.Field.HasText {
			continue
		}
		switch f.Field.Text {
		case "imports":
			if seenI {
				return spec, fmt.Errorf("duplicate imports field")
			}
			seenI = true
			if f.Kind == model.Symbol && !f.IsNull && f.Sy.HasText && f.Sy.Text == "$ion_symbol_table" {
				spec.Append = true
			} else if f.Kind == model.List && !f.IsNull {
				for _, e := range f.Kids {
					if e.Kind != model.Struct || e.IsNull {
						continue
					}
					imp := Import{Version: -1, MaxID: -1}
					for _, g := range e.Kids {
						if g.Field == nil || !g.Field.HasText {
							continue
						}
						switch g.Field.Text {
						case "name":
							if g.Kind == model.String && !g.IsNull {
								imp.Name = g.S
							}
						case "version":
							if g.Kind == model.Int && !g.IsNull && g.I.IsInt64() {
								imp.Version = int(g.I.Int64())
							}
						case "max_id":
							if g.Kind == model.Int && !g.IsNull && g.I.IsInt64() {
								imp.MaxID = g.I.Int64()
							}
						}
					}
					spec.Imports = append(spec.Imports, imp)
				}
			}
		case "symbols":
			if seenS {
				return spec, fmt.Errorf("duplicate symbols field")
			}
			seenS = true
			if f.Kind == model.List && !f.IsNull {
				for _, e := range f.Kids {
					if e.Kind == model.String && !e.IsNull {
						spec.Symbols = append(spec.Symbols, Slot{e.S, true})
					} else {
						spec.Symbols = append(spec.Symbols, Slot{})
					}
				}
			}
		}
	}
	return spec, nil
}

// IsLST reports whether a top-level value is a local symbol table.
func IsLST(v *model.Value) bool {
	return v.Kind == model.Struct && len(v.Ann) > 0 && v.Ann[0].HasText && v.Ann[0].Text == "$ion_symbol_table"
}
