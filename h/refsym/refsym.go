// Package refsym is an independent model of the Ion symbol-ID space: system symbols, shared
// tables, catalogs, local symbol tables (replace / append), written from the Ion 1.0 symbol rules.
// It imports nothing from ion-go.
package refsym

import (
	"fmt"

	"verifh/model"
)

// Slot is one symbol ID: text known or not (gap, placeholder).
type Slot struct {
	Text  string
	Known bool
}

var SystemTexts = []string{"$ion", "$ion_1_0", "$ion_symbol_table", "name", "version", "imports", "symbols", "max_id", "$ion_shared_symbol_table"}

// Shared is a shared symbol table as held by a catalog.
type Shared struct {
	Name    string
	Version int
	Slots   []Slot
}

func NewShared(name string, version int, texts ...string) *Shared {
	s := &Shared{Name: name, Version: version}
	for _, t := range texts {
		s.Slots = append(s.Slots, Slot{t, true})
	}
	return s
}

// Catalog is a set of shared tables.
type Catalog []*Shared

func (c Catalog) FindExact(name string, version int) *Shared {
	for _, s := range c {
		if s.Name == name && s.Version == version {
			return s
		}
	}
	return nil
}

func (c Catalog) FindLatest(name string) *Shared {
	var best *Shared
	for _, s := range c {
		if s.Name == name && (best == nil || s.Version > best.Version) {
			best = s
		}
	}
	return best
}

// Context is the symbol table in force: Slots[0] is $0, Slots[1..9] the system symbols.
type Context struct {
	Slots []Slot
	// Imports describes the import segments (excluding the system table) for reporting.
	Imports []ImportSeg
	// NLocals is the number of trailing local symbols.
	NLocals int
}

type ImportSeg struct {
	Name    string
	Version int
	MaxID   int
	Found   bool
}

func System() *Context {
	c := &Context{Slots: make([]Slot, 1, 10)}
	for _, t := range SystemTexts {
		c.Slots = append(c.Slots, Slot{t, true})
	}
	return c
}

func (c *Context) Clone() *Context {
	n := &Context{Slots: append([]Slot(nil), c.Slots...), Imports: append([]ImportSeg(nil), c.Imports...), NLocals: c.NLocals}
	return n
}

func (c *Context) MaxID() uint64 { return uint64(len(c.Slots) - 1) }

// Lookup returns the slot for id and whether id is within the table.
func (c *Context) Lookup(id uint64) (Slot, bool) {
	if id >= uint64(len(c.Slots)) {
		return Slot{}, false
	}
	return c.Slots[id], true
}

// Sym resolves an id to a model symbol.
func (c *Context) Sym(id uint64) (model.Sym, error) {
	s, ok := c.Lookup(id)
	if !ok {
		return model.Sym{}, fmt.Errorf("symbol id %d beyond max id %d", id, c.MaxID())
	}
	if s.Known {
		return model.T(s.Text), nil
	}
	return model.SID(int64(id)), nil
}

// FindByName returns the lowest id carrying the text.
func (c *Context) FindByName(text string) (uint64, bool) {
	for i := 1; i < len(c.Slots); i++ {
		if c.Slots[i].Known && c.Slots[i].Text == text {
			return uint64(i), true
		}
	}
	return 0, false
}

// IDsFor returns every id carrying the text.
func (c *Context) IDsFor(text string) []uint64 {
	var out []uint64
	for i := 1; i < len(c.Slots); i++ {
		if c.Slots[i].Known && c.Slots[i].Text == text {
			out = append(out, uint64(i))
		}
	}
	return out
}

// Import is one import declaration of a local symbol table.
type Import struct {
	Name     string
	Version  int   // < 1 is treated as 1
	MaxID    int64 // < 0: absent / unusable
}

// ResolveImport yields the slots an import occupies.
// ok=false: the import is an error (no usable max_id and no exact match).
// skip=true: the import is ignored (no name, or named $ion).
func ResolveImport(cat Catalog, imp Import) (slots []Slot, seg ImportSeg, skip bool, err error) {
	if imp.Name == "" || imp.Name == "$ion" {
		return nil, ImportSeg{}, true, nil
	}
	v := imp.Version
	if v < 1 {
		v = 1
	}
	var tab *Shared
	if cat != nil {
		tab = cat.FindExact(imp.Name, v)
		if tab == nil {
			tab = cat.FindLatest(imp.Name)
		}
	}
	max := imp.MaxID
	if max < 0 {
		if tab == nil || tab.Version != v {
			return nil, ImportSeg{}, false, fmt.Errorf("import %s/%d has no usable max_id and no exact match", imp.Name, v)
		}
		max = int64(len(tab.Slots))
	}
	slots = make([]Slot, max)
	if tab != nil {
		for i := 0; i < int(max) && i < len(tab.Slots); i++ {
			slots[i] = tab.Slots[i]
		}
	}
	return slots, ImportSeg{Name: imp.Name, Version: v, MaxID: int(max), Found: tab != nil}, false, nil
}

// LSTSpec is the content of a local symbol table struct.
type LSTSpec struct {
	Append  bool     // imports: $ion_symbol_table
	Imports []Import // when !Append
	Symbols []Slot   // gaps are Known=false
}

// Apply computes the context in force after the table.
func Apply(cur *Context, cat Catalog, spec LSTSpec) (*Context, error) {
	var n *Context
	if spec.Append {
		n = cur.Clone()
	} else {
		n = System()
		for _, imp := range spec.Imports {
			slots, seg, skip, err := ResolveImport(cat, imp)
			if err != nil {
				return nil, err
			}
			if skip {
				continue
			}
			n.Slots = append(n.Slots, slots...)
			n.Imports = append(n.Imports, seg)
		}
		n.NLocals = 0
	}
	n.Slots = append(n.Slots, spec.Symbols...)
	n.NLocals += len(spec.Symbols)
	return n, nil
}

// ParseLST interprets a decoded struct value (annotated $ion_symbol_table) as a table spec.
// Fields of the wrong type are ignored. Duplicate imports/symbols fields are reported as an error
// (the specification leaves them undefined; callers exclude such inputs from strict oracles).
func ParseLST(v *model.Value) (LSTSpec, error) {
	var spec LSTSpec
	seenI, seenS := false, false
	for _, f := range v.Kids {
		if f.Field == nil || !f.Field.HasText {
			continue
		}
		switch f.Field.Text {
		case "imports":
			if seenI {
				return spec, fmt.Errorf("duplicate imports field")
			}
			seenI = true
			if f.Kind == model.Symbol && !f.IsNull && f.Sy.HasText && f.Sy.Text == "$ion_symbol_table" {
				spec.Append = true
			} else if f.Kind == model.List && !f.IsNull {
				for _, e := range f.Kids {
					if e.Kind != model.Struct || e.IsNull {
						continue
					}
					imp := Import{Version: -1, MaxID: -1}
					for _, g := range e.Kids {
						if g.Field == nil || !g.Field.HasText {
							continue
						}
						switch g.Field.Text {
						case "name":
							if g.Kind == model.String && !g.IsNull {
								imp.Name = g.S
							}
						case "version":
							if g.Kind == model.Int && !g.IsNull && g.I.IsInt64() {
								imp.Version = int(g.I.Int64())
							}
						case "max_id":
							if g.Kind == model.Int && !g.IsNull && g.I.IsInt64() {
								imp.MaxID = g.I.Int64()
							}
						}
					}
					spec.Imports = append(spec.Imports, imp)
				}
			}
		case "symbols":
			if seenS {
				return spec, fmt.Errorf("duplicate symbols field")
			}
			seenS = true
			if f.Kind == model.List && !f.IsNull {
				for _, e := range f.Kids {
					if e.Kind == model.String && !e.IsNull {
						spec.Symbols = append(spec.Symbols, Slot{e.S, true})
					} else {
						spec.Symbols = append(spec.Symbols, Slot{})
					}
				}
			}
		}
	}
	return spec, nil
}

// IsLST reports whether a top-level value is a local symbol table.
func IsLST(v *model.Value) bool {
	return v.Kind == model.Struct && len(v.Ann) > 0 && v.Ann[0].HasText && v.Ann[0].Text == "$ion_symbol_table"
}
