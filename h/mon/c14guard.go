package mon

import (
	"fmt"
	"sync/atomic"
	"time"
)

var decHung int32

// decCheckGuarded is decCheck for operands of a few dozen digits at the edges of the exponent range,
// where a wrapped-around exponent difference makes the library compute an astronomically large power
// of ten. Such an operation takes microseconds when it is right; one that has not returned after two
// minutes is reported as not returning (the goroutine cannot be stopped, so after the first such case
// the remaining guarded cases are skipped and counted).
func decCheckGuarded(c *Ctx, k DecCase) {
	if atomic.LoadInt32(&decHung) != 0 {
		c.Obs("guarded_cases_skipped_after_a_hang", 1)
		return
	}
	done := make(chan string, 1)
	go func() { done <- runDecCase(k) }()
	select {
	case v := <-done:
		c.Eval(1)
		c.NonTrivial(fmt.Sprintf("%s|%v|%v|%d|%s", k.Op, k.A, k.B, k.Arg, k.Note))
		if v != "" && (len(v) < 9 || v[:9] != "harness: ") {
			c.Violate("decimal-"+k.Op, k.Op+":"+Class(v), fmt.Sprintf("%s a=%v b=%v arg=%d %s :: %s", k.Op, k.A, k.B, k.Arg, k.Note, v), k, nil)
		}
	case <-time.After(2 * time.Minute):
		atomic.StoreInt32(&decHung, 1)
		c.Eval(1)
		c.Violate("decimal-"+k.Op, k.Op+":no result", fmt.Sprintf("%s a=%v b=%v arg=%d :: the call did not return within 2 minutes (operands of at most 38 digits, exponents at most 45 apart)", k.Op, k.A, k.B, k.Arg), k, nil)
	}
}
