//go:build !race

package mon

// RaceBuilt reports whether the binary was built with the Go race detector.
const RaceBuilt = false
