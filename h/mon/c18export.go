package mon

// CollectRaces exposes the race-log parser to the supervisor: when the checking process dies (a data
// race can corrupt memory and crash the runtime itself), the reports the detector had already written
// still decide the property.
func CollectRaces(prefix string) (total int, ionRaces map[string]string) { return collectRaces(prefix) }
