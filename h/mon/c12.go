package mon

import (
	"bytes"
	"encoding/json"
	"errors"
	"fmt"
	"math/big"
	"math/rand"
	"strings"

	"github.com/amzn/ion-go/ion"

	"verifh/ionx"
	"verifh/model"
	"verifh/refbin"
	"verifh/reftext"
)

// SeqCase is a replayable Writer call sequence.
type SeqCase struct {
	Config int   `json:"config"` // 0 text, 1 pretty, 2 binary growing table, 3 binary fixed table
	Calls  []int `json:"calls"`
}

var seqConfigNames = []string{"text", "pretty", "binary", "binary-fixed-lst", "text-quiet-finish", "pretty-quiet-finish", "text-shared-import", "binary-shared-import"}

const nSeqConfigs = 8

func cfgBinary(cfg int) bool { return cfg == 2 || cfg == 3 || cfg == 7 }

// seqShared: configurations 6 and 7 construct the writer with this shared table (it holds some of the
// texts the calls use, so ids come from the import as well as from the local table).
var seqShared = []SymImport{{Name: "seq_shared", Version: 1, Symbols: []string{"a", "f", "unused"}}}

func seqSharedTable() ion.SharedSymbolTable {
	return ion.NewSharedSymbolTable(seqShared[0].Name, seqShared[0].Version, seqShared[0].Symbols)
}

type wcall struct {
	name string
	do   func(w ion.Writer) error
	kind int // 0 value, 1 begin, 2 end, 3 fieldname, 4 annotation, 5 finish
	arg  interface{}
}

// bufCalls are used instead of do for the calls named: the call takes its argument out of a buffer
// that belongs to the run (adjacent sub-slices with spare capacity, the way a caller chunks a larger buffer).
var bufCalls = map[string]func(w ion.Writer, buf []byte) error{
	"WriteBlob(buf[0:100])":   func(w ion.Writer, b []byte) error { return w.WriteBlob(b[0:100]) },
	"WriteBlob(buf[100:200])": func(w ion.Writer, b []byte) error { return w.WriteBlob(b[100:200]) },
	"WriteClob(buf[200:300])": func(w ion.Writer, b []byte) error { return w.WriteClob(b[200:300]) },
}

// seqLongCtl is text with n plain bytes in front of characters that need long escapes.
func seqLongCtl(n int) string {
	return strings.Repeat("a", n) + "\x01\x02zz \x1f end"
}

// seqLobPattern is the content of that buffer.
func seqLobPattern() []byte {
	b := make([]byte, 400)
	for i := range b {
		b[i] = byte(i*7 + 1)
	}
	return b
}

const (
	ckValue = iota
	ckBegin
	ckEnd
	ckField
	ckAnnot
	ckFinish
)

func tokT(s string) ion.SymbolToken { return ion.NewSymbolTokenFromString(s) }

var fixedTexts = []string{"f", "g", "a", "b", "s", "t"}

var writerCalls = []wcall{
	{"BeginList", func(w ion.Writer) error { return w.BeginList() }, ckBegin, model.List},
	{"EndList", func(w ion.Writer) error { return w.EndList() }, ckEnd, model.List},
	{"BeginStruct", func(w ion.Writer) error { return w.BeginStruct() }, ckBegin, model.Struct},
	{"EndStruct", func(w ion.Writer) error { return w.EndStruct() }, ckEnd, model.Struct},
	{"FieldName(f)", func(w ion.Writer) error { return w.FieldName(tokT("f")) }, ckField, "f"},
	{"Annotation(a)", func(w ion.Writer) error { return w.Annotation(tokT("a")) }, ckAnnot, []string{"a"}},
	{"WriteInt(1)", func(w ion.Writer) error { return w.WriteInt(1) }, ckValue, model.Int64V(1)},
	{"WriteNull", func(w ion.Writer) error { return w.WriteNull() }, ckValue, model.NullV(model.Null)},
	{"WriteSymbol(s)", func(w ion.Writer) error { return w.WriteSymbol(tokT("s")) }, ckValue, model.SymV(model.T("s"))},
	{"WriteString(x)", func(w ion.Writer) error { return w.WriteString("x") }, ckValue, model.StrV("x")},
	{"Finish", func(w ion.Writer) error { return w.Finish() }, ckFinish, nil},
	{"WriteSymbol(invalid token)", func(w ion.Writer) error { return w.WriteSymbol(ion.SymbolToken{LocalSID: ion.SymbolIDUnknown}) }, ckValue, "invalid"},
	// ---- the rest of the interface (random sequences only) ----
	{"BeginSexp", func(w ion.Writer) error { return w.BeginSexp() }, ckBegin, model.Sexp},
	{"EndSexp", func(w ion.Writer) error { return w.EndSexp() }, ckEnd, model.Sexp},
	{"FieldName(g)", func(w ion.Writer) error { return w.FieldName(tokT("g")) }, ckField, "g"},
	{"Annotations(a,b)", func(w ion.Writer) error { return w.Annotations(tokT("a"), tokT("b")) }, ckAnnot, []string{"a", "b"}},
	{"WriteNullType(struct)", func(w ion.Writer) error { return w.WriteNullType(ion.StructType) }, ckValue, model.NullV(model.Struct)},
	{"WriteBool(true)", func(w ion.Writer) error { return w.WriteBool(true) }, ckValue, model.BoolV(true)},
	{"WriteUint(2^64-1)", func(w ion.Writer) error { return w.WriteUint(1<<64 - 1) }, ckValue, model.IntV(new(big.Int).SetUint64(1<<64 - 1))},
	{"WriteBigInt(-2^70)", func(w ion.Writer) error { return w.WriteBigInt(new(big.Int).Neg(new(big.Int).Lsh(big.NewInt(1), 70))) }, ckValue, model.IntV(new(big.Int).Neg(new(big.Int).Lsh(big.NewInt(1), 70)))},
	{"WriteFloat(1.5)", func(w ion.Writer) error { return w.WriteFloat(1.5) }, ckValue, model.FloatV(1.5)},
	{"WriteDecimal(-0d2)", func(w ion.Writer) error { return w.WriteDecimal(ion.NewDecimal(new(big.Int), 2, true)) }, ckValue, model.DecV(model.Dec{Coef: new(big.Int), Exp: 2, NegZero: true})},
	{"WriteTimestamp(2000-01-02T03:04:05.600-07:00)", func(w ion.Writer) error {
		return w.WriteTimestamp(ionx.ToTS(model.TS{Y: 2000, M: 1, D: 2, H: 3, Mi: 4, S: 5, Nanos: 600000000, FracDigits: 3, Prec: model.PSecond, OffKnown: true, OffMin: -420}, 0))
	}, ckValue, model.TSV(model.TS{Y: 2000, M: 1, D: 2, H: 3, Mi: 4, S: 5, Nanos: 600000000, FracDigits: 3, Prec: model.PSecond, OffKnown: true, OffMin: -420})},
	{"WriteSymbol($4)", func(w ion.Writer) error { return w.WriteSymbol(ion.SymbolToken{LocalSID: 4}) }, ckValue, model.SymV(model.T("name"))},
	{"WriteSymbolFromString(t)", func(w ion.Writer) error { return w.WriteSymbolFromString("t") }, ckValue, model.SymV(model.T("t"))},
	{"WriteSymbolFromString(zzz)", func(w ion.Writer) error { return w.WriteSymbolFromString("zzz") }, ckValue, model.SymV(model.T("zzz"))},
	{"WriteSymbol(zzz)", func(w ion.Writer) error { return w.WriteSymbol(tokT("zzz")) }, ckValue, model.SymV(model.T("zzz"))},
	{"FieldName(invalid token)", func(w ion.Writer) error { return w.FieldName(ion.SymbolToken{LocalSID: ion.SymbolIDUnknown}) }, ckField, "!invalid"},
	{"Annotation(invalid token)", func(w ion.Writer) error { return w.Annotation(ion.SymbolToken{LocalSID: ion.SymbolIDUnknown}) }, ckAnnot, []string{"!invalid"}},
	{"WriteClob", func(w ion.Writer) error { return w.WriteClob([]byte("c\"}\x00")) }, ckValue, model.ClobV([]byte("c\"}\x00"))},
	{"WriteBlob", func(w ion.Writer) error { return w.WriteBlob([]byte{0, 1, 2, 255}) }, ckValue, model.BlobV([]byte{0, 1, 2, 255})},
	{"WriteString(62 plain bytes, then control characters)", func(w ion.Writer) error { return w.WriteString(seqLongCtl(62)) }, ckValue, model.StrV(seqLongCtl(62))},
	{"WriteSymbol(61 plain bytes, then control characters)", func(w ion.Writer) error { return w.WriteSymbol(tokT(seqLongCtl(61))) }, ckValue, model.SymV(model.T(seqLongCtl(61)))},
	{"WriteString(125 plain bytes, then control characters)", func(w ion.Writer) error { return w.WriteString(seqLongCtl(125)) }, ckValue, model.StrV(seqLongCtl(125))},
	{"WriteBlob(buf[0:100])", nil, ckValue, model.BlobV(seqLobPattern()[0:100])},
	{"WriteBlob(buf[100:200])", nil, ckValue, model.BlobV(seqLobPattern()[100:200])},
	{"WriteClob(buf[200:300])", nil, ckValue, model.ClobV(seqLobPattern()[200:300])},
	// the slice given to Annotations stays the caller's: it is recycled as soon as the call returned ...
	{"Annotations(own[0:2]), slice recycled by the caller", func(w ion.Writer) error {
		own := []ion.SymbolToken{tokT("a"), tokT("b"), tokT("s")}
		err := w.Annotations(own[:2]...)
		own[0], own[1], own[2] = tokT("t"), tokT("t"), tokT("t")
		return err
	}, ckAnnot, []string{"a", "b"}},
	// ... and its spare capacity holds tokens of the caller that a following Annotation must not overwrite
	{"Annotations(own[0:1]) + Annotation(b), spare capacity is the caller's", func(w ion.Writer) error {
		own := []ion.SymbolToken{tokT("a"), tokT("g"), tokT("g")}
		if err := w.Annotations(own[:1]...); err != nil {
			return err
		}
		err := w.Annotation(tokT("b"))
		if own[1].Text == nil || *own[1].Text != "g" {
			return errors.New("harness: the Writer wrote into the caller's slice behind the token it was given")
		}
		return err
	}, ckAnnot, []string{"a", "b"}},
}

const reducedAlphabet = 12

func newSeqWriter(config int, out *bytes.Buffer) ion.Writer {
	switch config {
	case 0:
		return ion.NewTextWriter(out)
	case 1:
		return ion.NewTextWriterOpts(out, ion.TextWriterPretty)
	case 2:
		return ion.NewBinaryWriter(out)
	case 4:
		return ion.NewTextWriterOpts(out, ion.TextWriterQuietFinish)
	case 5:
		return ion.NewTextWriterOpts(out, ion.TextWriterPretty|ion.TextWriterQuietFinish)
	case 6:
		return ion.NewTextWriter(out, seqSharedTable())
	case 7:
		return ion.NewBinaryWriter(out, seqSharedTable())
	case 3:
		return ion.NewBinaryWriterLST(out, ion.NewLocalSymbolTable(nil, fixedTexts))
	default:
		return ion.NewBinaryWriterLST(out, ion.NewLocalSymbolTable(nil, fixedTexts))
	}
}

// shadow is the reference protocol automaton.
type shadow struct {
	stack     []*model.Value // open containers
	field     *string
	anns      []string
	batch     []*model.Value // completed top-level values of the current batch
	all       []*model.Value // values of finished batches
	firstErr  bool
	ambiguous bool // a successful End*/Finish dropped (or kept) pending field name / annotations
	nested    bool
	misuse    bool
}

func (s *shadow) inStruct() bool {
	return len(s.stack) > 0 && s.stack[len(s.stack)-1].Kind == model.Struct
}

// legal reports whether the call is legal in the current state (config 3: texts must be in the table).
func (s *shadow) legal(c wcall, config int) bool {
	switch c.kind {
	case ckField:
		return s.inStruct()
	case ckAnnot:
		return true
	case ckValue, ckBegin:
		if s.inStruct() && s.field == nil {
			return false
		}
		// a pending token with neither text nor id cannot be written
		if s.inStruct() && s.field != nil && *s.field == "!invalid" {
			return false
		}
		for _, a := range s.anns {
			if a == "!invalid" {
				return false
			}
		}
		if str, ok := c.arg.(string); ok && str == "invalid" {
			return false
		}
		if config == 3 {
			if v, ok := c.arg.(*model.Value); ok && v.Kind == model.Symbol && !v.IsNull && v.Sy.HasText && v.Sy.Text == "zzz" {
				return false
			}
		}
		return true
	case ckEnd:
		return len(s.stack) > 0 && s.stack[len(s.stack)-1].Kind == c.arg.(model.Kind)
	case ckFinish:
		return len(s.stack) == 0
	}
	return false
}

func (s *shadow) place(v *model.Value) {
	for _, a := range s.anns {
		v.Ann = append(v.Ann, model.T(a))
	}
	if s.inStruct() && s.field != nil {
		f := model.T(*s.field)
		v.Field = &f
	}
	s.anns, s.field = nil, nil
	if len(s.stack) > 0 {
		top := s.stack[len(s.stack)-1]
		top.Kids = append(top.Kids, v)
	} else {
		s.batch = append(s.batch, v)
	}
}

// apply advances the automaton for a call that returned nil.
func (s *shadow) apply(c wcall) {
	switch c.kind {
	case ckField:
		f := c.arg.(string)
		s.field = &f
	case ckAnnot:
		s.anns = append(s.anns, c.arg.([]string)...)
	case ckValue:
		s.place(c.arg.(*model.Value).Clone())
	case ckBegin:
		v := &model.Value{Kind: c.arg.(model.Kind)}
		s.place(v)
		s.stack = append(s.stack, v)
		s.nested = true
	case ckEnd:
		if s.field != nil || len(s.anns) > 0 {
			s.ambiguous = true
		}
		s.field, s.anns = nil, nil
		s.stack = s.stack[:len(s.stack)-1]
	case ckFinish:
		if s.field != nil || len(s.anns) > 0 {
			s.ambiguous = true
		}
		s.field, s.anns = nil, nil
		s.all = append(s.all, s.batch...)
		s.batch = nil
	}
}

type seqOutcome struct {
	verdict   string
	out       []byte
	rets      []bool
	nontriv   bool
	ambiguous bool
	rejected  int // legal calls the writer rejected
}

// runSeq executes the sequence once (plus a final Finish) against the shadow automaton.
func runSeq(k SeqCase) (o seqOutcome) {
	var buf bytes.Buffer
	w := newSeqWriter(k.Config, &buf)
	sh := &shadow{}
	calls := append(append([]int{}, k.Calls...), 10) // final Finish
	lobBuf := seqLobPattern()
	for i, ci := range calls {
		c := writerCalls[ci]
		var err error
		pan := ""
		func() {
			defer func() {
				if rec := recover(); rec != nil {
					pan = ionx.PanicSite(rec)
				}
			}()
			if f, ok := bufCalls[c.name]; ok {
				err = f(w, lobBuf)
			} else {
				err = c.do(w)
			}
		}()
		if pan != "" {
			o.verdict = fmt.Sprintf("call %d %s panicked: %s", i, c.name, pan)
			return
		}
		o.rets = append(o.rets, err == nil)
		legal := sh.legal(c, k.Config)
		if !legal {
			sh.misuse = true
		}
		if sh.firstErr {
			if err == nil {
				o.verdict = fmt.Sprintf("call %d %s returned nil although an earlier call had returned an error", i, c.name)
				return
			}
			continue
		}
		if err != nil {
			if c.kind != ckFinish {
				sh.firstErr = true
			}
			if legal {
				o.rejected++
			}
			continue
		}
		if !legal {
			o.verdict = fmt.Sprintf("call %d %s returned nil although it cannot be part of a valid stream here (depth %d, in struct %v, pending field %v)", i, c.name, len(sh.stack), sh.inStruct(), sh.field != nil)
			return
		}
		sh.apply(c)
	}
	o.out = buf.Bytes()
	o.ambiguous = sh.ambiguous
	o.nontriv = len(k.Calls) >= 3 && (sh.misuse || sh.nested || len(sh.all) > 0 && containsFinish(k.Calls))
	finalOK := o.rets[len(o.rets)-1]
	if !finalOK {
		return
	}
	// the final Finish returned nil: the output must be a valid stream of exactly the successful values
	var got []*model.Value
	var err error
	if cfgBinary(k.Config) {
		if len(o.out) == 0 && len(sh.all) == 0 {
			return
		}
		var dopts *refbin.DecodeOpts
		if k.Config == 7 {
			rc, _ := catalogOf(seqShared)
			dopts = &refbin.DecodeOpts{Catalog: rc}
		}
		got, err = refbin.Decode(o.out, dopts)
	} else {
		var popts *reftext.ParseOpts
		if k.Config == 6 {
			rc, _ := catalogOf(seqShared)
			popts = &reftext.ParseOpts{Catalog: rc}
		}
		got, err = reftext.Parse(string(o.out), popts)
	}
	if err != nil {
		o.verdict = "final Finish returned nil but the output is not valid Ion: " + err.Error()
		return
	}
	if sh.ambiguous {
		return
	}
	if d := model.Diff(sh.all, got); d != "" {
		o.verdict = "final Finish returned nil but the output's values differ from the successful calls: " + d
	}
	return
}

func containsFinish(calls []int) bool {
	for _, c := range calls[:len(calls)-0] {
		if c == 10 {
			return true
		}
	}
	return false
}

func seqNames(calls []int) string {
	var ns []string
	for _, c := range calls {
		ns = append(ns, writerCalls[c].name)
	}
	return strings.Join(ns, " ; ")
}

func seqCheck(c *Ctx, k SeqCase) {
	c.Eval(2)
	o1 := runSeq(k)
	o2 := runSeq(k)
	verdict := o1.verdict
	if verdict == "" {
		if !bytes.Equal(o1.out, o2.out) {
			verdict = "the same call sequence produced different bytes on a second run"
		} else if fmt.Sprint(o1.rets) != fmt.Sprint(o2.rets) {
			verdict = "the same call sequence returned different results on a second run"
		}
	}
	if o1.nontriv {
		c.NonTrivial(fmt.Sprintf("%d|%v", k.Config, k.Calls))
	}
	if o1.rejected > 0 {
		c.Obs("legal_calls_rejected", int64(o1.rejected))
	}
	if o1.ambiguous {
		c.Obs("sequences_with_pending_items_dropped_at_End_or_Finish_(values_not_compared)", 1)
	}
	if verdict == "" {
		return
	}
	cls := verdict
	if strings.Contains(cls, "returned nil although an earlier call") {
		cls = "a call returned nil after an earlier call had returned an error"
	} else if i := strings.Index(cls, " returned nil"); i > 0 && strings.HasPrefix(cls, "call ") {
		// keep the call name, drop the index
		cls = cls[strings.Index(cls, " ")+1:]
		cls = cls[strings.Index(cls, " ")+1:]
	}
	if j := strings.Index(cls, "(depth"); j > 0 {
		cls = cls[:j]
	}
	c.Violate("call-sequence", seqConfigNames[k.Config]+":"+Class(cls), fmt.Sprintf("config=%s calls=[%s ; Finish] output=%s :: %s", seqConfigNames[k.Config], seqNames(k.Calls), showInput(cfgBinary(k.Config), o1.out), verdict), k, nil)
}

func runC12(c *Ctx) {
	maxLen := c.N(4, 6)
	// exhaustive over the reduced alphabet
	var total int
	for L := 1; L <= maxLen; L++ {
		n := 1
		for i := 0; i < L; i++ {
			n *= reducedAlphabet
		}
		total += n
	}
	c.Parallel(total, func(w, idx int) {
		// decode idx into (length, digits)
		L, n := 1, reducedAlphabet
		for idx >= n {
			idx -= n
			L++
			n *= reducedAlphabet
		}
		calls := make([]int, L)
		for i := L - 1; i >= 0; i-- {
			calls[i] = idx % reducedAlphabet
			idx /= reducedAlphabet
		}
		for cfg := 0; cfg < nSeqConfigs; cfg++ {
			seqCheck(c, SeqCase{Config: cfg, Calls: calls})
		}
	})
	c.Obs("exhaustive_sequences", int64(total))
	c.Exhaustive(fmt.Sprintf("every call sequence of length <= %d over the reduced 12-call alphabet {BeginList, EndList, BeginStruct, EndStruct, FieldName, Annotation, WriteInt, WriteNull, WriteSymbol, WriteString, Finish, WriteSymbol(invalid token)} x 8 writer configurations (%d sequences), each followed by a final Finish and run twice", maxLen, total))
	// random sequences over the full interface, biased towards legal continuations
	nr := c.N(20000, 300000)
	c.Parallel(nr, func(w, i int) {
		r := rand.New(rand.NewSource(c.Seed*12_000_017 + int64(i)))
		cfg := i % nSeqConfigs
		n := 3 + r.Intn(58)
		sh := &shadow{}
		var calls []int
		for len(calls) < n {
			ci := r.Intn(len(writerCalls))
			if r.Intn(5) != 0 {
				// look for a legal call
				for try := 0; try < 8 && !sh.legal(writerCalls[ci], cfg); try++ {
					ci = r.Intn(len(writerCalls))
				}
			}
			calls = append(calls, ci)
			if sh.legal(writerCalls[ci], cfg) {
				sh.apply(writerCalls[ci])
			}
		}
		seqCheck(c, SeqCase{Config: cfg, Calls: calls})
		if i < 3 {
			c.Sample(map[string]interface{}{"config": seqConfigNames[cfg], "calls": seqNames(calls)})
		}
	})
	// deep nesting: d containers opened, values at the bottom and on the way up, all closed
	const (
		iBeginList, iEndList, iBeginStruct, iEndStruct, iField, iAnnot, iInt, iString = 0, 1, 2, 3, 4, 5, 6, 9
		iBeginSexp, iEndSexp                                                          = 12, 13
	)
	depths := []int{}
	for d := 1; d <= 40; d++ {
		depths = append(depths, d)
	}
	depths = append(depths, 63, 64, 65, 100, 127, 128, 129, 300)
	if c.Thorough() {
		depths = append(depths, 1000, 5000)
	}
	type deepJob struct{ d, shape int }
	var jobs []deepJob
	for _, d := range depths {
		for shape := 0; shape < 6; shape++ {
			jobs = append(jobs, deepJob{d, shape})
		}
	}
	c.Parallel(len(jobs), func(w, ji int) {
		d, shape := jobs[ji].d, jobs[ji].shape
		var calls []int
		var kinds []int // 0 list 1 struct 2 sexp
		inStruct := false
		for lvl := 0; lvl < d; lvl++ {
			kind := shape
			if shape >= 3 {
				kind = (lvl + shape) % 3
			}
			if inStruct {
				calls = append(calls, iField)
			}
			if shape == 5 && lvl%2 == 0 {
				calls = append(calls, iAnnot)
			}
			calls = append(calls, []int{iBeginList, iBeginStruct, iBeginSexp}[kind])
			kinds = append(kinds, kind)
			inStruct = kind == 1
		}
		for lvl := d - 1; lvl >= 0; lvl-- {
			if kinds[lvl] == 1 {
				calls = append(calls, iField)
			}
			calls = append(calls, []int{iInt, iString}[lvl%2])
			calls = append(calls, []int{iEndList, iEndStruct, iEndSexp}[kinds[lvl]])
		}
		calls = append(calls, iInt)
		for cfg := 0; cfg < nSeqConfigs; cfg++ {
			seqCheck(c, SeqCase{Config: cfg, Calls: calls})
		}
		c.Obs("deep_nesting_sequences", 4)
	})
	c.Exhaustive(fmt.Sprintf("nesting depths %v x 6 container shapes (lists, structs, sexps, three mixtures, one with annotations) x 4 writer configurations", depths))
}

func init() {
	Register(&Monitor{ID: "C12", Run: func(c *Ctx) {
		c.Rule = "Writer call sequences (exhaustive up to a bounded length over a reduced alphabet, random to length 60 over the full interface, biased towards legal continuations; nesting 1..40, 63..65, 100, 127..129, 300 (thorough: 1000, 5000) containers deep in 6 shapes) x {text, pretty, binary with growing table, binary with fixed table, text and pretty with quiet Finish, text and binary constructed with a shared table}; arguments that stay the caller's (lob sub-slices of one buffer, an annotation slice recycled or with spare capacity holding other tokens); a shadow protocol automaton driven by the actual return values decides which calls can be part of a valid stream; oracles: no panic, after the first error of a non-Finish call every later call errs, a nil final Finish implies output that the independent decoder accepts and whose values equal the successful calls batch by batch, two runs give identical bytes and results. Non-trivial: >= 3 calls with a misuse, an intermediate Finish or a nested container; distinct by (configuration, sequence)."
		c.Assume("pending annotations / field name at a successful End*/Finish may be dropped or kept (such sequences are checked for validity and stickiness only)")
		runC12(c)
	}, Replay: func(c *Ctx, v *Violation) string {
		var k SeqCase
		if err := json.Unmarshal(v.Case, &k); err != nil {
			return "cannot decode case: " + err.Error()
		}
		o := runSeq(k)
		if o.verdict != "" {
			return "VIOLATED on replay: " + o.verdict
		}
		return "HELD on replay"
	}})
}
