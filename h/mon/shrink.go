package mon

import (
	"fmt"
	"strings"

	"verifh/gen"
	"verifh/model"
)

// ShrinkVals greedily reduces a failing value stream while fails() keeps returning true.
func ShrinkVals(vals []*model.Value, fails func([]*model.Value) bool) []*model.Value {
	budget := 400
	try := func(cand []*model.Value) bool {
		if budget <= 0 {
			return false
		}
		budget--
		for _, v := range cand {
			if !gen.TopLevelOK(v) {
				return false
			}
		}
		defer func() { recover() }()
		return fails(cand)
	}
	cur := model.CloneAll(vals)
	// 1. single top-level value
	if len(cur) > 1 {
		for i := range cur {
			if try([]*model.Value{cur[i]}) {
				cur = []*model.Value{cur[i]}
				break
			}
		}
	}
	// drop top-level values one at a time
	for i := 0; i < len(cur) && len(cur) > 1; {
		cand := append(append([]*model.Value{}, cur[:i]...), cur[i+1:]...)
		if try(cand) {
			cur = cand
		} else {
			i++
		}
	}
	// 2. structural shrinking of each remaining value
	progress := true
	for progress && budget > 0 {
		progress = false
		for i := range cur {
			v := cur[i]
			// replace by a child
			for _, k := range v.Kids {
				kc := k.Clone()
				kc.Field = nil
				cand := model.CloneAll(cur)
				cand[i] = kc
				if try(cand) {
					cur = cand
					progress = true
					break
				}
			}
			if progress {
				break
			}
			// drop children
			for j := 0; j < len(v.Kids); j++ {
				cand := model.CloneAll(cur)
				cand[i].Kids = append(append([]*model.Value{}, cand[i].Kids[:j]...), cand[i].Kids[j+1:]...)
				if try(cand) {
					cur = cand
					progress = true
					break
				}
			}
			if progress {
				break
			}
			// drop annotations
			if len(v.Ann) > 0 {
				cand := model.CloneAll(cur)
				cand[i].Ann = nil
				if try(cand) {
					cur = cand
					progress = true
					break
				}
				if len(v.Ann) > 1 {
					cand = model.CloneAll(cur)
					cand[i].Ann = cand[i].Ann[:1]
					if try(cand) {
						cur = cand
						progress = true
						break
					}
				}
			}
			// shrink children recursively: shrink kid j in place
			for j := range v.Kids {
				sub := shrinkKid(cur, i, j, try)
				if sub != nil {
					cur = sub
					progress = true
					break
				}
			}
			if progress {
				break
			}
			// shorten text / bytes
			if (v.Kind == model.String && len(v.S) > 4) || ((v.Kind == model.Clob || v.Kind == model.Blob) && len(v.Bytes) > 4) {
				for _, half := range []int{0, 1} {
					cand := model.CloneAll(cur)
					if v.Kind == model.String {
						rs := []rune(v.S)
						if half == 0 {
							cand[i].S = string(rs[:len(rs)/2])
						} else {
							cand[i].S = string(rs[len(rs)/2:])
						}
					} else {
						if half == 0 {
							cand[i].Bytes = v.Bytes[:len(v.Bytes)/2]
						} else {
							cand[i].Bytes = v.Bytes[len(v.Bytes)/2:]
						}
					}
					if try(cand) {
						cur = cand
						progress = true
						break
					}
				}
			}
			if progress {
				break
			}
		}
	}
	return cur
}

// shrinkKid tries to simplify kid j of top-level value i: replace it by one of its kids, drop its annotations.
func shrinkKid(cur []*model.Value, i, j int, try func([]*model.Value) bool) []*model.Value {
	k := cur[i].Kids[j]
	for _, g := range k.Kids {
		cand := model.CloneAll(cur)
		gc := g.Clone()
		gc.Field = cand[i].Kids[j].Field
		cand[i].Kids[j] = gc
		if try(cand) {
			return cand
		}
	}
	for x := 0; x < len(k.Kids); x++ {
		cand := model.CloneAll(cur)
		kk := cand[i].Kids[j]
		kk.Kids = append(append([]*model.Value{}, kk.Kids[:x]...), kk.Kids[x+1:]...)
		if try(cand) {
			return cand
		}
	}
	if len(k.Ann) > 0 {
		cand := model.CloneAll(cur)
		cand[i].Kids[j].Ann = nil
		if try(cand) {
			return cand
		}
	}
	return nil
}

// Shape abstracts a value stream to kinds and flags (for fingerprints).
func Shape(vals []*model.Value) string {
	var b strings.Builder
	for i, v := range vals {
		if i > 0 {
			b.WriteByte(' ')
		}
		shapeVal(&b, v, 0)
	}
	s := b.String()
	if len(s) > 120 {
		s = s[:120] + "…"
	}
	return s
}

func symShape(s model.Sym) string {
	if !s.HasText {
		return fmt.Sprintf("$%d", s.SID)
	}
	t := s.Text
	switch {
	case t == "":
		return "''"
	case len(t) > 1 && t[0] == '$' && strings.Trim(t[1:], "0123456789+-") == "":
		return "'$n'"
	case t == "null" || t == "true" || t == "false" || t == "nan":
		return "kw"
	}
	return "s"
}

func shapeVal(b *strings.Builder, v *model.Value, depth int) {
	if v.Field != nil {
		b.WriteString(symShape(*v.Field) + ":")
	}
	for _, a := range v.Ann {
		b.WriteString(symShape(a) + "::")
	}
	if v.IsNull && v.Kind != model.Null {
		b.WriteString("null.")
	}
	b.WriteString(v.Kind.String())
	if v.Kind == model.Symbol && !v.IsNull {
		b.WriteString("(" + symShape(v.Sy) + ")")
	}
	if v.Kind.IsContainer() && !v.IsNull {
		b.WriteByte('[')
		for i, k := range v.Kids {
			if i > 0 {
				b.WriteByte(',')
			}
			if depth > 3 {
				b.WriteString("…")
				break
			}
			shapeVal(b, k, depth+1)
		}
		b.WriteByte(']')
	}
}
