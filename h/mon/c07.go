package mon

import (
	"bytes"
	"encoding/hex"
	"encoding/json"
	"fmt"
	"io"
	"math/rand"
	"reflect"
	"strings"

	"github.com/amzn/ion-go/ion"

	"verifh/gen"
	"verifh/ionx"
	"verifh/model"
	"verifh/refbin"
	"verifh/reftext"
)

// BadCase is a replayable malformed-input case.
type BadCase struct {
	Binary   bool   `json:"binary"`
	Edit     string `json:"edit"`
	InputHex string `json:"input_hex"`
	Shown    string `json:"input_shown"`
}

// judgeBad runs the traversal of the property on malformed data; "" when the property holds.
func judgeBad(data []byte) (verdict string) {
	if v := judgeBadFrom(bytes.NewReader(data)); v != "" {
		return v
	}
	// malformed stays malformed however the bytes arrive: one at a time, in small pieces with empty
	// reads in between and the last piece together with io.EOF
	if len(data) <= 4000 {
		if v := judgeBadFrom(&chunkReader{data: data, chunks: []int{1}, failAt: -1}); v != "" {
			return "(source delivering one byte per read) " + v
		}
		if v := judgeBadFrom(&chunkReader{data: data, chunks: []int{3, 0, 5}, eofWith: true, failAt: -1}); v != "" {
			return "(source delivering 3, 0, 5 bytes per read, the end together with io.EOF) " + v
		}
	}
	return ""
}

func judgeBadFrom(src io.Reader) (verdict string) {
	var r ion.Reader
	defer func() {
		if rec := recover(); rec != nil {
			verdict = "panic: " + ionx.PanicSite(rec)
		}
	}()
	r = ion.NewReader(src)
	obs := ionx.Observe(r)
	if obs.Panic != "" {
		return "panic: " + obs.Panic
	}
	first := r.Err()
	if first == nil {
		if obs.Err != nil {
			return fmt.Sprintf("traversal stopped on %s error %q but Err() is nil", obs.ErrWhere, obs.Err.Error())
		}
		return "traversal finished with Err() == nil; values seen: " + trunc200(model.FmtAll(obs.Vals))
	}
	for i := 0; i < 3; i++ {
		if r.Next() {
			return fmt.Sprintf("Next() returned true after the error %q", first.Error())
		}
		e := r.Err()
		if e == nil {
			return fmt.Sprintf("Err() became nil after the error %q", first.Error())
		}
		if reflect.TypeOf(e) != reflect.TypeOf(first) || e.Error() != first.Error() {
			return fmt.Sprintf("Err() changed from %q to %q", first.Error(), e.Error())
		}
	}
	return ""
}

func trunc200(s string) string {
	if len(s) > 200 {
		return s[:200] + "…"
	}
	return s
}

// refRejects reports whether the independent reference decoder rejects the data.
func refRejects(binary bool, data []byte) bool {
	var err error
	if binary {
		_, err = refbin.Decode(data, nil)
	} else {
		_, err = reftext.Parse(string(data), nil)
	}
	return err != nil
}

func badCheck(c *Ctx, binary bool, edit string, data []byte, inside bool) {
	if !refRejects(binary, data) {
		c.Obs("edits_the_reference_accepts_(dropped)", 1)
		c.Feat1("accepted-by-reference:" + edit)
		return
	}
	c.Eval(1)
	c.Feat1("edit:" + edit)
	if inside {
		c.NonTrivial(fmt.Sprintf("%v|%x", binary, data))
	}
	v := judgeBad(data)
	if v == "" {
		return
	}
	fam := "text"
	if binary {
		fam = "binary"
	}
	k := BadCase{Binary: binary, Edit: edit, InputHex: hex.EncodeToString(data), Shown: showInput(binary, data)}
	cls := v
	if i := strings.Index(cls, ";"); i > 0 {
		cls = cls[:i]
	}
	c.Violate("malformed-"+fam, edit+":"+Class(cls), fmt.Sprintf("edit=%s input=%s :: %s", edit, k.Shown, v), k, nil)
}

// ---- catalogues of invalid atoms (substituted for a value node) ----

type rawAtom struct {
	name string
	data []byte
}

func binaryAtoms() []rawAtom {
	var out []rawAtom
	add := func(name string, b ...byte) { out = append(out, rawAtom{name, b}) }
	for l := byte(2); l <= 14; l++ {
		add("bool-length-nibble", 0x10|l)
	}
	add("negative-zero-int", 0x30)
	add("negative-zero-int", 0x31, 0x00)
	add("negative-zero-int", 0x32, 0x00, 0x00)
	for n := 3; n <= 24; n++ { // zero magnitudes of every width (int64 and big.Int decoding paths)
		hdr := []byte{0x30 | byte(n)}
		if n >= 14 {
			hdr = []byte{0x3E, 0x80 | byte(n)}
		}
		out = append(out, rawAtom{"negative-zero-int-wide", append(hdr, make([]byte, n)...)})
	}
	add("float-length", 0x41, 0x00)
	add("float-length", 0x42, 0x00, 0x00)
	add("float-length", 0x43, 0, 0, 0)
	add("float-length", 0x45, 0, 0, 0, 0, 0)
	add("float-length", 0x47, 0, 0, 0, 0, 0, 0, 0)
	add("float-length", 0x49, 0, 0, 0, 0, 0, 0, 0, 0, 0)
	for t := byte(0xF0); t != 0; t++ {
		add("type-code-15", t)
	}
	add("annotation-null", 0xEF)
	add("annotation-len-1", 0xE1, 0x81)
	add("annotation-len-2", 0xE2, 0x81, 0x84)
	add("annotation-zero-annotations", 0xE3, 0x80, 0x21, 0x01)
	add("annotation-wraps-nop", 0xE3, 0x81, 0x84, 0x00)
	add("annotation-wraps-nop", 0xE4, 0x81, 0x84, 0x01, 0x00)
	add("annotation-wraps-annotation", 0xE6, 0x81, 0x84, 0xE3, 0x81, 0x84, 0x20)
	add("annotation-length-mismatch", 0xE4, 0x81, 0x84, 0x20, 0x20)
	add("annotation-length-mismatch", 0xE4, 0x81, 0x84, 0x22, 0x01)
	add("annotation-without-value", 0xE2, 0x81, 0x84)
	add("annotation-ids-overrun", 0xE3, 0x83, 0x84, 0x20)
	add("timestamp-month-0", 0x63, 0x80, 0x0F, 0xD0)
	out[len(out)-1].data = []byte{0x64, 0x80, 0x0F, 0xD0, 0x80}
	add("timestamp-month-13", 0x64, 0x80, 0x0F, 0xD0, 0x8D)
	add("timestamp-day-0", 0x65, 0x80, 0x0F, 0xD0, 0x81, 0x80)
	add("timestamp-day-32", 0x65, 0x80, 0x0F, 0xD0, 0x81, 0xA0)
	add("timestamp-feb-30", 0x65, 0x80, 0x0F, 0xD0, 0x82, 0x9E)
	add("timestamp-feb-29-nonleap", 0x65, 0x80, 0x0F, 0xD1, 0x82, 0x9D)
	// years divisible by 100 but not by 400 have no February 29th (2100, 1900, 100, 1000; with and without a time)
	add("timestamp-feb-29-century", 0x65, 0xC0, 0x10, 0xB4, 0x82, 0x9D)
	add("timestamp-feb-29-century", 0x65, 0xC0, 0x0E, 0xEC, 0x82, 0x9D)
	add("timestamp-feb-29-century", 0x64, 0xC0, 0xE4, 0x82, 0x9D)
	add("timestamp-feb-29-century", 0x65, 0xC0, 0x07, 0xE8, 0x82, 0x9D)
	add("timestamp-feb-29-century", 0x67, 0x80, 0x10, 0xB4, 0x82, 0x9D, 0x8C, 0x9E)
	add("timestamp-feb-29-century", 0x68, 0x80, 0x0E, 0xEC, 0x82, 0x9D, 0x8C, 0x9E, 0x81)
	add("timestamp-hour-24", 0x67, 0x80, 0x0F, 0xD0, 0x81, 0x81, 0x98, 0x80)
	add("timestamp-minute-60", 0x67, 0x80, 0x0F, 0xD0, 0x81, 0x81, 0x80, 0xBC)
	add("timestamp-second-60", 0x68, 0x80, 0x0F, 0xD0, 0x81, 0x81, 0x80, 0x80, 0xBC)
	add("timestamp-hour-without-minute", 0x66, 0x80, 0x0F, 0xD0, 0x81, 0x81, 0x8C)
	// fractional seconds outside [0, 1): exactly 1, above 1, negative (2000-01-01T00:00:00 + fraction)
	for _, fr := range [][]byte{{0x80, 0x01}, {0xC1, 0x0A}, {0xC3, 0x03, 0xE8}, {0xC9, 0x3B, 0x9A, 0xCA, 0x00}, {0x80, 0x02}, {0xC1, 0x0F}, {0xC1, 0x0B}, {0x85, 0x01},
		{0xCA, 0x81}, {0xC1, 0x81}, {0x80, 0x81}, {0xC9, 0x81}, {0xD4, 0x81}} {
		ts := append([]byte{0x80, 0x0F, 0xD0, 0x81, 0x81, 0x80, 0x80, 0x80}, fr...)
		out = append(out, rawAtom{"timestamp-fraction-out-of-range", append([]byte{0x60 | byte(len(ts))}, ts...)})
	}
	// calendar fields written as long VarUInts whose low bits alone would be a valid value
	// (65536*n + v, 2^32 + v, 2^35 + v)
	for _, hi := range [][]byte{{0x04, 0x00}, {0x10, 0x00, 0x00, 0x00}, {0x01, 0x00, 0x00, 0x00, 0x00}} {
		big := func(low byte) []byte { return append(append([]byte{}, hi...), 0x80|low) } // hi bits + 7 low bits
		for fi, ts := range [][]byte{
			append(append([]byte{0xC0}, big(0x50)...)),                                                              // year
			append(append([]byte{0xC0, 0x0F, 0xD0}, big(1)...), 0x8F),                                              // month
			append(append([]byte{0xC0, 0x0F, 0xD0, 0x81}, big(15)...)),                                             // day
			append(append(append([]byte{0x80, 0x0F, 0xD0, 0x81, 0x81}, big(12)...), 0x9E)),                          // hour
			append(append([]byte{0x80, 0x0F, 0xD0, 0x81, 0x81, 0x8C}, big(30)...)),                                 // minute
			append(append([]byte{0x80, 0x0F, 0xD0, 0x81, 0x81, 0x8C, 0x9E}, big(30)...)),                           // second
		} {
			_ = fi
			hdr := []byte{0x60 | byte(len(ts))}
			if len(ts) >= 14 {
				hdr = []byte{0x6E, 0x80 | byte(len(ts))}
			}
			out = append(out, rawAtom{"timestamp-field-too-large", append(hdr, ts...)})
		}
	}
	add("timestamp-empty", 0x60)
	add("timestamp-no-year", 0x61, 0x80)
	add("string-not-utf8", 0x82, 0xC3, 0x28)
	add("string-not-utf8", 0x81, 0xFF)
	add("string-not-utf8", 0x83, 0xED, 0xA0, 0x80)
	add("string-not-utf8", 0x82, 0xC0, 0xAF)
	add("symbol-id-beyond-table", 0x72, 0x7F, 0xFF)
	add("symbol-id-beyond-table", 0x73, 0x01, 0x00, 0x00)
	add("sorted-struct-empty", 0xD1, 0x80)
	add("child-overruns-container", 0xB2, 0x22, 0x01)
	add("child-overruns-container", 0xC3, 0x20, 0x84, 0x61)
	add("child-overruns-container", 0xD3, 0x84, 0x22, 0x01)
	add("nop-overruns-container", 0xB2, 0x02, 0x00)
	add("nop-overruns-container", 0xD3, 0x80, 0x03, 0x00)
	add("struct-field-without-value", 0xD1, 0x81, 0x84)
	add("struct-field-id-beyond-table", 0xD3, 0x7F, 0xFF, 0x20)
	add("version-marker-in-value-position", 0xE0, 0x01, 0x00, 0xEA)
	add("varuint-length-unterminated", 0x8E, 0x01, 0x02, 0x03)
	add("bad-version-marker", 0xE0, 0x02, 0x00, 0xEA)
	// a marker is four fixed bytes wherever it stands: first in the stream or between later values
	add("bad-version-marker", 0xE0, 0x01, 0x00, 0x00)
	add("bad-version-marker", 0xE0, 0x01, 0x00, 0xEB)
	add("bad-version-marker", 0xE0, 0x01, 0x01, 0xEA)
	add("bad-version-marker", 0xE0, 0x00, 0x00, 0xEA)
	add("bad-version-marker", 0xE0, 0x01, 0x00, 0x20)
	add("bad-version-marker", 0xE0, 0x01, 0xEA, 0x20)
	// strings longer than any read buffer whose only bad byte is the last, the first, or in the middle
	for _, n := range []int{4090, 5000, 9000, 70000} {
		for _, at := range []int{0, n / 2, n - 1} {
			body := bytes.Repeat([]byte{'a'}, n)
			body[at] = 0xFF
			out = append(out, rawAtom{"long-string-not-utf8", append(append([]byte{0x8E}, refVarUInt(uint64(n))...), body...)})
		}
	}
	return out
}

func textAtoms() []rawAtom {
	var out []rawAtom
	add := func(name string, s string) { out = append(out, rawAtom{name, []byte(s)}) }
	add("raw-newline-in-string", "\"abc\ndef\"")
	add("raw-newline-in-symbol", "'abc\ndef'")
	add("illegal-escape", `"\q"`)
	add("illegal-escape", `"\x1"`)
	add("illegal-escape", `"\xZZ"`)
	add("illegal-escape", `"\u12"`)
	add("illegal-escape", `"\U0000004"`)
	add("illegal-escape", `'\c'`)
	add("illegal-escape", `'''\y'''`)
	add("escape-beyond-unicode", `"\U00110000"`)
	add("digit-grouping", "1__0")
	add("digit-grouping", "1_")
	add("digit-grouping", "0x_1")
	add("digit-grouping", "0x1_")
	add("digit-grouping", "1_.5")
	add("digit-grouping", "0b_1")
	for _, s := range []string{"1._5", "12._345", "1e_5", "1d_2", "1e+_5", "2.0d-_1", "-7._25", "1.5_", "1.5__5", "1.5_e2", "1.5e2_", "1.5e2__0", "1_e5", "1_d5",
		"-_1", "-1__0", "0x1__0", "0b1__0", "-0x_1", "0b1_", "1.5d_", "1e5_0_", "1_._5", "2007_01-01T", "2007-0_1-01", "2007-01-01T1_0:00Z", "2007-01-01T10:00:00._5Z", "2007-01-01T10:00:00.5_0Z"} {
		add("digit-grouping", s)
	}
	add("leading-zero", "01")
	add("leading-zero", "007")
	add("leading-zero", "-01")
	add("leading-zero", "00.5")
	add("leading-zero", "01e0")
	add("radix-without-digits", "0x")
	add("radix-bad-digit", "0b2")
	add("radix-bad-digit", "0xg")
	add("exponent-without-digits", "1e")
	add("exponent-without-digits", "1d+")
	add("exponent-without-digits", "1.5e-")
	add("two-points", "1.2.3")
	add("double-sign", "--1")
	add("number-runs-into-letters", "1a")
	add("number-runs-into-letters", "12abc")
	add("number-runs-into-letters", "1.5x")
	add("negative-zero-int-is-legal-but-hex-garbage", "0x-1")
	for _, ts := range []string{"2000-00-01T", "2000-13-01T", "2000-01-00T", "2000-01-32T", "2001-02-29T", "2000-02-30T", "2000-01-01T24:00Z",
		"2000-01-01T00:60Z", "2000-01-01T00:00:60Z", "2000-01-01T00:00+24:00", "2000-01-01T00:00+00:60", "0000-01-01T", "2000-01-01T00:00", "2000-01-01T00:00:00",
		"2000-01-01T00Z", "2000-1-01T", "2000-01-01T00:00:00.Z"} {
		add("impossible-timestamp", ts)
	}
	add("unknown-null-type", "null.xyz")
	add("unknown-null-type", "null.")
	add("unknown-null-type", "null.Int")
	add("null-dot-comment", "null./*c*/int")
	add("bad-base64", "{{ab}}")
	add("bad-base64", "{{a=b=}}")
	add("bad-base64", "{{====}}")
	add("bad-base64", "{{ab!c}}")
	add("bad-base64", "{{abc}}")
	add("bad-base64", "{{a b c d =}}")
	for _, s := range []string{"2100-02-29", "2100-02-29T", "1900-02-29T12:30Z", "0100-02-29T", "1000-02-29T00:00:00.000-08:00", "2200-02-29T23:59:59.999999999Z", "2300-02-29"} {
		add("timestamp-feb-29-century", s)
	}
	add("clob-non-ascii", "{{\"é\"}}")
	for _, s := range []string{"{{\"\\u0041\"}}", "{{\"a\\U00000041\"}}", "{{'''x\\u000Ay'''}}", "{{'''first''' '''sec\\U000000FFond'''}}", "{{\"\\u00e9\"}}", "{{\"\\u0100\"}}", "{{'''\\U0001F600'''}}"} {
		add("clob-unicode-escape", s)
	}
	add("clob-two-short-strings", `{{"a" "b"}}`)
	add("clob-comment-inside", `{{ /*c*/ "a" }}`)
	add("lob-unbalanced-close", "{{abcd}")
	add("lob-mixed", `{{"a" '''b'''}}`)
	add("raw-control-char-in-string", "\"a\x01b\"")
	add("raw-control-char-in-string", "\"a\x00b\"")
	add("raw-control-char-in-symbol", "'a\x07b'")
	add("raw-non-utf8-in-string", "\"a\xffb\"")
	add("raw-non-utf8-in-string", "\"\xc3\x28\"")
	add("raw-non-utf8-in-long-string", "'''\xed\xa0\x80'''")
	add("raw-non-utf8-in-symbol", "'\xfe'")
	add("double-comma-in-list", "[1,,2]")
	add("leading-comma-in-list", "[,1]")
	add("comma-in-sexp", "(1,2)")
	add("double-comma-in-struct", "{a:1,,b:2}")
	add("leading-comma-in-struct", "{,a:1}")
	add("missing-comma-in-list", "[1 2]")
	add("missing-comma-in-struct", "{a:1 b:2}")
	add("missing-colon", "{a 1}")
	add("field-without-value", "{a:}")
	add("field-without-value", "{a:,b:1}")
	add("field-name-only", "{a}")
	add("value-without-field-name", "{1}")
	add("value-without-field-name", "{:1}")
	add("annotation-as-field", "{a::1}")
	add("keyword-field-name", "{null:1}")
	add("keyword-field-name", "{true:1}")
	add("keyword-field-name", "{nan:1}")
	add("keyword-annotation", "[null::1]")
	add("keyword-annotation", "[false::1]")
	add("operator-outside-sexp", "[+]")
	add("operator-outside-sexp", "{a:+}")
	add("operator-outside-sexp", "[a, *, b]")
	add("operator-annotation", "(+::1)")
	add("dangling-annotation", "[1, a::]")
	add("dangling-annotation", "(a::)")
	add("dangling-annotation", "{f:a::}")
	add("dangling-annotation", "[a::,1]")
	add("dangling-annotation", "[a:: ::1]")
	add("mismatched-close", "[1)")
	add("mismatched-close", "(1]")
	add("mismatched-close", "{a:1]")
	add("mismatched-close", "[{]}")
	add("stray-close", "]")
	add("stray-close", "[1]]")
	add("stray-colon", "[a:1]")
	add("triple-colon", "[a:::1]")
	return out
}

// lstShells returns local symbol tables, each holding the given node in a position a reader
// does not interpret.
func lstShells(hole *model.Value) []*model.Value {
	f := func(name string, v *model.Value) *model.Value { return v.WithField(model.T(name)) }
	lst := func(kids ...*model.Value) *model.Value {
		return model.StructV(kids...).WithAnn(model.T("$ion_symbol_table"))
	}
	syms := func() *model.Value { return f("symbols", model.ListV(model.StrV("a"))) }
	imp := func(kids ...*model.Value) *model.Value {
		return f("imports", model.ListV(model.StructV(kids...)))
	}
	return []*model.Value{
		lst(syms(), f("name", model.ListV(hole))),
		lst(f("version", model.StructV(f("max_id", model.Int64V(1)), f("name", hole))), syms()),
		lst(syms(), f("$ion", model.SexpV(model.ListV(model.Int64V(1), hole)))),
		lst(f("symbols", model.ListV(model.StrV("a"), model.ListV(hole), model.StrV("b")))),
		lst(f("symbols", model.StructV(f("name", hole)))),
		lst(f("imports", model.ListV(model.ListV(hole)))),
		lst(f("imports", model.SexpV(hole))),
		lst(imp(f("name", model.StrV("n")), f("version", model.Int64V(1)), f("max_id", model.Int64V(0)), f("symbols", model.SexpV(hole)))),
		lst(imp(f("name", model.ListV(hole)), f("version", model.Int64V(1)), f("max_id", model.Int64V(0)))),
		lst(imp(f("name", model.StrV("n")), f("version", model.StructV(f("name", hole))), f("max_id", model.Int64V(0)))),
		lst(imp(f("name", model.StrV("n")), f("version", model.Int64V(1)), f("max_id", model.ListV(hole)))),
		// after both fields a reader has a use for
		lst(f("imports", model.ListV()), syms(), f("name", hole)),
		lst(syms(), f("imports", model.ListV()), f("version", model.ListV(hole))),
		lst(f("imports", model.SymV(model.T("$ion_symbol_table"))), syms(), f("max_id", model.SexpV(hole))),
		lst(syms(), imp(f("name", model.StrV("n")), f("version", model.Int64V(1)), f("max_id", model.Int64V(0))), f("$ion", hole), f("name", model.Int64V(1))),
		// in scalar positions
		lst(syms(), f("name", hole)),
		lst(f("symbols", model.ListV(model.StrV("a"), hole))),
		lst(imp(f("name", model.StrV("n")), f("version", model.Int64V(1)), f("max_id", model.Int64V(0)), f("$ion", hole))),
		lst(f("imports", model.ListV(hole))),
	}
}

func runC07(c *Ctx) {
	batoms, tatoms := binaryAtoms(), textAtoms()
	ndocs := c.N(400, 12000)
	c.Parallel(ndocs, func(w, i int) {
		cs := c.Seed*6_000_011 + int64(i)
		g := gen.New(cs)
		g.MaxDepth = 3
		g.MaxLen = 40
		var vals []*model.Value
		for len(vals) == 0 {
			vals = g.Stream()
		}
		// make sure the last value has an interior (container or text)
		if i%2 == 0 {
			vals = append(vals, g.OfKind([]model.Kind{model.List, model.Struct, model.Sexp, model.String, model.Clob, model.Blob}[i/2%6], 1))
			if vals[len(vals)-1].IsNull {
				vals[len(vals)-1] = model.ListV(model.Int64V(1), model.StrV("x"))
			}
		}
		r := rand.New(rand.NewSource(cs))
		c.JournalCase(w, fmt.Sprintf("malformed case_seed=%d", cs))

		// ---------- binary ----------
		be := refbin.NewEncoder(newChoice(cs, 0.15), nil)
		if be.Stream(vals) == nil {
			if _, err := refbin.Decode(be.Out, nil); err == nil {
				// (1) truncation at every offset strictly inside a top-level item
				for _, t := range be.Tops {
					for cut := t[0] + 1; cut < t[1]; cut++ {
						badCheck(c, true, "truncation-inside-value", be.Out[:cut], true)
					}
				}
				// (2) inline length nibble increased so that the last top-level value overruns the input
				last := be.Tops[len(be.Tops)-1]
				if tg := be.Out[last[0]]; tg&0x0F < 13 && tg>>4 >= 2 && tg>>4 != 4 && tg>>4 <= 13 && tg&0x0F > 0 {
					d := append([]byte{}, be.Out...)
					d[last[0]] = tg + 1
					badCheck(c, true, "length-overruns-input", d, true)
				}
			} else {
				c.Obs("harness_inconsistent", 1)
			}
		}
		// (3) substitution of an invalid atom for a random value node
		var nodes []*model.Value
		model.Walk(vals, func(v *model.Value, d int) { nodes = append(nodes, v) })
		for rep := 0; rep < 6; rep++ {
			node := nodes[r.Intn(len(nodes))]
			at := batoms[r.Intn(len(batoms))]
			if i*6+rep < len(batoms)*3 {
				at = batoms[(i*6+rep)%len(batoms)]
			}
			e := refbin.NewEncoder(newChoice(cs+int64(rep), 0.1), nil)
			e.Raw = map[*model.Value][]byte{node: at.data}
			if e.Stream(vals) != nil {
				continue
			}
			inside := node != vals[0] || len(vals) > 1
			badCheck(c, true, at.name, e.Out, inside)
		}

		// ---------- text ----------
		tp := reftext.NewPrinter(newChoice(cs, 0.15))
		if tp.Stream(vals) == nil {
			src := tp.B.String()
			if _, err := reftext.Parse(src, nil); err == nil {
				for ti, t := range tp.Tops {
					v := vals[ti]
					delimited := (v.Kind.IsContainer() || v.Kind == model.String || v.Kind == model.Clob || v.Kind == model.Blob) && !v.IsNull && len(v.Ann) == 0
					if !delimited {
						continue
					}
					for cut := t[0] + 1; cut < t[1]; cut++ {
						badCheck(c, false, "truncation-inside-"+v.Kind.String(), []byte(src[:cut]), true)
					}
				}
				// unterminated block comment / long string / dangling annotation at the very end
				badCheck(c, false, "unterminated-block-comment", []byte(src+" /* never closed"), true)
				badCheck(c, false, "unterminated-block-comment", []byte(src+" /*/"), true)
				badCheck(c, false, "unterminated-block-comment", []byte(src+" /*/ x * /"), true)
				badCheck(c, false, "unterminated-long-string", []byte(src+" '''never closed"), true)
				badCheck(c, false, "unterminated-string", []byte(src+" \"never closed"), true)
				// a line comment ends at LF, CR LF or a lone CR: what follows it is read (and checked) again
				for _, nl := range []string{"\r", "\n", "\r\n"} {
					for _, bad := range []string{"\"abc", "[2, 3", "{a:", "/* two", "a::", "\"a\\qb\"", "1__0", "2021-02-30T", "[2,,3]", "(2 3))", "{{ x }}"} {
						badCheck(c, false, "malformed-after-line-comment", []byte(src+" 1 // one"+nl+bad), true)
					}
				}
				badCheck(c, false, "dangling-annotation-at-eof", []byte(src+" ann::"), true)
				badCheck(c, false, "dangling-annotation-at-eof", []byte(src+" 'ann' :: /*c*/ "), true)
			} else {
				c.Obs("harness_inconsistent", 1)
			}
		}
		for rep := 0; rep < 8; rep++ {
			node := nodes[r.Intn(len(nodes))]
			at := tatoms[r.Intn(len(tatoms))]
			if i*8+rep < len(tatoms)*3 {
				at = tatoms[(i*8+rep)%len(tatoms)]
			}
			p := reftext.NewPrinter(newChoice(cs+int64(rep), 0.1))
			p.Raw = map[*model.Value]string{node: string(at.data)}
			if p.Stream(vals) != nil {
				continue
			}
			badCheck(c, false, at.name, []byte(p.B.String()), true)
		}
		// (4) the same atoms inside the parts of a local symbol table that a reader has no use for
		// (open content, non-string symbols entries, non-struct imports entries, container-valued
		// import fields): the document is just as malformed there
		for rep := 0; rep < 8; rep++ {
			hole := model.Int64V(0)
			shells := lstShells(hole)
			si := (i*8 + rep) % len(shells)
			bat := batoms[(i*8+rep)/len(shells)%len(batoms)]
			e := refbin.NewEncoder(newChoice(cs+int64(rep), 0.1), nil)
			e.Raw = map[*model.Value][]byte{hole: bat.data}
			e.AppendIVM()
			e.Out = append(e.Out, e.Value(shells[si])...)
			e.AppendValue(model.Int64V(7))
			if e.Err == nil {
				badCheck(c, true, "in-symbol-table:"+bat.name, e.Out, true)
				c.Feat1(fmt.Sprintf("lst-shell:%d", si))
			}
			tat := tatoms[(i*8+rep)/len(shells)%len(tatoms)]
			p := reftext.NewPrinter(newChoice(cs+int64(rep), 0.1))
			p.Raw = map[*model.Value]string{hole: string(tat.data)}
			p.AppendValue(shells[si])
			p.AppendValue(model.Int64V(7))
			if p.Err == nil {
				badCheck(c, false, "in-symbol-table:"+tat.name, []byte(p.B.String()), true)
			}
		}
		if i < 2 {
			c.Sample(map[string]interface{}{"values": model.FmtAll(vals), "edits": "truncation at every interior offset of every top-level item; invalid atom substituted for a value node; unterminated comment/string; dangling annotation"})
		}
	})
	c.Obs("binary_atom_catalogue", int64(len(batoms)))
	c.Obs("text_atom_catalogue", int64(len(tatoms)))
	c.mu.Lock()
	inc := c.obs["harness_inconsistent"]
	c.mu.Unlock()
	if inc > 0 {
		c.Inconclusive(fmt.Sprintf("reference producer/consumer disagreed on %d base documents (dropped)", inc))
	}
	c.Exhaustive("for every generated document: truncation at every byte offset strictly inside every top-level item (binary) / every delimited top-level value (text); the whole atom catalogue is cycled through at least three times")
}

func init() {
	Register(&Monitor{ID: "C07", Run: func(c *Ctx) {
		c.Rule = "valid documents from the reference producers made invalid by a catalogued edit: truncation at every interior byte offset, an over-long length, an invalid atom (illegal tag/length pair, negative zero, bad wrapper, impossible calendar field, non-UTF-8, undefined symbol id, bad digits/escapes/commas/annotations/field names, bad base64, ...) substituted for a value node with all enclosing lengths consistent; an edit counts only if the independent reference decoder also rejects the result. Every edited document (up to 4000 bytes) is read three ways: from memory, one byte per read, and in pieces of 3, 0 and 5 bytes with the end arriving together with io.EOF. Oracle: after a full traversal Err() != nil, then three further Next() are false and Err() keeps the same type and message. Non-trivial: the edit is strictly inside the document; distinct by edited bytes."
		c.Assume("an edit the reference decoder accepts is dropped (counted), never reported")
		runC07(c)
	}, Replay: func(c *Ctx, v *Violation) string {
		var k BadCase
		if err := json.Unmarshal(v.Case, &k); err != nil {
			return "cannot decode case: " + err.Error()
		}
		data, _ := hex.DecodeString(k.InputHex)
		if r := judgeBad(data); r != "" {
			return "VIOLATED on replay: " + r
		}
		return "HELD on replay"
	}})
}
