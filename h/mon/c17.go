package mon

import (
	"bytes"
	"encoding/json"
	"fmt"
	"math"
	"math/big"
	"math/rand"
	"reflect"
	"strings"
	"time"

	"github.com/amzn/ion-go/ion"

	"verifh/gen"
	"verifh/ionx"
	"verifh/model"
	"verifh/refbin"
	"verifh/reftext"
)

// UnCase is a replayable Unmarshal cell.
type UnCase struct {
	Text   string `json:"ion_text"`
	Target string `json:"target_type"`
	Binary bool   `json:"binary"`
	Via    string `json:"via"`
}

type wrapInt struct {
	V int               `ion:"v"`
	A []ion.SymbolToken `ion:",annotations"`
}
type wrapAny struct {
	V interface{}       `ion:"v"`
	A []ion.SymbolToken `ion:",annotations"`
}
type wrapStr struct {
	V string            `ion:"v"`
	A []ion.SymbolToken `ion:",annotations"`
}
type wrapReadme struct {
	V int      `ion:"v"`
	A []string `ion:",annotations"`
}

// wrapEmbPtr reaches its value field through an embedded pointer that is nil in a fresh target.
type wrapAmount struct{ Value int }
type wrapEmbPtr struct {
	*wrapAmount
	Ann []ion.SymbolToken `ion:",annotations"`
}
type wrapEmbVal struct {
	wrapAmount
	Ann []ion.SymbolToken `ion:",annotations"`
}
type lobStruct struct {
	K []byte `ion:"k"`
	N int    `ion:"n"`
	L []byte `ion:"l"`
	S string `ion:"s"`
}
type plainStruct struct {
	A int    `ion:"a"`
	B string `ion:"b"`
	C []int  `ion:"c"`
}

var unTargets = map[string]reflect.Type{
	"bool": reflect.TypeOf(false), "int": reflect.TypeOf(int(0)), "int8": reflect.TypeOf(int8(0)), "int16": reflect.TypeOf(int16(0)), "int32": reflect.TypeOf(int32(0)),
	"int64": reflect.TypeOf(int64(0)), "uint": reflect.TypeOf(uint(0)), "uint8": reflect.TypeOf(uint8(0)), "uint16": reflect.TypeOf(uint16(0)), "uint32": reflect.TypeOf(uint32(0)),
	"uint64": reflect.TypeOf(uint64(0)), "float32": reflect.TypeOf(float32(0)), "float64": reflect.TypeOf(float64(0)), "string": reflect.TypeOf(""),
	"[]byte": reflect.TypeOf([]byte(nil)), "[4]byte": reflect.TypeOf([4]byte{}), "[]int": reflect.TypeOf([]int(nil)), "[2]int": reflect.TypeOf([2]int{}),
	"[]interface{}": reflect.TypeOf([]interface{}(nil)), "[]string": reflect.TypeOf([]string(nil)), "map[string]int": reflect.TypeOf(map[string]int(nil)),
	"map[string]interface{}": reflect.TypeOf(map[string]interface{}(nil)), "map[int]int": reflect.TypeOf(map[int]int(nil)),
	"plainStruct": reflect.TypeOf(plainStruct{}), "*plainStruct": reflect.TypeOf(&plainStruct{}),
	"*int": reflect.TypeOf(new(int)), "**int": reflect.TypeOf(new(*int)), "*string": reflect.TypeOf(new(string)), "*[]byte": reflect.TypeOf(new([]byte)),
	"interface{}": tIface, "Timestamp": tTimestamp, "time.Time": tTime, "Decimal": tDecimal, "*Decimal": reflect.PtrTo(tDecimal), "big.Int": tBigInt, "*big.Int": reflect.PtrTo(tBigInt),
	"SymbolToken": tSymTok, "wrapInt": reflect.TypeOf(wrapInt{}), "wrapAny": reflect.TypeOf(wrapAny{}), "wrapStr": reflect.TypeOf(wrapStr{}), "wrapReadme": reflect.TypeOf(wrapReadme{}),
	"wrapEmbPtr": reflect.TypeOf(wrapEmbPtr{}), "wrapEmbVal": reflect.TypeOf(wrapEmbVal{}), "[]wrapEmbPtr": reflect.TypeOf([]wrapEmbPtr(nil)), "*wrapEmbPtr": reflect.TypeOf(&wrapEmbPtr{}),
	"[][]byte": reflect.TypeOf([][]byte(nil)), "lobStruct": reflect.TypeOf(lobStruct{}), "map[string][]byte": reflect.TypeOf(map[string][]byte(nil)),
	"uintptr": reflect.TypeOf(uintptr(0)), "[]uint16": reflect.TypeOf([]uint16(nil)), "[][]int": reflect.TypeOf([][]int(nil)), "chan int": reflect.TypeOf((chan int)(nil)),
}

var unValues = []string{
	"null", "null.null", "null.bool", "null.int", "null.float", "null.decimal", "null.timestamp", "null.symbol", "null.string", "null.clob", "null.blob", "null.list", "null.sexp", "null.struct",
	"true", "false",
	"0", "1", "-1", "127", "128", "-128", "-129", "255", "256", "32767", "32768", "-32768", "-32769", "65535", "65536",
	"2147483647", "2147483648", "-2147483648", "-2147483649", "4294967295", "4294967296",
	"9223372036854775807", "9223372036854775808", "-9223372036854775808", "-9223372036854775809", "18446744073709551615", "18446744073709551616", "-18446744073709551616",
	// the same boundaries in the other radixes and with digit grouping
	"0x7F", "0x80", "-0x80", "-0x81", "0xFF", "0x100", "0x7fff", "0x8000", "0xFFFF_FFFF", "0x1_0000_0000", "-0x8000_0000", "-0x80000001",
	"0x7FFFFFFFFFFFFFFF", "0x8000000000000000", "-0x8000000000000000", "-0x8000000000000001", "0xffffffffffffffff", "0x10000000000000000", "-0x10000000000000000",
	"0b111111111111111111111111111111111111111111111111111111111111111", "0b1000000000000000000000000000000000000000000000000000000000000000",
	"-0b1000000000000000000000000000000000000000000000000000000000000000", "0b1111111111111111111111111111111111111111111111111111111111111111", "9_223_372_036_854_775_808", "-0b1000_0000", "0b1111_1111",
	"0e0", "-0e0", "1.5e0", "3.4028234663852886e38", "3.4028235677973366e38", "-3.5e38", "1e39", "1e-50", "1.7976931348623157e308", "nan", "+inf", "-inf", "16777217e0",
	// whole floats at the edges of the integer widths (a conversion through an integer wraps there)
	"9223372036854775808e0", "-9223372036854775808e0", "9223372036854774784e0", "18446744073709551616e0", "9007199254740992e0", "9007199254740993e0", "4294967296e0", "2147483648e0", "-2147483649e0", "1e19", "1e22", "1e23", "5e-324",
	"0.", "-0.", "1.5", "-1234567890123456789012345678901234567890d-5", "1d100",
	"2020T", "2020-02-29T12:34:56.789+05:30", "0001-01-01T00:00:00-00:00", "9999-12-31T23:59:59.999999999Z",
	"abc", "'hello world'", "''", "$0", "$4", "'$5'", "null_", "'null'",
	"\"\"", "\"hello\"", "\"日本😀\"", "\"null\"",
	"{{}}", "{{aGVsbG8=}}", "{{AAECAw==}}", "{{\"\"}}", "{{\"clob\\xff\"}}", "{{\"abcd\"}}",
	"[]", "[1]", "[1,2]", "[1,2,3]", "[1,\"a\"]", "[[1],[2,3]]", "[null]", "[300]", "[-1]", "()", "(1 2)", "(a b)", "(+ 1 2)",
	"{}", "{a:1}", "{a:1,b:\"x\"}", "{a:1,b:\"x\",c:[1,2],d:ignored}", "{A:5}", "{a:\"wrong\"}", "{a:null.int}", "{x:{y:1}}", "{k1:1,k2:2}", "{k:300}",
	"[{{AQID}},{{BAUG}}]", "[{{\"abcdefgh\"}},{{QUJDRA==}},{{}}]", "{k:{{qrvM3Q==}},n:258,l:{{\"xy\"}},s:\"zzzzzzzz\"}", "{a:{{AQID}},b:{{BAUG}},c:{{Bwg=}}}",
	"ann::1", "a::b::1", "ann::\"s\"", "ann::null.int", "ann::[1,2]", "ann::{a:1}", "ann::sym", "'$5'::1", "$0::1", "ann::1.5e0", "ann::2020T", "ann::{{aGk=}}",
}

type expectation int

const (
	exOpen          expectation = iota // only "no panic"
	exMustError                        // an error is required
	exIfOKFaithful                     // success not demanded; if err == nil the stored value must be faithful
	exMustSucceed                      // err == nil and the stored value must be faithful
	exMustBeNilOrOK                    // typed null: nillable targets become nil
)

func fitsInt(n *big.Int, bits int) bool {
	lim := new(big.Int).Lsh(big.NewInt(1), uint(bits-1))
	return n.Cmp(lim) < 0 && n.Cmp(new(big.Int).Neg(lim)) >= 0
}
func fitsUint(n *big.Int, bits int) bool {
	return n.Sign() >= 0 && n.Cmp(new(big.Int).Lsh(big.NewInt(1), uint(bits))) < 0
}

func isWrapper(t reflect.Type) (reflect.Type, bool) {
	if t.Kind() != reflect.Struct || isSpecialStruct(t) || t == tSymTok {
		return nil, false
	}
	var inner reflect.Type
	has := false
	for _, fi := range fieldsOf(t) {
		if fi.annot {
			has = true
		} else if !fi.skip {
			inner = t.Field(fi.index).Type
		}
	}
	if has && t.NumField() == 2 && inner != nil {
		return inner, true
	}
	return nil, false
}

// expect classifies the (value, target) cell from the documented mapping.
func expect(v *model.Value, t reflect.Type) expectation {
	// wrappers whose value field is promoted from an embedded struct: the harness has no image for
	// them, so only the absence of a panic is demanded
	for _, et := range []reflect.Type{reflect.TypeOf(wrapEmbPtr{}), reflect.TypeOf(wrapEmbVal{})} {
		if t == et || t == reflect.PtrTo(et) || t == reflect.SliceOf(et) {
			return exOpen
		}
	}
	for t.Kind() == reflect.Ptr {
		if v.IsNull {
			return exMustBeNilOrOK
		}
		t = t.Elem()
	}
	if v.IsNull {
		switch t.Kind() {
		case reflect.Slice, reflect.Map, reflect.Interface:
			return exMustBeNilOrOK
		}
		return exOpen
	}
	if inner, ok := isWrapper(t); ok {
		if t == reflect.TypeOf(wrapReadme{}) {
			return exOpen // the README's []string form: must not panic (error or success)
		}
		if v.Kind == model.Struct {
			return exOpen
		}
		return expect(v, inner)
	}
	if t.Kind() == reflect.Interface {
		if t.NumMethod() == 0 {
			return exMustSucceed
		}
		return exMustError
	}
	switch v.Kind {
	case model.Bool:
		if t.Kind() == reflect.Bool {
			return exMustSucceed
		}
		return exMustError
	case model.Int:
		switch t.Kind() {
		case reflect.Int, reflect.Int8, reflect.Int16, reflect.Int32, reflect.Int64:
			if fitsInt(v.I, t.Bits()) {
				return exMustSucceed
			}
			return exMustError
		case reflect.Uint, reflect.Uint8, reflect.Uint16, reflect.Uint32, reflect.Uint64, reflect.Uintptr:
			if fitsUint(v.I, t.Bits()) {
				return exMustSucceed
			}
			return exMustError
		}
		if t == tBigInt {
			return exMustSucceed
		}
		return exMustError
	case model.Float:
		f := math.Float64frombits(v.F)
		switch t.Kind() {
		case reflect.Float64:
			return exMustSucceed
		case reflect.Float32:
			if !math.IsInf(f, 0) && !math.IsNaN(f) && math.Abs(f) > math.MaxFloat32 {
				return exMustError
			}
			return exMustSucceed
		}
		if t == tDecimal {
			return exIfOKFaithful
		}
		return exMustError
	case model.Decimal:
		if t == tDecimal {
			return exMustSucceed
		}
		return exMustError
	case model.Timestamp:
		if t == tTimestamp {
			return exMustSucceed
		}
		if t == tTime {
			return exIfOKFaithful
		}
		return exMustError
	case model.Symbol:
		switch {
		case t.Kind() == reflect.String:
			if v.Sy.HasText {
				return exMustSucceed
			}
			return exMustError
		case t == tSymTok:
			return exIfOKFaithful
		}
		return exMustError
	case model.String:
		if t.Kind() == reflect.String {
			return exMustSucceed
		}
		return exMustError
	case model.Clob, model.Blob:
		switch {
		case t.Kind() == reflect.Slice && t.Elem().Kind() == reflect.Uint8:
			return exMustSucceed
		case t.Kind() == reflect.Array && t.Elem().Kind() == reflect.Uint8:
			if t.Len() == len(v.Bytes) {
				return exIfOKFaithful
			}
			return exOpen
		}
		return exMustError
	case model.List, model.Sexp:
		switch t.Kind() {
		case reflect.Slice, reflect.Array:
			if t.Elem().Kind() == reflect.Uint8 {
				return exOpen // a list of small ints into []byte: not settled by the documentation
			}
			if t.Kind() == reflect.Array && t.Len() != len(v.Kids) {
				return exOpen
			}
			worst := exMustSucceed
			if t.Kind() == reflect.Array {
				worst = exIfOKFaithful
			}
			for _, k := range v.Kids {
				switch expect(k, t.Elem()) {
				case exMustError:
					return exMustError
				case exOpen, exMustBeNilOrOK:
					return exOpen
				case exIfOKFaithful:
					worst = exIfOKFaithful
				}
			}
			return worst
		}
		return exMustError
	case model.Struct:
		switch t.Kind() {
		case reflect.Map:
			if t.Key().Kind() != reflect.String {
				return exMustError
			}
			for _, k := range v.Kids {
				switch expect(k, t.Elem()) {
				case exMustError:
					return exMustError
				case exOpen, exMustBeNilOrOK, exIfOKFaithful:
					return exOpen
				}
			}
			return exMustSucceed
		case reflect.Struct:
			if isSpecialStruct(t) || t == tSymTok {
				return exMustError
			}
			// by name; unknown fields ignored; a field of the wrong type is an error
			for _, k := range v.Kids {
				for _, fi := range fieldsOf(t) {
					if fi.skip || k.Field == nil || !k.Field.HasText || !strings.EqualFold(fi.name, k.Field.Text) {
						continue
					}
					switch expect(k, t.Field(fi.index).Type) {
					case exMustError:
						return exMustError
					case exOpen, exMustBeNilOrOK, exIfOKFaithful:
						return exOpen
					}
				}
			}
			return exMustSucceed
		}
		return exMustError
	}
	return exOpen
}

// faithful reports whether the Go value stored represents the Ion value.
func faithful(v *model.Value, got reflect.Value) string {
	t := got.Type()
	for got.Kind() == reflect.Ptr {
		if got.IsNil() {
			if v.IsNull {
				return ""
			}
			return "target pointer is nil"
		}
		got = got.Elem()
		t = got.Type()
	}
	if v.IsNull {
		if denotesNull(got) || !got.IsValid() {
			return ""
		}
		switch got.Kind() {
		case reflect.Slice, reflect.Map, reflect.Interface:
			return fmt.Sprintf("typed null left a non-nil %v", t)
		}
		return ""
	}
	if _, ok := isWrapper(t); ok {
		var innerV reflect.Value
		var anns []ion.SymbolToken
		for _, fi := range fieldsOf(t) {
			if fi.annot {
				anns, _ = got.Field(fi.index).Interface().([]ion.SymbolToken)
			} else {
				innerV = got.Field(fi.index)
			}
		}
		if len(anns) != len(v.Ann) {
			return fmt.Sprintf("wrapper holds %d annotations, value has %d", len(anns), len(v.Ann))
		}
		for i, a := range anns {
			if !symEq(&a, v.Ann[i]) {
				return fmt.Sprintf("annotation %d is %v, want %v", i, a.String(), v.Ann[i])
			}
		}
		bare := *v
		bare.Ann = nil
		return faithful(&bare, innerV)
	}
	// lob into a byte array: compare the bytes
	if (v.Kind == model.Blob || v.Kind == model.Clob) && got.Kind() == reflect.Array && t.Elem().Kind() == reflect.Uint8 {
		for i := 0; i < got.Len(); i++ {
			if i < len(v.Bytes) && byte(got.Index(i).Uint()) != v.Bytes[i] {
				return fmt.Sprintf("byte %d is %d, want %d", i, got.Index(i).Uint(), v.Bytes[i])
			}
		}
		return ""
	}
	// a float into a Decimal: whatever digits are chosen, they have to denote that float
	if v.Kind == model.Float && t == tDecimal {
		d := got.Interface().(ion.Decimal)
		co, ex := d.CoEx()
		back, _, err := big.ParseFloat(fmt.Sprintf("%se%d", co.String(), ex), 10, 2000, big.ToNearestEven)
		if err != nil {
			return "the Decimal stored for a float cannot be read as a number: " + err.Error()
		}
		f64, _ := back.Float64()
		if want := math.Float64frombits(v.F); f64 != want {
			return fmt.Sprintf("the Decimal stored for the float %v is %v, which denotes %v", want, d.String(), f64)
		}
		return ""
	}
	// timestamps into time.Time: instant and offset (time.Time has no precision)
	if v.Kind == model.Timestamp && t == tTime {
		tm := got.Interface().(time.Time)
		ts := v.T
		days := model.DaysFromCivil(ts.Y, ts.M, ts.D)
		sec := days*86400 + int64(ts.H*3600+ts.Mi*60+ts.S) - int64(ts.OffMin*60)
		_, off := tm.Zone()
		if tm.Unix() != sec || tm.Nanosecond() != ts.Nanos || off != ts.OffMin*60 {
			return fmt.Sprintf("time.Time %v does not denote %v", tm, ts)
		}
		return ""
	}
	img, ok := imageOf(got, "", true)
	if !ok {
		return "stored value has no Ion image"
	}
	// an empty list leaves a nil slice
	if (v.Kind == model.List || v.Kind == model.Sexp) && len(v.Kids) == 0 && img.Kind == model.Null {
		return ""
	}
	want := v.Clone()
	want.Ann, want.Field = nil, nil
	norm(want)
	norm(img)
	// structs into Go structs: only the fields the Go type knows, by (case-insensitive) name
	if want.Kind == model.Struct && got.Kind() == reflect.Struct {
		for _, k := range want.Kids {
			if k.Field == nil {
				continue
			}
			for _, fi := range fieldsOf(t) {
				if !fi.skip && strings.EqualFold(fi.name, k.Field.Text) {
					if d := faithful(k, got.Field(fi.index)); d != "" {
						return "field " + fi.name + ": " + d
					}
				}
			}
		}
		return ""
	}
	if d := model.DiffOpt([]*model.Value{want}, []*model.Value{img}, model.EqOpts{UnorderedStructs: true}); d != "" {
		return d
	}
	return ""
}

// norm maps an Ion value and a Go image onto a common form: symbols as strings, sexps as lists,
// clobs as blobs, annotations and typed-null kinds dropped, float32 precision.
func norm(v *model.Value) {
	v.Ann = nil
	if v.IsNull {
		v.Kind = model.Null
	}
	switch v.Kind {
	case model.Symbol:
		if !v.IsNull && v.Sy.HasText {
			v.Kind, v.S = model.String, v.Sy.Text
		}
	case model.Sexp:
		v.Kind = model.List
	case model.Clob:
		v.Kind = model.Blob
	}
	for _, k := range v.Kids {
		norm(k)
	}
}

func runUnCase(k UnCase) (verdict string) {
	defer func() {
		if rec := recover(); rec != nil {
			verdict = "panic: " + ionx.PanicSite(rec)
		}
	}()
	vals, err := reftext.Parse(k.Text, nil)
	if err != nil || len(vals) != 1 {
		return ""
	}
	v := vals[0]
	t := unTargets[k.Target]
	data := []byte(k.Text)
	if k.Binary {
		enc, err := refbin.Encode(vals, nil)
		if err != nil {
			return ""
		}
		data = enc.Bytes
	}
	target := reflect.New(t)
	switch k.Via {
	case "Unmarshal":
		err = ion.Unmarshal(data, target.Interface())
	case "UnmarshalString":
		if k.Binary {
			return ""
		}
		err = ion.UnmarshalString(k.Text, target.Interface())
	default:
		err = ion.NewDecoder(ion.NewReader(bytes.NewReader(data))).DecodeTo(target.Interface())
	}
	ex := expect(v, t)
	// float32 targets compare after narrowing
	want := v
	if v.Kind == model.Float && !v.IsNull {
		tt := t
		for tt.Kind() == reflect.Ptr {
			tt = tt.Elem()
		}
		if tt.Kind() == reflect.Float32 {
			want = model.FloatV(float64(float32(math.Float64frombits(v.F))))
			want.Ann = v.Ann
		}
	}
	switch ex {
	case exMustError:
		if err == nil {
			return fmt.Sprintf("no error; target now holds %s", trunc200(fmt.Sprintf("%+v", target.Elem().Interface())))
		}
	case exMustSucceed:
		if err != nil {
			return "unexpected error: " + err.Error()
		}
		if d := faithful(want, target.Elem()); d != "" {
			return "stored value is not faithful: " + d
		}
	case exIfOKFaithful:
		if err == nil {
			if d := faithful(want, target.Elem()); d != "" {
				return "no error but the stored value is not faithful: " + d
			}
		}
	case exMustBeNilOrOK:
		if err != nil {
			return "typed null returned an error: " + err.Error()
		}
		if d := faithful(want, target.Elem()); d != "" {
			return d
		}
	}
	return ""
}

func runC17(c *Ctx) {
	c17FailingSource(c)
	var names []string
	for n := range unTargets {
		names = append(names, n)
	}
	sortStrings(names)
	type cell struct{ vi, ti int }
	var cells []cell
	for vi := range unValues {
		for ti := range names {
			cells = append(cells, cell{vi, ti})
		}
	}
	c.Parallel(len(cells), func(w, i int) {
		ce := cells[i]
		for _, bin := range []bool{false, true} {
			for _, via := range []string{"Unmarshal", "UnmarshalString", "Decoder.DecodeTo"} {
				if bin && via == "UnmarshalString" {
					continue
				}
				k := UnCase{Text: unValues[ce.vi], Target: names[ce.ti], Binary: bin, Via: via}
				c.Eval(1)
				c.NonTrivial(fmt.Sprintf("%s|%s|%v|%s", k.Text, k.Target, bin, via))
				if v := runUnCase(k); v != "" {
					cls := v
					if j := strings.Index(cls, ": "); j > 0 {
						cls = cls[:j]
					}
					if strings.HasPrefix(v, "panic") {
						cls = Class(v)
					}
					vals, _ := reftext.Parse(k.Text, nil)
					kind := "?"
					if len(vals) == 1 {
						kind = vals[0].Kind.String()
						if vals[0].IsNull {
							kind = "null." + kind
						}
						if len(vals[0].Ann) > 0 {
							kind = "annotated " + kind
						}
					}
					c.Violate("unmarshal-matrix", kind+"->"+k.Target+":"+cls, fmt.Sprintf("%s of %q (binary=%v) into %s :: %s", via, k.Text, bin, k.Target, v), k, nil)
				}
			}
		}
	})
	c.Obs("matrix_values", int64(len(unValues)))
	c.Obs("matrix_targets", int64(len(names)))
	c.Exhaustive(fmt.Sprintf("%d Ion values (every type, every typed null, ints at every target-width boundary, float32 boundaries, symbols with/without text, lobs, containers, annotated variants) x %d target types x {text, binary} x {Unmarshal, UnmarshalString, Decoder.DecodeTo}", len(unValues), len(names)))
	// Decoder over n values yields exactly those n, in order, then ErrNoInput (repeatedly)
	streams := []string{"", "1", "1 2 3", "a \"b\" [1] {x:1} null", "null null.int null", "1 $ion_symbol_table::{symbols:[\"s\"]} $10 2",
		"{{\"abcdefgh\"}} {{QUJDRA==}} 31354 {{AQID}} \"zzzzzzzz\" {{BAUG}}", "[{{AQID}},{{BAUG}}] {k:{{qrvM3Q==}},n:258} 1.5e0"}
	for _, s := range streams {
		for _, bin := range []bool{false, true} {
			c.Eval(1)
			verdict := func() (verdict string) {
				defer func() {
					if rec := recover(); rec != nil {
						verdict = "panic: " + ionx.PanicSite(rec)
					}
				}()
				vals, err := reftext.Parse(s, nil)
				if err != nil {
					return ""
				}
				data := []byte(s)
				if bin {
					if len(vals) == 0 {
						data = append([]byte{}, refbin.IVM...)
					} else {
						enc, err := refbin.Encode(vals, nil)
						if err != nil {
							return ""
						}
						data = enc.Bytes
					}
				}
				d := ion.NewDecoder(ion.NewReader(bytes.NewReader(data)))
				// decode everything first, compare afterwards: a value must not change when later ones are read
				xs := make([]interface{}, len(vals))
				for i := range vals {
					if err := d.DecodeTo(&xs[i]); err != nil {
						return fmt.Sprintf("value %d of %d: %v", i, len(vals), err)
					}
				}
				for i := range vals {
					if df := faithful(vals[i], reflect.ValueOf(&xs[i]).Elem()); df != "" {
						return fmt.Sprintf("value %d of %d (compared after the whole stream was decoded): %s", i, len(vals), df)
					}
				}
				for rep := 0; rep < 3; rep++ {
					var x interface{}
					if err := d.DecodeTo(&x); err != ion.ErrNoInput {
						return fmt.Sprintf("after the last value DecodeTo returned %v (call %d), want ErrNoInput", err, rep)
					}
					if _, err := d.Decode(); err != ion.ErrNoInput {
						return fmt.Sprintf("after the last value Decode returned %v, want ErrNoInput", err)
					}
				}
				return ""
			}()
			if verdict != "" {
				c.Violate("decoder-stream", Class(verdict), fmt.Sprintf("stream %q binary=%v :: %s", s, bin, verdict), UnCase{Text: s, Binary: bin, Via: "stream"}, nil)
			}
		}
	}
	// one target filled again and again: what it holds after each call is the current value only
	// (annotation wrappers and scalars; structs and maps may legitimately keep fields a later value lacks)
	reuse := []struct {
		stream string
		target reflect.Type
	}{
		{"a::1 2 b::c::3 4 d::5 6", reflect.TypeOf(wrapInt{})},
		{"a::1 2 b::c::\"s\" [1] x::null 4", reflect.TypeOf(wrapAny{})},
		{"a::\"x\" \"y\" b::c::\"z\" \"w\"", reflect.TypeOf(wrapStr{})},
		{"[a::1, 2, b::3] [4, 5] [c::6]", reflect.TypeOf([]wrapInt(nil))},
		{"{w:a::1} {w:2} {w:b::3,w:4}", reflect.TypeOf(struct {
			W wrapInt `ion:"w"`
		}{})},
		{"1 2 3", reflect.TypeOf(int(0))}, {"\"a\" \"\" \"b\"", reflect.TypeOf("")}, {"[1,2,3] [4] [] [5,6]", reflect.TypeOf([]int(nil))},
		{"{{AQID}} {{}} {{BA==}}", reflect.TypeOf([]byte(nil))}, {"1 null 2", reflect.TypeOf(new(int))},
	}
	for _, ru := range reuse {
		for _, bin := range []bool{false, true} {
			c.Eval(1)
			c.NonTrivial(fmt.Sprintf("reuse|%s|%v|%v", ru.stream, ru.target, bin))
			verdict := func() (verdict string) {
				defer func() {
					if rec := recover(); rec != nil {
						verdict = "panic: " + ionx.PanicSite(rec)
					}
				}()
				vals, err := reftext.Parse(ru.stream, nil)
				if err != nil {
					return ""
				}
				data := []byte(ru.stream)
				if bin {
					enc, err := refbin.Encode(vals, nil)
					if err != nil {
						return ""
					}
					data = enc.Bytes
				}
				d := ion.NewDecoder(ion.NewReader(bytes.NewReader(data)))
				target := reflect.New(ru.target)
				for i := range vals {
					if err := d.DecodeTo(target.Interface()); err != nil {
						return fmt.Sprintf("value %d: %v", i, err)
					}
					fresh := reflect.New(ru.target)
					one, err := reftext.Print(vals[i:i+1], nil)
					if err != nil {
						return ""
					}
					if err := ion.Unmarshal([]byte(one), fresh.Interface()); err != nil {
						return ""
					}
					if df := equalGo(fresh.Elem(), target.Elem(), "target", true); df != "" {
						return fmt.Sprintf("after value %d (%s) the re-used target differs from a fresh one: %s", i, model.Fmt(vals[i]), df)
					}
				}
				return ""
			}()
			if verdict != "" {
				c.Violate("reused-target", ru.target.String()+":"+Class(verdict), fmt.Sprintf("stream %q binary=%v target=%v :: %s", ru.stream, bin, ru.target, verdict), UnCase{Text: ru.stream, Binary: bin, Via: "reused-target", Target: ru.target.String()}, nil)
			}
		}
	}
	// structured targets: a random Go value's Ion image, spelled by the reference producers (fields
	// in another order, any legal spelling/encoding), unmarshalled into a fresh value of that type
	ng := c.N(2500, 80000)
	c.Parallel(ng, func(w, i int) {
		cs := c.Seed*17_000_023 + int64(i)
		r := rand.New(rand.NewSource(cs))
		var t reflect.Type
		if i%2 == 0 {
			t = staticTypes[i/2%len(staticTypes)]
		} else {
			t = genType(r, 3)
		}
		v := reflect.New(t).Elem()
		fillValue(r, v, 3, false)
		for _, bin := range []bool{false, true} {
			verdict, shown := func() (verdict, shown string) {
				defer func() {
					if rec := recover(); rec != nil {
						verdict = "panic: " + ionx.PanicSite(rec)
					}
				}()
				image, ok := imageOf(v, "", !bin)
				if !ok || !gen.TopLevelOK(image) {
					return "", ""
				}
				image = image.Clone()
				model.Walk([]*model.Value{image}, func(n *model.Value, _ int) {
					if n.Kind == model.Struct && len(n.Kids) > 1 {
						r.Shuffle(len(n.Kids), func(a, b int) { n.Kids[a], n.Kids[b] = n.Kids[b], n.Kids[a] })
					}
				})
				rk := ReadCase{CaseSeed: cs, Binary: bin, P: 0.2, Vals: []*model.Value{image}}
				data, unordered, _, err := rk.render()
				if err != nil || rk.selfCheck(data, unordered) != "" {
					return "", ""
				}
				shown = showInput(bin, data)
				c.Eval(1)
				back := reflect.New(t)
				if err := ion.Unmarshal(data, back.Interface()); err != nil {
					return "Unmarshal of the value's own Ion image failed: " + err.Error(), shown
				}
				// an interface{} may come back with another dynamic type for the same data (a padded
				// binary int arrives as *big.Int)
				normIfaceInts(back.Elem())
				if d := equalGo(v, back.Elem(), "v", false); d != "" {
					return "Unmarshal of the value's own Ion image stored something else: " + d, shown
				}
				if t.Kind() == reflect.Struct || t.Kind() == reflect.Slice || t.Kind() == reflect.Map || t.Kind() == reflect.Ptr {
					c.NonTrivial(fmt.Sprintf("img|%v|%s", bin, shown))
				}
				return "", shown
			}()
			if verdict != "" {
				fam := "text"
				if bin {
					fam = "binary"
				}
				c.Violate("image-into-type", fam+":"+kindShape(t, 0)+":"+Class(verdict), fmt.Sprintf("type=%s value=%s input=%s :: %s", trunc200(t.String()), trunc200(fmt.Sprintf("%+v", v.Interface())), shown, verdict),
					map[string]interface{}{"case_seed": cs, "index": i, "binary": bin, "go_type": trunc200(t.String()), "input": shown}, nil)
			}
		}
	})
	c.Sample(map[string]interface{}{"cell": "Unmarshal(\"-129\", *int8) must be an error; Unmarshal(\"ann::1\", *wrapInt) must give {1 [ann]}"})
	c.Sample(map[string]interface{}{"values": unValues[:20], "targets": names[:20]})
	_ = time.Now
	_ = big.NewInt
}

func init() {
	Register(&Monitor{ID: "C17", Run: func(c *Ctx) {
		c.Rule = "exhaustive matrix of Ion values x Go target types x {text, binary} x {Unmarshal, UnmarshalString, Decoder.DecodeTo}, each cell classified from the documented mapping as must-succeed-faithfully / must-error (overflow, sign, float32 overflow, symbol without text into string, type mismatch) / if-no-error-then-faithful (a float into a Decimal: the digits stored have to denote that float) / open (no panic only); the stored Go value is compared with the Ion value through its Ion image; Decoder streams must yield exactly their values and then ErrNoInput repeatedly; random Go values of random and catalogued types (deep embedding, named kinds, tags) whose Ion image is spelled by the reference producers with fields reordered and then unmarshalled into a fresh value of the type, which has to come out equal. Every cell is off-diagonal or at a boundary by construction; distinct by cell."
		c.Assume("open cells (null into non-nillable targets, lobs/lists into arrays of another length, float into Decimal, struct into a wrapper-shaped struct, the README's []string annotations field) only demand the absence of a panic")
		runC17(c)
	}, Replay: func(c *Ctx, v *Violation) string {
		var k UnCase
		if err := json.Unmarshal(v.Case, &k); err != nil {
			return "cannot decode case: " + err.Error()
		}
		if k.Via == "stream" {
			return "re-run the check: stream cases are executed as a group"
		}
		if r := runUnCase(k); r != "" {
			return "VIOLATED on replay: " + r
		}
		return "HELD on replay"
	}})
}
