package mon

import (
	"bytes"
	"math/big"
	"strings"
	"sync"

	"verifh/model"
)

var (
	navDocsOnce sync.Once
	navDocs     [][]*model.Value
)

// navDirectedDocs are documents whose skipped regions are large (beyond the readers' buffers and
// any "big skip" threshold) or deeply nested with siblings, so that skipping, leaving early and
// reading have to agree on where such a region ends while the caller keeps navigating around it.
func navDirectedDocs() [][]*model.Value {
	navDocsOnce.Do(func() {
		blob := func(n int) *model.Value { return model.BlobV(bytes.Repeat([]byte{0xAB, 0x01}, n/2)) }
		str := func(n int) *model.Value { return model.StrV(strings.Repeat("s'\"\\ {[(", n/8)) }
		clob := func(n int) *model.Value { return model.ClobV(bytes.Repeat([]byte("c}]'\""), n/5)) }
		ints := func(n int) *model.Value {
			l := model.ListV()
			for i := 0; i < n; i++ {
				l.Kids = append(l.Kids, model.Int64V(int64(i)))
			}
			return l
		}
		f := func(name string, v *model.Value) *model.Value { return v.WithField(model.T(name)) }
		for _, n := range []int{3000, 70000, 140000} {
			navDocs = append(navDocs,
				[]*model.Value{model.ListV(model.ListV(blob(n)), model.Int64V(7)), model.Int64V(8)},
				[]*model.Value{model.StructV(f("a", model.ListV(str(n), model.ListV(model.Int64V(1)))), f("b", model.Int64V(2))), model.Int64V(3)},
				[]*model.Value{model.SexpV(model.SexpV(model.ListV(clob(n), model.Int64V(1)), model.Int64V(2)), model.Int64V(3)), model.SymV(model.T("end"))},
				[]*model.Value{model.ListV(model.StructV(f("big", ints(n/40)), f("next", model.StrV("x"))), model.ListV(ints(n/80)).WithAnn(model.T("ann")), model.Int64V(9)), model.Int64V(10)},
			)
		}
		navDocs = append(navDocs, deepSiblingStreams()...)
		// the same written characters as a symbol-id reference and as plain text (`$4` vs "$4") in
		// structs that are entered or skipped in every combination
		for rep := 0; rep < 24; rep++ {
			navDocs = append(navDocs,
				[]*model.Value{model.StructV(f("name", model.Int64V(1))), model.StructV(f("$4", model.Int64V(2))), model.StructV(f("name", model.Int64V(3)), f("$4", model.Int64V(4)))},
				[]*model.Value{model.StructV(f("$4", model.Int64V(1))), model.StructV(f("name", model.Int64V(2))), model.SymV(model.T("$4")), model.SymV(model.T("name"))},
				[]*model.Value{model.StructV(f("symbols", model.Int64V(1)), f("$7", model.Int64V(2))), model.ListV(model.StructV(f("$7", model.SymV(model.T("$7")))), model.StructV(f("symbols", model.SymV(model.T("symbols")))))},
			)
		}
		// integers at the edges of the widths IntSize names, read with the accessors in several orders
		for rep := 0; rep < 8; rep++ {
			var edge []*model.Value
			for _, k := range []uint{7, 8, 15, 16, 31, 32, 63, 64} {
				for _, d := range []int64{-1, 0, 1} {
					p := new(big.Int).Lsh(big.NewInt(1), k)
					p.Add(p, big.NewInt(d))
					edge = append(edge, model.IntV(p), model.IntV(new(big.Int).Neg(p)))
				}
			}
			navDocs = append(navDocs, edge, []*model.Value{model.ListV(model.CloneAll(edge[20:40])...), model.StructV(f("min32", model.Int64V(-2147483648)), f("min64", model.Int64V(-9223372036854775808)))})
		}
		// quote and backslash runs inside text that a skip has to scan without decoding (repeated:
		// every copy is spelled differently)
		for rep := 0; rep < 16; rep++ {
			for _, t := range []string{"don't\n", "x'y\\z", "''a'\\", "'a''b'''c", "it's 'q' \"x\" \\'", "'\n'\t'", "a'b'c'd\\e'f"} {
				navDocs = append(navDocs,
					[]*model.Value{model.StructV(f("a", model.ListV(model.StrV(t))), f("b", model.Int64V(2))), model.Int64V(3)},
					[]*model.Value{model.SexpV(model.ClobV([]byte(t)), model.SymV(model.T(t)), model.ListV(model.StrV(t), model.StrV(t))), model.StrV(t)},
				)
			}
		}
	})
	return navDocs
}

// navLiteralDocs are text documents given verbatim: the same characters as an id reference and as
// text in field names and values, tables declared between structs, comments and long strings glued
// to container ends.
var navLiteralDocs = []string{
	`{$4: 1} {"$4": 2}`,
	`{"$4": 1} {$4: 2}`,
	`{'$4': 1} {$4: 2} {'''$4''': 3} {$4: 4, "$4": 5, '$4': 6}`,
	`{$4: 1} [{"$4": 2}, {$4: 3}] ({'$4': 4} {$4: 5})`,
	`$ion_symbol_table::{symbols:["a","b"]} {$10: 1} {"$10": 2} {$10: 3, '$10': 4} {a: 5}`,
	`$ion_symbol_table::{symbols:["a"]} {$10: 1} $ion_symbol_table::{symbols:["b"]} {$10: 2} {"$10": 3} {$10: 4}`,
	`{$4: $4, "$4": '$4'} {$4: "$4"} ($4 '$4' "$4") [$4, '$4']`,
	`{a: $7::1} {a: '$7'::2} {a: symbols::3} ['$7'::$7, $7::'$7']`,
	`[[1, 2]/* c */, 3]/* d */ [4]// e
 5`,
	`{a: '''x''' /* c */ '''y''', b: [ '''p''' '''q''' ], c: ('''r''' '''s''' t)} '''u''' '''v'''`,
}
