package mon

import (
	"bytes"
	"encoding/hex"
	"encoding/json"
	"fmt"
	"math/rand"
	"reflect"
	"strings"

	"github.com/amzn/ion-go/ion"

	"verifh/ionx"
	"verifh/model"
	"verifh/refbin"
	"verifh/refsym"
	"verifh/reftext"
)

// CtxCase is a replayable symbol-context history rendered as a document.
type CtxCase struct {
	Binary    bool        `json:"binary"`
	InputHex  string      `json:"input_hex"`
	Shown     string      `json:"input_shown"`
	Catalog   []SymImport `json:"catalog"`
	NoCatalog bool        `json:"no_catalog"`
	History   []string    `json:"history"`
	// UserCatalog: the catalog handed to the readers is a type defined by the caller
	UserCatalog bool `json:"user_catalog_type,omitempty"`
}

func (k *CtxCase) catalogs() (refsym.Catalog, ion.Catalog) {
	if k.NoCatalog {
		return nil, nil
	}
	var rc refsym.Catalog
	var ssts []ion.SharedSymbolTable
	for _, t := range k.Catalog {
		rc = append(rc, &refsym.Shared{Name: t.Name, Version: t.Version, Slots: slotsOf(t.Symbols)})
		ssts = append(ssts, ion.NewSharedSymbolTable(t.Name, t.Version, t.Symbols))
	}
	if k.UserCatalog {
		// a catalog type of the caller's own (Catalog is an interface)
		return rc, userCatalog{ion.NewCatalog(ssts...)}
	}
	return rc, ion.NewCatalog(ssts...)
}

// userCatalog delegates to the library's catalog but is a type of its own.
type userCatalog struct{ inner ion.Catalog }

func (u userCatalog) FindExact(name string, version int) ion.SharedSymbolTable {
	return u.inner.FindExact(name, version)
}
func (u userCatalog) FindLatest(name string) ion.SharedSymbolTable { return u.inner.FindLatest(name) }

// runCtxCase compares ion-go with the reference on the document; "" when the property holds.
func runCtxCase(k *CtxCase) (verdict string) {
	defer func() {
		if rec := recover(); rec != nil {
			verdict = "panic: " + ionx.PanicSite(rec)
		}
	}()
	data, _ := hex.DecodeString(k.InputHex)
	rc, ic := k.catalogs()
	// reference: values and the context in force at each value
	var ctxs []*refsym.Context
	cur := refsym.System()
	pending := map[int]*refsym.Context{}
	on := func(c *refsym.Context, after int) { pending[after] = c }
	var want []*model.Value
	var werr error
	if k.Binary {
		want, werr = refbin.Decode(data, &refbin.DecodeOpts{Catalog: rc, OnContext: on})
	} else {
		want, werr = reftext.Parse(string(data), &reftext.ParseOpts{Catalog: rc, OnContext: on})
	}
	for i := 0; i <= len(want); i++ {
		if c, ok := pending[i]; ok {
			cur = c
		}
		ctxs = append(ctxs, cur)
	}
	// pass 1: values
	obs := ionx.Observe(ion.NewReaderCat(strings.NewReader(string(data)), ic))
	if obs.Panic != "" {
		return "panic: " + obs.Panic
	}
	if werr != nil {
		if !obs.Failed() {
			return fmt.Sprintf("the reference rejects the stream (%v) but ion-go read it without error: %s", werr, trunc200(model.FmtAll(obs.Vals)))
		}
		// values before the failure must agree
		n := len(obs.Vals)
		if n > len(want) {
			return fmt.Sprintf("ion-go returned %d values before failing, the reference %d", n, len(want))
		}
		// a partially read last value (container) is not compared
		if n > 0 {
			n--
		}
		if d := model.Diff(want[:n], obs.Vals[:n]); d != "" {
			return "values before the failure differ: " + d
		}
		return ""
	}
	if obs.Failed() {
		return "reader error on a valid history: " + obs.ErrString()
	}
	if d := model.Diff(want, obs.Vals); d != "" {
		return "resolved values differ: " + d
	}
	for _, v := range obs.Vals {
		if refsym.IsLST(v) {
			return "a symbol table struct surfaced as a user value: " + trunc200(model.Fmt(v))
		}
	}
	// pass 2: the table reported after each user value
	r := ion.NewReaderCat(strings.NewReader(string(data)), ic)
	for i := 0; r.Next(); i++ {
		if i >= len(want) {
			return "more top-level values than the reference"
		}
		st := r.SymbolTable()
		if st == nil {
			return fmt.Sprintf("SymbolTable() is nil at value %d", i)
		}
		if v := compareTable(st, ctxs[i], nil, false); v != "" {
			return fmt.Sprintf("SymbolTable() at value %d: %s", i, v)
		}
	}
	if r.Err() != nil {
		return "second pass failed: " + r.Err().Error()
	}
	// pass 3: every way in that takes a catalog resolves alike (System's readers and Unmarshal entry points)
	sys := ion.System{Catalog: ic}
	for name, rd := range map[string]ion.Reader{
		"System.NewReader":       sys.NewReader(bytes.NewReader(data)),
		"System.NewReaderBytes":  sys.NewReaderBytes(data),
		"System.NewReaderString": sys.NewReaderString(string(data)),
	} {
		o2 := ionx.Observe(rd)
		if o2.Failed() {
			return name + " fails on a history NewReaderCat reads: " + o2.ErrString()
		}
		if d := model.Diff(want, o2.Vals); d != "" {
			return name + " resolves differently from NewReaderCat: " + d
		}
	}
	if len(want) > 0 {
		decode := func(f func(v interface{}) error) (img *model.Value, err error, pan string) {
			defer func() {
				if rec := recover(); rec != nil {
					pan = ionx.PanicSite(rec)
				}
			}()
			var x interface{}
			err = f(&x)
			if err == nil {
				img, _ = imageOf(reflect.ValueOf(&x).Elem(), "", true)
			}
			return
		}
		baseImg, baseErr, pan := decode(func(v interface{}) error {
			return ion.NewDecoder(ion.NewReaderCat(bytes.NewReader(data), ic)).DecodeTo(v)
		})
		if pan != "" {
			return "panic: " + pan
		}
		for name, f := range map[string]func(v interface{}) error{
			"System.Unmarshal":       func(v interface{}) error { return sys.Unmarshal(data, v) },
			"System.UnmarshalString": func(v interface{}) error { return sys.UnmarshalString(string(data), v) },
		} {
			img, err, pan := decode(f)
			if pan != "" {
				return name + " panic: " + pan
			}
			if (err == nil) != (baseErr == nil) {
				return fmt.Sprintf("%s returned %v where a Decoder over NewReaderCat returned %v", name, err, baseErr)
			}
			if err == nil && baseImg != nil && img != nil {
				if d := model.DiffOpt([]*model.Value{baseImg}, []*model.Value{img}, model.EqOpts{UnorderedStructs: true}); d != "" {
					return name + " decodes the first value differently from a Decoder over NewReaderCat: " + d
				}
			}
		}
	}
	return ""
}

type histGen struct {
	r       *rand.Rand
	ctx     *refsym.Context
	cat     refsym.Catalog
	hist    []string
	changes int
	after   int // symbols resolved after the last context change
	nloc    int
	// wantAppend: the next table appends (set after a table with a long import list)
	wantAppend bool
}

var catalogPool = []SymImport{
	{Name: "A", Version: 1, Symbols: []string{"a1", "a2", "a3"}},
	{Name: "A", Version: 2, Symbols: []string{"a1", "a2", "a3", "a4", "a5"}},
	{Name: "A", Version: 3, Symbols: []string{"a1", "x2", "a3", "a4", "a5", "a6"}},
	{Name: "B", Version: 1, Symbols: []string{"b1", "b2"}},
	{Name: "B", Version: 2, Symbols: []string{"b1", "b2", "a1"}},
	// versions with different digit counts: "latest" is numeric, not lexicographic or by insertion order
	{Name: "D", Version: 9, Symbols: []string{"d1", "d2_v9"}},
	{Name: "D", Version: 100, Symbols: []string{"d1", "d2_v100", "d3_v100", "d4_v100"}},
	{Name: "D", Version: 10, Symbols: []string{"d1", "d2_v10", "d3_v10"}},
	{Name: "D", Version: 2, Symbols: []string{"d1"}},
	// names ending in digits: (name, version) pairs whose concatenations coincide
	{Name: "T1", Version: 11, Symbols: []string{"t1_11_a", "t1_11_b", "t1_11_c"}},
	{Name: "T11", Version: 1, Symbols: []string{"t11_1_x", "t11_1_y"}},
	{Name: "T1", Version: 1, Symbols: []string{"t1_1_only"}},
	{Name: "T", Version: 111, Symbols: []string{"t_111_p", "t_111_q", "t_111_r", "t_111_s"}},
}

func (h *histGen) lstSpec() (refsym.LSTSpec, string) {
	r := h.r
	var spec refsym.LSTSpec
	desc := "replace"
	if r.Intn(3) == 0 || h.wantAppend {
		spec.Append = true
		desc = "append"
		h.wantAppend = false
	} else {
		ni := r.Intn(3)
		if r.Intn(12) == 0 {
			// a long import list (more entries than any plausible small-list fast path or chain
			// limit), usually appended to by the next table
			ni = 30 + r.Intn(12)
			h.wantAppend = r.Intn(4) > 0
		}
		for j := 0; j < ni; j++ {
			if j >= 28 && r.Intn(2) == 0 {
				// a table the catalog does not have, late in the list: its declared size still counts
				imp := refsym.Import{Name: "C", Version: 1 + r.Intn(2), MaxID: int64(1 + r.Intn(6))}
				spec.Imports = append(spec.Imports, imp)
				desc += fmt.Sprintf(" import(%s,v%d,max %d)", imp.Name, imp.Version, imp.MaxID)
				continue
			}
			name := []string{"A", "B", "C", "$ion", ""}[r.Intn(5)]
			if r.Intn(3) > 0 {
				name = []string{"A", "B"}[r.Intn(2)]
			}
			imp := refsym.Import{Name: name, Version: r.Intn(4), MaxID: -1}
			if r.Intn(5) == 0 {
				imp.Name = "D"
				imp.Version = []int{1, 2, 3, 9, 10, 11, 99, 100, 101, 1000}[r.Intn(10)]
			} else if r.Intn(6) == 0 {
				pick := [][2]interface{}{{"T1", 11}, {"T11", 1}, {"T1", 1}, {"T", 111}, {"T1", 2}, {"T11", 2}, {"T", 11}}[r.Intn(7)]
				imp.Name, imp.Version = pick[0].(string), pick[1].(int)
			}
			if r.Intn(6) == 0 {
				imp.Version = -1
			}
			switch r.Intn(5) {
			case 0: // absent
			case 1:
				imp.MaxID = int64(r.Intn(3))
			default:
				imp.MaxID = int64(r.Intn(8))
				if r.Intn(12) == 0 {
					// declared sizes beyond 32 bits only reserve ids
					imp.MaxID = []int64{1<<31 - 1, 1 << 31, 1<<31 + 7, 1 << 32, 1<<40 + 3}[r.Intn(5)]
				}
			}
			spec.Imports = append(spec.Imports, imp)
			desc += fmt.Sprintf(" import(%s,v%d,max %d)", imp.Name, imp.Version, imp.MaxID)
		}
	}
	nl := r.Intn(4)
	for j := 0; j < nl; j++ {
		switch r.Intn(8) {
		case 1:
			spec.Symbols = append(spec.Symbols, refsym.Slot{Text: []string{"a1", "b2", "name", "$ion_symbol_table"}[r.Intn(4)], Known: true})
		default:
			h.nloc++
			spec.Symbols = append(spec.Symbols, refsym.Slot{Text: fmt.Sprintf("l%d", h.nloc), Known: true})
		}
	}
	desc += fmt.Sprintf(" locals=%d", len(spec.Symbols))
	return spec, desc
}

// values referencing ids at the region boundaries of the current context.
func (h *histGen) values() []*model.Value {
	r := h.r
	max := h.ctx.MaxID()
	var ids []uint64
	off := uint64(0)
	for _, s := range h.ctx.Segs {
		if s.N > 0 {
			ids = append(ids, off+1, off+s.N)
		}
		off += s.N
	}
	ids = append(ids, 0, 9, max)
	var out []*model.Value
	n := 1 + r.Intn(3)
	for j := 0; j < n; j++ {
		id := ids[r.Intn(len(ids))]
		if r.Intn(3) == 0 && max > 0 {
			id = uint64(r.Int63n(int64(max) + 1))
		}
		if id > max {
			id = max
		}
		s := model.SID(int64(id))
		var v *model.Value
		switch r.Intn(4) {
		case 0:
			v = model.SymV(s)
		case 1:
			v = model.StructV(model.Int64V(int64(j)).WithField(s))
		case 2:
			v = model.Int64V(int64(j)).WithAnn(s)
		default:
			v = model.ListV(model.SymV(s), model.SymV(model.SID(int64(max))).WithAnn(s))
		}
		// a top-level struct whose first annotation resolves to $ion_symbol_table would be a table
		if slot, _ := h.ctx.Lookup(id); slot.Known && (slot.Text == "$ion_symbol_table" || slot.Text == "$ion_1_0") {
			v = model.ListV(model.SymV(s))
		}
		out = append(out, v)
		h.after++
	}
	if r.Intn(4) == 0 {
		// by text as well
		if ids := h.ctx.Segs[len(h.ctx.Segs)-1]; len(ids.Slots) > 0 && ids.Slots[0].Known && ids.Slots[0].Text != "$ion_symbol_table" {
			out = append(out, model.SymV(model.T(ids.Slots[0].Text)))
		}
	}
	return out
}

func runC10(c *Ctx) {
	runC10Decoder(c)
	n := c.N(16000, 300000)
	c.Parallel(n, func(w, i int) {
		cs := c.Seed*10_000_019 + int64(i)
		r := rand.New(rand.NewSource(cs))
		k := CtxCase{Binary: i%2 == 1, UserCatalog: i%3 == 2}
		// catalog variant
		switch r.Intn(6) {
		case 0:
			k.NoCatalog = true
		case 1: // empty catalog
		case 2:
			k.Catalog = append(k.Catalog, catalogPool[0], catalogPool[3])
		case 3:
			k.Catalog = append(k.Catalog, catalogPool[1], catalogPool[4])
		case 4:
			k.Catalog = append(k.Catalog, catalogPool[2])
		default:
			k.Catalog = append(k.Catalog, catalogPool...)
			r.Shuffle(len(k.Catalog), func(a, b int) { k.Catalog[a], k.Catalog[b] = k.Catalog[b], k.Catalog[a] })
		}
		rc, _ := k.catalogs()
		h := &histGen{r: r, ctx: refsym.System(), cat: rc}
		var enc *refbin.Encoder
		var prn *reftext.Printer
		if k.Binary {
			enc = refbin.NewEncoder(newChoice(cs, 0.1), rc)
		} else {
			prn = reftext.NewPrinter(newChoice(cs, 0.15))
			prn.Cat = rc
		}
		wantErr := false
		nseg := 1 + r.Intn(8)
		for s := 0; s < nseg && !wantErr; s++ {
			switch ev := r.Intn(10); {
			case ev == 0 && s > 0 && (k.Binary || true):
				h.hist = append(h.hist, "ivm")
				if k.Binary {
					enc.AppendIVM()
				} else {
					prn.AppendIVM()
				}
				h.ctx = refsym.System()
				h.changes++
				h.after = 0
			case ev <= 6:
				spec, desc := h.lstSpec()
				nc, err := refsym.Apply(h.ctx, rc, spec)
				h.hist = append(h.hist, desc)
				if k.Binary {
					old := enc.Ctx
					enc.AppendLST(spec, nil)
					if err != nil {
						enc.Err = nil
						enc.Ctx = old
					}
				} else {
					old := prn.Ctx
					prn.AppendLST(spec)
					if err != nil {
						prn.Err = nil
						prn.Ctx = old
					}
				}
				if err != nil {
					wantErr = true
					h.hist = append(h.hist, "(import without usable max_id and without exact match: must fail)")
					break
				}
				h.ctx = nc
				h.changes++
				h.after = 0
			}
			if wantErr {
				break
			}
			vals := h.values()
			for _, v := range vals {
				h.hist = append(h.hist, "value "+model.Fmt(v))
				if k.Binary {
					enc.AppendValue(v)
				} else {
					prn.AppendValue(v)
				}
			}
			// one past the end must be an error: at most once, as the last thing
			if s == nseg-1 && r.Intn(5) == 0 {
				bad := model.SymV(model.SID(int64(h.ctx.MaxID() + 1)))
				h.hist = append(h.hist, "value "+model.Fmt(bad)+" (beyond max id: must fail)")
				if k.Binary {
					ctx := enc.Ctx
					enc.Ctx = &refsym.Context{Segs: append(append([]refsym.Segment{}, ctx.Segs...), refsym.Segment{N: 5})}
					enc.AppendValue(bad)
					enc.Ctx = ctx
				} else {
					ctx := prn.Ctx
					prn.Ctx = &refsym.Context{Segs: append(append([]refsym.Segment{}, ctx.Segs...), refsym.Segment{N: 5})}
					prn.AppendValue(bad)
					prn.Ctx = ctx
				}
				wantErr = true
			}
		}
		var data []byte
		if k.Binary {
			if enc.Err != nil {
				c.Obs("harness_render_failed", 1)
				return
			}
			data = enc.Out
		} else {
			if prn.Err != nil {
				c.Obs("harness_render_failed", 1)
				return
			}
			data = []byte(prn.B.String() + " ")
		}
		k.InputHex = hex.EncodeToString(data)
		k.Shown = showInput(k.Binary, data)
		k.History = h.hist
		c.Eval(1)
		c.JournalCase(w, fmt.Sprintf("ctx case_seed=%d", cs))
		if h.changes >= 2 && h.after >= 1 {
			c.NonTrivial(k.InputHex)
		}
		if wantErr {
			c.Obs("histories_that_must_fail", 1)
		}
		c.Obs("context_changes", int64(h.changes))
		if v := runCtxCase(&k); v != "" {
			fam := "text"
			if k.Binary {
				fam = "binary"
			}
			catk := "catalog"
			if k.NoCatalog {
				catk = "nil-catalog"
			}
			cls := v
			if j := strings.Index(cls, ": "); j > 0 && j < 60 {
				cls = cls[:j] + ": " + Class(cls[j+2:])
			}
			if len(cls) > 160 {
				cls = cls[:160]
			}
			c.Violate("symbol-context", fam+":"+catk+":"+Class(cls), fmt.Sprintf("history=%v input=%s :: %s", h.hist, k.Shown, v), k, nil)
		}
		if i < 3 {
			c.Sample(map[string]interface{}{"history": h.hist, "input": k.Shown})
		}
	})
	// directed: a symbol table struct whose own content (open-content field names, fields of its
	// import structs, ignored values) uses local ids of the table in force before it. Those resolve
	// against the outgoing table; everything after the struct against the new one.
	ivm := []byte{0xE0, 0x01, 0x00, 0xEA}
	cat := func(parts ...[]byte) []byte {
		var b []byte
		for _, p := range parts {
			b = append(b, p...)
		}
		return b
	}
	lst1 := binLST(binField(7, tlvBytes(0xB, binStr("meta"), binStr("x"), binStr("y"))))
	user := tlvBytes(0xD, binField(10, binInt(1)), binField(11, binInt(2)), binField(12, binSym(10)))
	syms2 := binField(7, tlvBytes(0xB, binStr("alpha"), binStr("beta"), binStr("gamma")))
	directed := [][]byte{
		cat(ivm, lst1, user, binLST(binField(10, binInt(7)), syms2), user),
		cat(ivm, lst1, binLST(binField(10, binInt(7)), syms2), user),
		cat(ivm, lst1, user, binLST(syms2, binField(11, tlvBytes(0xD, binField(12, binSym(11))))), user, user),
		cat(ivm, lst1, binLST(binField(6, tlvBytes(0xB, tlvBytes(0xD, binField(4, binStr("absent")), binField(5, binInt(1)), binField(8, binInt(0)), binField(10, binSym(12))))), syms2), user),
		cat(ivm, lst1, user, binLST(binField(10, binInt(7)), binField(6, binSym(3)), binField(7, tlvBytes(0xB, binStr("appended")))), user, tlvBytes(0xD, binField(13, binInt(3)))),
		[]byte("$ion_symbol_table::{symbols:[\"meta\",\"x\",\"y\"]} {$10:1,$11:2,$12:$10} $ion_symbol_table::{$10:7,symbols:[\"alpha\",\"beta\",\"gamma\"]} {$10:1,$11:2,$12:$10}"),
		[]byte("$ion_symbol_table::{symbols:[\"meta\",\"x\",\"y\"]} $ion_symbol_table::{symbols:[\"alpha\",\"beta\",\"gamma\"],$11:{$12:$11}} {$10:1,$11:2,$12:$10} $12"),
	}
	for di, data := range directed {
		k := CtxCase{Binary: len(data) > 4 && data[0] == 0xE0, InputHex: hex.EncodeToString(data), NoCatalog: di%2 == 0}
		k.Shown = showInput(k.Binary, data)
		c.Eval(1)
		c.NonTrivial(k.InputHex)
		if v := runCtxCase(&k); v != "" {
			c.Violate("symbol-context-directed", Class(v), fmt.Sprintf("input=%s :: %s", k.Shown, v), k, nil)
		}
	}
}

func init() {
	Register(&Monitor{ID: "C10", Run: func(c *Ctx) {
		c.Rule = "stream histories of 1..8 segments (version marker, replacing table with 0..2 imports - one time in twelve 30..41, with tables the catalog lacks late in the list and an appending table next - and declared max_id absent/=/</>, appending table, locals with gaps and duplicates) x 6 catalog variants (nil, empty, exact, newer only, older only, all in shuffled order; one table family with versions 2, 9, 10, 100 so that the latest version is the numerically largest) rendered in binary (symbol ids) and text ($n, $ion_1_0), with user values referencing ids at every region boundary (last system id, first/last of each import, first/last local, max id, max id + 1 must fail). Oracle: an independent evolution of the symbol context; resolved symbol/field/annotation text, Reader.SymbolTable() (MaxID and per-id text) after every user value, table structs never surfacing, import errors. Also streams of small structs whose field names change ids from table to table (replaced, reordered, appended, after a version marker), decoded by one Decoder into a struct type, a map and untyped. Non-trivial: >= 2 context changes and >= 1 symbol resolved after the last; distinct by rendered document."
		c.Assume("gap slots and duplicate imports/symbols fields are outside the strict oracle (they are C06 robustness inputs)")
		runC10(c)
	}, Replay: func(c *Ctx, v *Violation) string {
		var k CtxCase
		if err := json.Unmarshal(v.Case, &k); err != nil {
			return "cannot decode case: " + err.Error()
		}
		if r := runCtxCase(&k); r != "" {
			return "VIOLATED on replay: " + r
		}
		return "HELD on replay"
	}})
}
