package mon

import (
	"encoding/hex"
	"encoding/json"
	"fmt"
	"math/big"
	"math/rand"
	"strings"

	"github.com/amzn/ion-go/ion"

	"verifh/gen"
	"verifh/ionx"
	"verifh/model"
	"verifh/refbin"
	"verifh/reftext"
)

// TSCase is a replayable timestamp case.
type TSCase struct {
	Path     string   `json:"path"`
	T        model.TS `json:"t"`
	Variant  int      `json:"variant"`
	Text     string   `json:"text,omitempty"`
	InputHex string   `json:"input_hex,omitempty"`
}

func tsOne(vals []*model.Value) (model.TS, bool) {
	if len(vals) != 1 || vals[0].Kind != model.Timestamp || vals[0].IsNull || len(vals[0].Ann) != 0 {
		return model.TS{}, false
	}
	return vals[0].T, true
}

// runTSCase returns "" when the property holds on the case.
func runTSCase(k TSCase) (verdict string) {
	defer func() {
		if rec := recover(); rec != nil {
			verdict = "panic: " + ionx.PanicSite(rec)
		}
	}()
	t := k.T
	switch k.Path {
	case "string":
		ts := ionx.ToTS(t, k.Variant)
		s := ts.String()
		vals, err := reftext.Parse(s, nil)
		got, ok := tsOne(vals)
		if err != nil || !ok {
			return fmt.Sprintf("String() = %q is not a valid Ion timestamp literal (%v)", s, err)
		}
		if got != t {
			return fmt.Sprintf("String() = %q denotes %v %+v", s, got, got)
		}
		back, err := ion.ParseTimestamp(s)
		if err != nil {
			return fmt.Sprintf("ParseTimestamp(String()) failed on %q: %v", s, err)
		}
		bt, soft := ionx.TSOf(back)
		if soft != "" {
			return fmt.Sprintf("ParseTimestamp(%q): %s", s, soft)
		}
		if bt != t {
			return fmt.Sprintf("ParseTimestamp(%q) = %v %+v", s, bt, bt)
		}
		if mp := ion.MustParseTimestamp(s); !mp.Equal(back) || mp.String() != back.String() {
			return fmt.Sprintf("MustParseTimestamp(%q) = %v differs from ParseTimestamp = %v", s, mp, back)
		}
		if t.Prec == model.PSecond && t.FracDigits > 0 {
			want := t.Nanos
			for i := t.FracDigits; i < 9; i++ {
				want /= 10
			}
			if got := back.TruncatedNanoseconds(); got != want {
				return fmt.Sprintf("TruncatedNanoseconds() of %q = %d, the fraction digits read %d", s, got, want)
			}
		}
		if !back.Equal(ts) && !(t.Prec == model.PSecond && t.FracDigits == 0) {
			// (Second vs Nanosecond-with-0-digits are the same Ion value but different enum values)
			return fmt.Sprintf("ParseTimestamp(String()) not Equal to the original for %q", s)
		}
		// the exported constructor ParseTimestamp itself goes through for minute precision and finer,
		// given the precision and offset kind the literal has
		if t.Prec >= model.PMinute {
			direct, err := ion.NewTimestampFromStr(s, back.GetPrecision(), back.GetTimezoneKind())
			if err != nil {
				return fmt.Sprintf("NewTimestampFromStr(%q, %v, %v) failed: %v", s, back.GetPrecision(), back.GetTimezoneKind(), err)
			}
			if dt, soft := ionx.TSOf(direct); soft != "" || dt != t {
				return fmt.Sprintf("NewTimestampFromStr(%q, %v, %v) = %v %+v %s", s, back.GetPrecision(), back.GetTimezoneKind(), dt, dt, soft)
			}
		}
	case "getters":
		ts := ionx.ToTS(t, k.Variant)
		bt, soft := ionx.TSOf(ts)
		if soft != "" || bt != t {
			return fmt.Sprintf("constructor/getters disagree: %v %+v %s", bt, bt, soft)
		}
	case "write-text", "write-binary":
		mode := ModeText
		if k.Path == "write-binary" {
			mode = ModeBinary
		}
		wc := WriteCase{CaseSeed: int64(k.Variant), Mode: mode, Vals: []*model.Value{model.TSV(t)}}
		out, werr, pm := writeOnce(wc)
		if pm != "" || werr != nil {
			return "writer failed: " + pm + fmt.Sprint(werr)
		}
		if v := judgeC01(wc, out); v != "" {
			return v + " (output " + showBytes(mode, out) + ")"
		}
		if v := judgeC04(wc, out); v != "" {
			return v + " (output " + showBytes(mode, out) + ")"
		}
	case "ref-binary":
		data, _ := hex.DecodeString(k.InputHex)
		obs := ionx.ReadAll(data)
		got, ok := tsOne(obs.Vals)
		if obs.Failed() || !ok {
			return "reader failed on reference encoding: " + obs.ErrString()
		}
		if len(obs.Soft) > 0 {
			return obs.Soft[0]
		}
		if got != t {
			return fmt.Sprintf("reference encoding read as %v %+v", got, got)
		}
		// the same bytes arriving two at a time (a timestamp's sub-fields are read one after the other)
		if k.Variant%2 == 0 {
			pobs := ionx.Observe(ion.NewReader(&chunkReader{data: data, chunks: []int{2}, failAt: -1}))
			if pgot, pok := tsOne(pobs.Vals); pobs.Failed() || !pok || pgot != t {
				return fmt.Sprintf("reference encoding delivered two bytes per read: read as %v (ok %v), error %s", pgot, pok, pobs.ErrString())
			}
		}
	case "ref-text":
		obs := ionx.ReadAll([]byte(k.Text))
		got, ok := tsOne(obs.Vals)
		if obs.Failed() || !ok {
			return "reader failed on reference spelling: " + obs.ErrString()
		}
		if len(obs.Soft) > 0 {
			return obs.Soft[0]
		}
		if got != t {
			return fmt.Sprintf("reference spelling read as %v %+v", got, got)
		}
		back, err := ion.ParseTimestamp(strings.TrimSpace(k.Text))
		if err != nil {
			return "ParseTimestamp failed on reference spelling: " + err.Error()
		}
		if bt, _ := ionx.TSOf(back); bt != t {
			return fmt.Sprintf("ParseTimestamp of reference spelling = %v", bt)
		}
	case "neg-text":
		if ts, err := ion.ParseTimestamp(k.Text); err == nil {
			return fmt.Sprintf("ParseTimestamp accepted impossible %q as %v", k.Text, ts.String())
		}
		obs := ionx.ReadAll([]byte(k.Text + " "))
		if !obs.Failed() {
			return fmt.Sprintf("text reader accepted impossible %q as %s", k.Text, model.FmtAll(obs.Vals))
		}
	case "neg-binary":
		data, _ := hex.DecodeString(k.InputHex)
		obs := ionx.ReadAll(data)
		if !obs.Failed() {
			return fmt.Sprintf("binary reader accepted an impossible timestamp encoding as %s", model.FmtAll(obs.Vals))
		}
	case "fine-text", "fine-binary":
		// k.T holds the fields without fraction; k.Text holds the fraction digits (fine-text) or "coef/exp10digits"
		var got model.TS
		var digits string
		if k.Path == "fine-text" {
			digits = k.Text
			base := k.T
			base.FracDigits, base.Nanos = 0, 0
			s := base.String()
			// insert the fraction after the seconds
			i := strings.Index(s, "T") + 9
			s = s[:i] + "." + digits + s[i:]
			ts, err := ion.ParseTimestamp(s)
			if err != nil {
				return fmt.Sprintf("ParseTimestamp(%q): %v", s, err)
			}
			var soft string
			got, soft = ionx.TSOf(ts)
			if soft != "" {
				return soft
			}
			obs := ionx.ReadAll([]byte(s))
			g2, ok := tsOne(obs.Vals)
			if obs.Failed() || !ok {
				return fmt.Sprintf("text reader failed on %q: %s", s, obs.ErrString())
			}
			if g2 != got {
				return fmt.Sprintf("reader and ParseTimestamp disagree on %q: %v vs %v", s, g2, got)
			}
		} else {
			digits = k.Text
			data, _ := hex.DecodeString(k.InputHex)
			obs := ionx.ReadAll(data)
			g2, ok := tsOne(obs.Vals)
			if obs.Failed() || !ok {
				return "binary reader failed: " + obs.ErrString()
			}
			if len(obs.Soft) > 0 {
				return obs.Soft[0]
			}
			got = g2
		}
		// exact instant in nanoseconds (local fields; the offset must be unchanged)
		exact := func(t model.TS) *big.Int {
			d := model.DaysFromCivil(t.Y, t.M, t.D)
			s := new(big.Int).SetInt64(d*86400 + int64(t.H*3600+t.Mi*60+t.S))
			return s.Mul(s, big.NewInt(1e9))
		}
		want := new(big.Rat).SetInt(exact(k.T))
		fr, _ := new(big.Int).SetString(digits, 10)
		frac := new(big.Rat).SetFrac(new(big.Int).Mul(fr, big.NewInt(1e9)), new(big.Int).Exp(ten, big.NewInt(int64(len(digits))), nil))
		want.Add(want, frac)
		g := exact(got)
		g.Add(g, big.NewInt(int64(got.Nanos)))
		diff := new(big.Rat).Sub(new(big.Rat).SetInt(g), want)
		diff.Abs(diff)
		if diff.Cmp(big.NewRat(500001, 1000000)) > 0 {
			return fmt.Sprintf("fraction .%s produced %v (off by %s ns)", digits, got, diff.FloatString(3))
		}
		if got.OffKnown != k.T.OffKnown || got.OffMin != k.T.OffMin || got.Prec != model.PSecond {
			return fmt.Sprintf("fraction .%s changed offset/precision: %v %+v", digits, got, got)
		}
		if got.FracDigits < 9 && len(digits) > 9 {
			return fmt.Sprintf("fraction .%s kept only %d fractional digits", digits, got.FracDigits)
		}
	default:
		return "unknown path " + k.Path
	}
	return ""
}

func tsCheck(c *Ctx, k TSCase, nontrivial bool) {
	c.Eval(1)
	v := runTSCase(k)
	if nontrivial {
		c.NonTrivial(fmt.Sprintf("%s|%v|%s|%s", k.Path, k.T, k.Text, k.InputHex))
	}
	if v == "" {
		return
	}
	shape := fmt.Sprintf("prec%d/frac%d/off:%v", k.T.Prec, k.T.FracDigits, offClass(k.T))
	c.Violate("ts-"+k.Path, shape+":"+Class(v), fmt.Sprintf("%s t=%v %+v text=%q hex=%s :: %s", k.Path, k.T, k.T, k.Text, k.InputHex, v), k, nil)
}

func offClass(t model.TS) string {
	switch {
	case t.Prec < model.PMinute:
		return "none"
	case !t.OffKnown:
		return "unknown"
	case t.OffMin == 0:
		return "utc"
	case t.OffMin > 0:
		return "plus"
	}
	return "minus"
}

func tsNonTrivial(t model.TS) bool {
	if t.Prec >= model.PMinute && t.OffKnown && t.OffMin != 0 {
		return true
	}
	if t.FracDigits > 0 {
		fr := fmt.Sprintf("%09d", t.Nanos)[:t.FracDigits]
		if fr[0] == '0' || fr[len(fr)-1] == '0' {
			return true
		}
	}
	if t.Prec >= model.PDay && (t.D == model.DaysIn(t.Y, t.M) || t.D == 1) && (t.Y <= 2 || t.Y >= 9998 || t.M == 2 || t.M == 12 || t.M == 1) {
		return true
	}
	return false
}

// allPaths runs the positive paths on t.
func allPaths(c *Ctx, t model.TS, variant int, r *rand.Rand) {
	nt := tsNonTrivial(t)
	tsCheck(c, TSCase{Path: "string", T: t, Variant: variant}, nt)
	tsCheck(c, TSCase{Path: "getters", T: t, Variant: variant}, false)
	tsCheck(c, TSCase{Path: "write-text", T: t, Variant: variant}, nt)
	tsCheck(c, TSCase{Path: "write-binary", T: t, Variant: variant}, nt)
	// reference encodings / spellings with choices
	ch := newChoice(r.Int63(), 0.3)
	if enc, err := refbin.Encode([]*model.Value{model.TSV(t)}, ch); err == nil {
		if back, derr := refbin.Decode(enc.Bytes, nil); derr == nil && model.Diff([]*model.Value{model.TSV(t)}, back) == "" {
			tsCheck(c, TSCase{Path: "ref-binary", T: t, InputHex: hex.EncodeToString(enc.Bytes)}, nt)
		} else {
			c.Obs("harness_inconsistent", 1)
		}
	}
	p := reftext.NewPrinter(newChoice(r.Int63(), 0.5))
	txt := p.Value(model.TSV(t), false)
	if back, perr := reftext.Parse(txt, nil); perr == nil && model.Diff([]*model.Value{model.TSV(t)}, back) == "" {
		tsCheck(c, TSCase{Path: "ref-text", T: t, Text: txt}, nt)
	} else {
		c.Obs("harness_inconsistent", 1)
	}
}

func runC15(c *Ctx) {
	// ---- calendar boundary grid ----
	years := []int{1, 2, 1900, 2000, 2023, 2024, 9998, 9999}
	times := [][3]int{{0, 0, 0}, {12, 34, 56}, {23, 59, 59}}
	offs := []struct {
		known bool
		min   int
	}{{false, 0}, {true, 0}, {true, 1}, {true, -1}, {true, 60}, {true, -60}, {true, 330}, {true, -330}, {true, 720}, {true, -720}, {true, 1439}, {true, -1439}}
	nanosPat := []int{0, 1, 10, 100, 1000, 100000000, 120000000, 123456789, 999999999, 1234, 900000000, 50000}
	type base struct {
		y, m, d int
		tm      [3]int
		off     int
	}
	var bases []base
	for _, y := range years {
		for m := 1; m <= 12; m++ {
			for _, d := range []int{1, 28, 29, 30, 31} {
				if d > model.DaysIn(y, m) {
					continue
				}
				for _, tm := range times {
					for oi := range offs {
						bases = append(bases, base{y, m, d, tm, oi})
					}
				}
			}
		}
	}
	sub := c.N(12, 1)
	c.Parallel(len(bases), func(w, i int) {
		b := bases[i]
		r := rand.New(rand.NewSource(c.Seed*9_000_011 + int64(i)))
		if sub > 1 && r.Intn(sub) != 0 && !(b.y == 1 || b.y == 9999) {
			return
		}
		mk := func(prec, fd, nanos int) model.TS {
			t := model.TS{Y: b.y, M: b.m, D: b.d, H: b.tm[0], Mi: b.tm[1], S: b.tm[2], Prec: prec, FracDigits: fd, OffKnown: offs[b.off].known, OffMin: offs[b.off].min}
			if fd > 0 {
				p := 1
				for j := fd; j < 9; j++ {
					p *= 10
				}
				t.Nanos = nanos / p * p
			}
			return t.Normalize()
		}
		if c.Thorough() {
			for prec := model.PYear; prec <= model.PSecond; prec++ {
				allPaths(c, mk(prec, 0, 0), i, r)
			}
			for fd := 1; fd <= 9; fd++ {
				allPaths(c, mk(model.PSecond, fd, nanosPat[r.Intn(len(nanosPat))]), i+fd, r)
				allPaths(c, mk(model.PSecond, fd, nanosPat[(i+fd)%len(nanosPat)]), i, r)
			}
		} else {
			allPaths(c, mk(1+r.Intn(5), 0, 0), i, r)
			allPaths(c, mk(model.PSecond, 1+r.Intn(9), nanosPat[r.Intn(len(nanosPat))]), i, r)
			allPaths(c, mk(model.PMinute, 0, 0), i, r)
		}
	})
	c.Exhaustive(fmt.Sprintf("calendar grid: %d (date,time,offset) bases = years {1,2,1900,2000,2023,2024,9998,9999} x every month x days {1,28,29,30,31} x times {00:00:00,12:34:56,23:59:59} x 12 offsets (unknown, Z, ±1, ±60, ±330, ±720, ±1439 minutes, incl. UTC years 0 and 10000); thorough: x all 5 precisions x fraction digits 1..9; quick: seeded 1/12 subsample (years 1 and 9999 always)", len(bases)))

	// ---- random timestamps ----
	n := c.N(6000, 400000)
	c.Parallel(n, func(w, i int) {
		g := gen.New(c.Seed*9_100_003 + int64(i))
		t := g.TS()
		allPaths(c, t, i, g.R)
		if i < 3 {
			c.Sample(map[string]interface{}{"timestamp": t.String(), "paths": "String+reference lexer, ParseTimestamp(String), text write/read, binary write/read, reference encoding, reference spelling"})
		}
	})

	// ---- instants around daylight-saving changes of real zones ----
	// (odd variants carry them in the zone database's Location, the way times of a program working in
	// local time are; the wall clock of the repeated hour exists twice, with two offsets)
	dst := []model.TS{}
	for _, x := range [][7]int{
		{2021, 11, 7, 1, 30, 15, -300}, {2021, 11, 7, 1, 30, 15, -240}, {2021, 11, 7, 0, 59, 59, -240}, {2021, 11, 7, 2, 0, 0, -300}, {2021, 3, 14, 3, 0, 0, -240}, {2021, 3, 14, 1, 59, 59, -300}, // New York
		{2021, 10, 31, 2, 30, 0, 60}, {2021, 10, 31, 2, 30, 0, 120}, {2021, 3, 28, 3, 0, 0, 120}, {2021, 3, 28, 1, 59, 59, 60}, // Berlin
		{2021, 4, 4, 1, 45, 0, 630}, {2021, 4, 4, 1, 45, 0, 660}, {2021, 10, 3, 2, 30, 0, 660}, // Lord Howe (half-hour change)
		{2021, 11, 7, 1, 15, 0, -210}, {2021, 11, 7, 1, 15, 0, -150}, // St. John's
		{2021, 4, 4, 3, 0, 0, 765}, {2021, 4, 4, 3, 0, 0, 825}, {2018, 2, 17, 23, 30, 0, -180}, {2018, 2, 17, 23, 30, 0, -120}, // Chatham, Sao Paulo
		{2021, 6, 1, 12, 0, 0, 330}, {1950, 6, 1, 12, 0, 0, -240}, {2300, 11, 4, 1, 30, 0, -300}, {2300, 11, 4, 1, 30, 0, -240},
	} {
		for _, fd := range []int{0, 2, 9} {
			t := model.TS{Y: x[0], M: x[1], D: x[2], H: x[3], Mi: x[4], S: x[5], Prec: model.PSecond, FracDigits: fd, OffKnown: true, OffMin: x[6]}
			if fd > 0 {
				t.Nanos = 250000000
			}
			dst = append(dst, t.Normalize())
		}
		dst = append(dst, model.TS{Y: x[0], M: x[1], D: x[2], H: x[3], Mi: x[4], Prec: model.PMinute, OffKnown: true, OffMin: x[6]}.Normalize())
	}
	c.Parallel(len(dst), func(w, i int) {
		r := rand.New(rand.NewSource(c.Seed*9_200_003 + int64(i)))
		for variant := 0; variant < 6; variant++ {
			allPaths(c, dst[i], variant, r)
		}
		c.Obs("daylight_saving_instants", 1)
	})

	// ---- impossible strings ----
	negs := []string{
		"2000-00-01T", "2000-13-01T", "2000-00T", "2000-13T", "2000-01-00T", "2000-01-32T", "2001-02-29T", "2100-02-29T", "2000-02-30T", "2000-04-31T", "2000-06-31",
		"2000-01-01T24:00Z", "2000-01-01T00:60Z", "2000-01-01T00:00:60Z", "2000-01-01T23:59:60Z", "2000-01-01T24:00:00Z",
		"2000-01-01T00:00+24:00", "2000-01-01T00:00-24:00", "2000-01-01T00:00+00:60", "2000-01-01T00:00-23:60", "2000-01-01T00:00:00+24:00", "2000-01-01T00:00:00.5-24:00",
		"2000-01-01T00:00:00-24:30", "2000-01-01T10:00-24:00", "0000-01-01T", "0000T", "0000-01T", "0000-01-01T00:00Z",
		"2000-01-01T00:00", "2000-01-01T00:00:00", "2000-01-01T00:00:00.5", "2000-01-01T00Z", "2000-01-01T0:00Z", "2000-1-01T", "2000-01-1T", "200T",
		"2000-01-01T00:00:00.Z", "2000-02-29T00:00:00.+00:00", "1999-02-29T12:00Z", "2023-02-29", "2000-11-31T", "2000-09-31T00:00Z",
	}
	for _, s := range negs {
		tsCheck(c, TSCase{Path: "neg-text", Text: s}, true)
	}
	// ---- impossible binary encodings ----
	vu := func(v uint64) []byte { return refVarUInt(v) }
	mkbin := func(fields ...[]byte) string {
		var body []byte
		for _, f := range fields {
			body = append(body, f...)
		}
		doc := append([]byte{}, refbin.IVM...)
		doc = append(doc, 0x6E)
		doc = append(doc, vu(uint64(len(body)))...)
		doc = append(doc, body...)
		return hex.EncodeToString(doc)
	}
	z := []byte{0x80}
	negbin := []string{
		mkbin(z, vu(2000), vu(0)), mkbin(z, vu(2000), vu(13)), mkbin(z, vu(2000), vu(1), vu(0)), mkbin(z, vu(2000), vu(1), vu(32)),
		mkbin(z, vu(2001), vu(2), vu(29)), mkbin(z, vu(2000), vu(2), vu(30)), mkbin(z, vu(2000), vu(4), vu(31)),
		mkbin(z, vu(2000), vu(1), vu(1), vu(24), vu(0)), mkbin(z, vu(2000), vu(1), vu(1), vu(0), vu(60)),
		mkbin(z, vu(2000), vu(1), vu(1), vu(0), vu(0), vu(60)), mkbin(z, vu(2000), vu(1), vu(1), vu(23), vu(59), vu(60)),
		mkbin(z, vu(2000), vu(1), vu(1), vu(12)), // hour without minute
		mkbin(z, vu(2000), vu(12), vu(31), vu(23)),
		mkbin(z, vu(2000), vu(1), vu(1), vu(0), vu(0), vu(0), []byte{0xC1}, []byte{0x0A}),  // fraction 10 * 10^-1 = 1.0
		mkbin(z, vu(2000), vu(1), vu(1), vu(0), vu(0), vu(0), []byte{0xC1}, []byte{0x85}),  // negative fraction
		mkbin(z, vu(2000), vu(1), vu(1), vu(0), vu(0), vu(0), []byte{0x80}, []byte{0x05}),  // fraction 5 >= 1
		mkbin(z, vu(0), vu(1), vu(1)), mkbin(z, vu(0)), mkbin(z, vu(10000)),
	}
	// the malformed-timestamp atoms of the C07 catalogue (fields too large, fractions outside [0,1), ...)
	for _, at := range binaryAtoms() {
		if strings.HasPrefix(at.name, "timestamp-") {
			negbin = append(negbin, hex.EncodeToString(append(append([]byte{}, refbin.IVM...), at.data...)))
		}
	}
	for _, h := range negbin {
		if data, _ := hex.DecodeString(h); true {
			if _, err := refbin.Decode(data, nil); err == nil {
				c.Obs("harness_inconsistent", 1)
				continue
			}
		}
		tsCheck(c, TSCase{Path: "neg-binary", InputHex: h}, true)
	}
	c.Exhaustive(fmt.Sprintf("%d impossible timestamp strings and %d impossible binary encodings", len(negs), len(negbin)))

	// ---- fractions finer than nanoseconds ----
	nf := c.N(3000, 100000)
	c.Parallel(nf, func(w, i int) {
		r := rand.New(rand.NewSource(c.Seed*9_200_007 + int64(i)))
		g := gen.New(r.Int63())
		t := g.TS()
		t.Prec = model.PSecond
		t.FracDigits, t.Nanos = 0, 0
		if i%3 == 0 {
			t.H, t.Mi, t.S = 23, 59, 59
			t.M, t.D = 12, 31
		}
		if t.Y == 9999 {
			t.Y = 9998
		}
		if !t.OffKnown {
			t.OffMin = 0
		}
		t = t.Normalize()
		nd := 10 + r.Intn(21)
		var sb strings.Builder
		switch r.Intn(4) {
		case 0:
			sb.WriteString(strings.Repeat("9", nd))
		case 1:
			sb.WriteString(strings.Repeat("0", nd-1) + "1")
		case 2:
			sb.WriteString("1234567895" + strings.Repeat("0", nd-10))
		default:
			for j := 0; j < nd; j++ {
				sb.WriteByte(byte('0' + r.Intn(10)))
			}
		}
		digits := sb.String()
		tsCheck(c, TSCase{Path: "fine-text", T: t, Text: digits}, true)
		// binary: offset, UTC fields, exponent -nd, coefficient
		e := refbin.NewEncoder(nil, nil)
		tt := t
		body := e.Value(model.TSV(tt))
		// strip the tag, append the fraction, re-tag
		_, l, hdr, _ := refbin.PTag(body)
		_ = l
		fields := body[hdr:]
		coef, _ := new(big.Int).SetString(digits, 10)
		cb := coef.Bytes()
		if len(cb) > 0 && cb[0]&0x80 != 0 {
			cb = append([]byte{0}, cb...)
		}
		fields = append(fields, e.VarInt(int64(-nd), false)...)
		fields = append(fields, cb...)
		doc := append([]byte{}, refbin.IVM...)
		doc = append(doc, 0x6E)
		doc = append(doc, refVarUInt(uint64(len(fields)))...)
		doc = append(doc, fields...)
		tsCheck(c, TSCase{Path: "fine-binary", T: t, Text: digits, InputHex: hex.EncodeToString(doc)}, true)
	})
	// ---- several timestamps of different precision through one Reader / one Writer ----
	ns := c.N(1500, 60000)
	c.Parallel(ns, func(w, i int) {
		cs := c.Seed*9_300_011 + int64(i)
		g := gen.New(cs)
		r := rand.New(rand.NewSource(cs))
		var vals []*model.Value
		n := 2 + r.Intn(5)
		for j := 0; j < n; j++ {
			t := g.TS()
			if j > 0 && r.Intn(2) == 0 {
				// coarser than its predecessor: nothing of the earlier value may show through
				t.Prec = model.PYear + r.Intn(int(vals[0].T.Prec-model.PYear)+1)
				t = t.Normalize()
				if !t.Valid() {
					t = g.TS()
				}
			}
			if j > 0 && r.Intn(3) == 0 {
				// the same instant as its predecessor at another known offset (and the same digits)
				p := vals[j-1].T
				if p.Prec >= model.PMinute && p.OffKnown {
					delta := []int{-390, -60, 15, 90, 330, 720}[r.Intn(6)]
					if no := p.OffMin + delta; no > -1440 && no < 1440 {
						q := p
						q.Y, q.M, q.D, q.H, q.Mi = model.ShiftMinutes(p.Y, p.M, p.D, p.H, p.Mi, delta)
						q.OffMin = no
						if q.Valid() {
							t = q
						}
					}
				}
			}
			vals = append(vals, model.TSV(t))
		}
		switch i % 3 {
		case 1:
			vals = []*model.Value{model.ListV(vals...)}
		case 2:
			st := model.StructV()
			for _, v := range vals {
				st.Kids = append(st.Kids, v.WithField(model.T("t")))
			}
			vals = []*model.Value{st, model.TSV(g.TS())}
		}
		for _, bin := range []bool{false, true} {
			sub := "sequence-read-text"
			if bin {
				sub = "sequence-read-binary"
			}
			if ran, _ := runReadCase(c, sub, ReadCase{CaseSeed: cs, Binary: bin, P: 0.2, Vals: vals}); ran {
				c.NonTrivial(fmt.Sprintf("seq|%v|%s", bin, model.FmtAll(vals)))
			}
		}
		for _, mode := range []int{ModeText, ModeBinary} {
			if runWriteCase(c, "sequence-write", WriteCase{CaseSeed: cs, Mode: mode, Vals: vals}, func(k WriteCase, out []byte) string {
				if v := judgeC01(k, out); v != "" {
					return v
				}
				return judgeC04(k, out)
			}, nil) {
				c.NonTrivial(fmt.Sprintf("seqw|%d|%s", mode, model.FmtAll(vals)))
			}
		}
	})
	c.mu.Lock()
	inc := c.obs["harness_inconsistent"]
	c.mu.Unlock()
	if inc > 0 {
		c.Inconclusive(fmt.Sprintf("reference producer/consumer disagreed on %d timestamp cases (dropped)", inc))
	}
}

func init() {
	Register(&Monitor{ID: "C15", Run: func(c *Ctx) {
		c.Rule = "timestamps from an exhaustive calendar-boundary grid and a seeded generator, each through: String() judged by the independent lexer, ParseTimestamp(String()), text write+read, binary write+read (both also judged by the reference decoders), reference encoding and reference spelling read by ion-go; sequences of 2..6 timestamps of falling precision through one Reader and one Writer (the instant behind each value read, GetDateTime(), has to be the start of its period); instants around daylight-saving changes of seven real zones, carried by the zone database's own Locations (both passes of a repeated hour); NewTimestampFromStr called directly; impossible strings/encodings must be rejected; fractions of 10..30 digits must land within 0.5 ns. Oracle: independent proleptic-Gregorian arithmetic (no time.Time). Non-trivial: minute-or-finer precision with a non-UTC offset, fraction digits with leading/trailing zeros, or a month-end/year-edge date; distinct by (path, timestamp, input)."
		c.Assume("timestamps with precision Nanosecond and 0 fractional digits are the same Ion value as precision Second")
		runC15(c)
	}, Replay: func(c *Ctx, v *Violation) string {
		var k TSCase
		if err := json.Unmarshal(v.Case, &k); err != nil {
			return "cannot decode case: " + err.Error()
		}
		if r := runTSCase(k); r != "" {
			return "VIOLATED on replay: " + r
		}
		return "HELD on replay"
	}})
}
