package mon

import "verifh/refbin"

// firstBinaryValue returns the bytes (tag, length, body) of the first top-level value of a binary
// stream that is neither a version marker nor a NOP pad; nil when there is none or the stream is
// malformed. Writers are free to emit pads and to choose length encodings, so monitors that look at
// the representation of a value locate it through the structure instead of fixed offsets.
func firstBinaryValue(out []byte) []byte {
	pos := 0
	for pos < len(out) {
		if out[pos] == 0xE0 {
			if pos+4 > len(out) {
				return nil
			}
			pos += 4
			continue
		}
		t, l, hdr, err := refbin.PTag(out[pos:])
		if err != nil {
			return nil
		}
		n := 0
		if l != nil && t != 1 { // typed nulls and bools have no body
			if !l.IsInt64() {
				return nil
			}
			n = int(l.Int64())
		}
		if t == 13 && out[pos]&0x0F == 1 { // sorted struct: the length follows as a VarUInt
			v, k, err := refbin.PVarUInt(out[pos+1:])
			if err != nil || !v.IsInt64() {
				return nil
			}
			hdr, n = 1+k, int(v.Int64())
		}
		end := pos + hdr + n
		if end > len(out) || end < pos {
			return nil
		}
		if t == 0 && out[pos] != 0x0F {
			pos = end
			continue
		}
		return out[pos:end]
	}
	return nil
}
