package mon

import (
	"fmt"
	"reflect"
	"strings"

	"github.com/amzn/ion-go/ion"
)

// First-use order. Two goroutines make one call each on a Go type nobody has used before, one strictly
// after the other (a channel orders them: no race for the detector to see). A call that is independent of
// the other has to give what it gives when it runs alone, whichever of the two came first. Anything the
// library remembers per Go type (a plan, a verdict, a classification) and that depends on the value or the
// input of the call that happened to come first shows up as a difference between the two orders.
//
// "Alone" is decided on a twin: a second type of the same shape and behaviour that the process has not
// seen either, on which the calls are made in the opposite order. The first call on each twin ran alone.

// ordMoney* are identical types with a pointer-receiver MarshalIon (methods cannot be made at run time,
// so the twins are declared; each is used by one trial only).
type ordMoney0 struct{ Cents int }
type ordMoney1 struct{ Cents int }
type ordMoney2 struct{ Cents int }
type ordMoney3 struct{ Cents int }
type ordMoney4 struct{ Cents int }
type ordMoney5 struct{ Cents int }
type ordMoney6 struct{ Cents int }
type ordMoney7 struct{ Cents int }

func ordWrite(w ion.Writer, cents int) error {
	if err := w.Annotation(ion.NewSymbolTokenFromString("cents")); err != nil {
		return err
	}
	return w.WriteInt(int64(cents))
}
func (m *ordMoney0) MarshalIon(w ion.Writer) error { return ordWrite(w, m.Cents) }
func (m *ordMoney1) MarshalIon(w ion.Writer) error { return ordWrite(w, m.Cents) }
func (m *ordMoney2) MarshalIon(w ion.Writer) error { return ordWrite(w, m.Cents) }
func (m *ordMoney3) MarshalIon(w ion.Writer) error { return ordWrite(w, m.Cents) }
func (m *ordMoney4) MarshalIon(w ion.Writer) error { return ordWrite(w, m.Cents) }
func (m *ordMoney5) MarshalIon(w ion.Writer) error { return ordWrite(w, m.Cents) }
func (m *ordMoney6) MarshalIon(w ion.Writer) error { return ordWrite(w, m.Cents) }
func (m *ordMoney7) MarshalIon(w ion.Writer) error { return ordWrite(w, m.Cents) }

var ordMoneyTypes = []reflect.Type{
	reflect.TypeOf(ordMoney0{}), reflect.TypeOf(ordMoney1{}), reflect.TypeOf(ordMoney2{}), reflect.TypeOf(ordMoney3{}),
	reflect.TypeOf(ordMoney4{}), reflect.TypeOf(ordMoney5{}), reflect.TypeOf(ordMoney6{}), reflect.TypeOf(ordMoney7{}),
}

type ordOp struct {
	name string
	run  func(t reflect.Type) string // the observable result of the call, as text
}

// inOrder runs a then b on t, each in a goroutine of its own, b strictly after a.
func inOrder(t reflect.Type, a, b ordOp) (ra, rb string) {
	first, done := make(chan struct{}), make(chan struct{})
	go func() {
		defer close(first)
		defer func() {
			if rec := recover(); rec != nil {
				ra = fmt.Sprintf("panic: %v", rec)
			}
		}()
		ra = a.run(t)
	}()
	go func() {
		defer close(done)
		<-first
		defer func() {
			if rec := recover(); rec != nil {
				rb = fmt.Sprintf("panic: %v", rec)
			}
		}()
		rb = b.run(t)
	}()
	<-done
	return
}

var ordSerial int

// freshWrapper makes an annotation-wrapper struct type no one has seen: the tag on Value is different
// every time and means nothing to the library.
func freshWrapper(inner reflect.Type) reflect.Type {
	ordSerial++
	return reflect.StructOf([]reflect.StructField{
		{Name: "Value", Type: inner, Tag: reflect.StructTag(fmt.Sprintf(`twin:"%d"`, ordSerial))},
		{Name: "Tags", Type: reflect.TypeOf([]ion.SymbolToken(nil)), Tag: `ion:",annotations"`},
	})
}

func freshStruct() reflect.Type {
	ordSerial++
	return reflect.StructOf([]reflect.StructField{
		{Name: "Name", Type: reflect.TypeOf(""), Tag: reflect.StructTag(fmt.Sprintf(`ion:"name" twin:"%d"`, ordSerial))},
		{Name: "Count", Type: reflect.TypeOf(0), Tag: `ion:"count,omitempty"`},
		{Name: "Ptr", Type: reflect.TypeOf((*int)(nil)), Tag: `ion:"ptr"`},
		{Name: "List", Type: reflect.TypeOf([]string(nil)), Tag: `ion:"list"`},
	})
}

func unmarshalOp(text string) ordOp {
	return ordOp{"UnmarshalString(" + text + ")", func(t reflect.Type) string {
		p := reflect.New(t)
		err := ion.UnmarshalString(text, p.Interface())
		if err != nil {
			return "error"
		}
		return strings.ReplaceAll(fmt.Sprintf("ok %v", showOrd(p.Elem())), "\n", " ")
	}}
}

// showOrd renders a decoded value without addresses.
func showOrd(v reflect.Value) string {
	switch v.Kind() {
	case reflect.Ptr:
		if v.IsNil() {
			return "nil"
		}
		return "&" + showOrd(v.Elem())
	case reflect.Struct:
		if d, ok := v.Interface().(ion.Decimal); ok {
			return d.String()
		}
		if ts, ok := v.Interface().(ion.Timestamp); ok {
			return ts.String()
		}
		if tok, ok := v.Interface().(ion.SymbolToken); ok {
			return tok.String()
		}
		var sb strings.Builder
		sb.WriteString("{")
		for i := 0; i < v.NumField(); i++ {
			sb.WriteString(v.Type().Field(i).Name + ":" + showOrd(v.Field(i)) + " ")
		}
		return sb.String() + "}"
	case reflect.Slice:
		if v.IsNil() {
			return "nil"
		}
		var sb strings.Builder
		sb.WriteString("[")
		for i := 0; i < v.Len(); i++ {
			sb.WriteString(showOrd(v.Index(i)) + " ")
		}
		return sb.String() + "]"
	}
	return fmt.Sprintf("%v", v.Interface())
}

func runC18Order(c *Ctx) {
	trials, diffs := int64(0), 0
	report := func(kind, tdesc string, a, b ordOp, what string) {
		diffs++
		if diffs > 12 {
			return
		}
		c.Violate("first-use-order", kind+":"+Class(what), fmt.Sprintf("type %s; calls %s and %s made by two goroutines one after the other :: %s", tdesc, a.name, b.name, what), map[string]string{"kind": kind, "type": tdesc, "a": a.name, "b": b.name}, nil)
	}
	twin := func(kind, tdesc string, t1, t2 reflect.Type, a, b ordOp) {
		trials++
		c.Eval(1)
		c.NonTrivial(fmt.Sprintf("order|%s|%s|%s|%s", kind, tdesc, a.name, b.name))
		aAlone, bAfter := inOrder(t1, a, b)
		bAlone, aAfter := inOrder(t2, b, a)
		if aAlone != aAfter {
			report(kind, tdesc, a, b, fmt.Sprintf("%s gives %q when it is the first call on the type and %q after the other call", a.name, aAlone, aAfter))
		}
		if bAlone != bAfter {
			report(kind, tdesc, a, b, fmt.Sprintf("%s gives %q when it is the first call on the type and %q after the other call", b.name, bAlone, bAfter))
		}
	}
	// (a) annotation wrappers: the same wrapper type met first by an input it accepts or by one it refuses
	inputs := []string{"usd::1.5", "usd::1.5e0", "usd::15", "usd::\"s\"", "usd::sym", "usd::true", "usd::{{aGk=}}", "usd::[1,2]", "usd::null", "usd::2020T", "usd::null.decimal", "1.5", "usd::eur::2.5"}
	inners := []reflect.Type{reflect.TypeOf(ion.Decimal{}), reflect.TypeOf(0), reflect.TypeOf(""), reflect.TypeOf(0.5), reflect.TypeOf([]byte(nil)), reflect.TypeOf(false), reflect.TypeOf([]int(nil)), reflect.TypeOf(ion.Timestamp{})}
	for _, inner := range inners {
		for i := range inputs {
			for j := i + 1; j < len(inputs); j++ {
				twin("annotation-wrapper", "struct{Value "+inner.String()+"; Tags []SymbolToken `annotations`}", freshWrapper(inner), freshWrapper(inner), unmarshalOp(inputs[i]), unmarshalOp(inputs[j]))
			}
		}
	}
	// (b) plain structs: marshal and unmarshal calls in both orders
	sInputs := []string{`{name:"x",count:3,ptr:7,list:["a"]}`, `{name:"y"}`, `{count:1,unknown:2}`, `{NAME:"upper",Count:4}`, `{name:null,ptr:null,list:null}`, `"not a struct"`}
	marshalOp := func(name string, mk func(t reflect.Type) interface{}) ordOp {
		return ordOp{name, func(t reflect.Type) string {
			out, err := ion.MarshalText(mk(t))
			if err != nil {
				return "error"
			}
			return "ok " + string(out)
		}}
	}
	fill := func(t reflect.Type) reflect.Value {
		v := reflect.New(t).Elem()
		v.Field(0).SetString("n")
		v.Field(1).SetInt(5)
		return v
	}
	mOps := []ordOp{
		marshalOp("MarshalText(value)", func(t reflect.Type) interface{} { return fill(t).Interface() }),
		marshalOp("MarshalText(pointer)", func(t reflect.Type) interface{} { p := reflect.New(t); p.Elem().Set(fill(t)); return p.Interface() }),
		marshalOp("MarshalText(zero value)", func(t reflect.Type) interface{} { return reflect.New(t).Elem().Interface() }),
		marshalOp("MarshalText(slice of values)", func(t reflect.Type) interface{} {
			s := reflect.MakeSlice(reflect.SliceOf(t), 2, 2)
			s.Index(0).Set(fill(t))
			return s.Interface()
		}),
	}
	var sOps []ordOp
	sOps = append(sOps, mOps...)
	for _, in := range sInputs {
		sOps = append(sOps, unmarshalOp(in))
	}
	for i := range sOps {
		for j := i + 1; j < len(sOps); j++ {
			twin("struct", "struct{Name string; Count int; Ptr *int; List []string}", freshStruct(), freshStruct(), sOps[i], sOps[j])
		}
	}
	// (c) types that write themselves through a pointer-receiver MarshalIon: met first as a value that has no
	// address (passed by value, held in an interface) or as one that has (a slice element, behind a pointer)
	moneyOps := []ordOp{
		marshalOp("MarshalText(value passed by value)", func(t reflect.Type) interface{} {
			v := reflect.New(t).Elem()
			v.Field(0).SetInt(7)
			return v.Interface()
		}),
		marshalOp("MarshalText(slice of values)", func(t reflect.Type) interface{} {
			s := reflect.MakeSlice(reflect.SliceOf(t), 2, 2)
			s.Index(0).Field(0).SetInt(250)
			s.Index(1).Field(0).SetInt(1999)
			return s.Interface()
		}),
		marshalOp("MarshalText(pointer)", func(t reflect.Type) interface{} {
			p := reflect.New(t)
			p.Elem().Field(0).SetInt(3)
			return p.Interface()
		}),
		marshalOp("MarshalText(map holding values)", func(t reflect.Type) interface{} {
			m := reflect.MakeMap(reflect.MapOf(reflect.TypeOf(""), t))
			v := reflect.New(t).Elem()
			v.Field(0).SetInt(11)
			m.SetMapIndex(reflect.ValueOf("k"), v)
			return m.Interface()
		}),
	}
	pairs := [][2]int{{0, 1}, {0, 2}, {1, 3}, {2, 3}}
	for pi, p := range pairs {
		twin("pointer-receiver-marshaler", "struct{Cents int} with func (*T) MarshalIon", ordMoneyTypes[2*pi], ordMoneyTypes[2*pi+1], moneyOps[p[0]], moneyOps[p[1]])
	}
	c.Obs("first_use_order_trials_(two_orders_each)", trials)
}
