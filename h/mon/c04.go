package mon

import (
	"fmt"
	"math"
	"math/big"
	"math/rand"

	"verifh/gen"
	"verifh/ionx"
	"verifh/model"
	"verifh/refbin"
)

// codecGrid checks every xxxLen/appendXxx pair of ion/bits.go against each other and against the
// reference primitive decoders, over an exhaustive boundary grid (hook sub-check).
func codecGrid(c *Ctx) {
	if !HooksBuilt {
		c.Inconclusive("codec-grid: hooks did not build against this tree; the boundary-level monitors decide alone")
		return
	}
	var k Codecs
	bad := func(name string, v interface{}, detail string) {
		c.Violate("codec-grid", name+":"+Class(detail), fmt.Sprintf("%s(%v): %s", name, v, detail), map[string]interface{}{"codec": name, "value": fmt.Sprint(v)}, []string{"hook"})
	}
	n := int64(0)
	// unsigned values
	var us []uint64
	for i := uint64(0); i < 1<<16; i++ {
		us = append(us, i)
	}
	for b := 0; b < 64; b++ {
		for d := -2; d <= 2; d++ {
			us = append(us, uint64(1)<<uint(b)+uint64(int64(d)))
		}
	}
	us = append(us, math.MaxUint64, math.MaxUint64-1, math.MaxInt64, math.MaxInt64+1)
	r := rand.New(rand.NewSource(c.Seed))
	for i := 0; i < c.N(20000, 2000000); i++ {
		us = append(us, r.Uint64()>>uint(r.Intn(64)))
	}
	for _, u := range us {
		n += 3
		bu := new(big.Int).SetUint64(u)
		if bs := k.AppendUint(u); uint64(len(bs)) != k.UintLen(u) {
			bad("uintLen", u, fmt.Sprintf("len %d but appended %d bytes", k.UintLen(u), len(bs)))
		} else if refbin.PUInt(bs).Cmp(bu) != 0 { // (leading zero bytes are legal in a UInt field)
			bad("appendUint", u, fmt.Sprintf("bytes %x", bs))
		}
		if bs := k.AppendVarUint(u); uint64(len(bs)) != k.VarUintLen(u) {
			bad("varUintLen", u, fmt.Sprintf("len %d but appended %d bytes", k.VarUintLen(u), len(bs)))
		} else if v, used, err := refbin.PVarUInt(bs); err != nil || used != len(bs) || v.Cmp(bu) != 0 {
			bad("appendVarUint", u, fmt.Sprintf("bytes %x decode to %v (%v)", bs, v, err))
		} else if rv, rn, rerr := k.ReadVarUint(bs); rerr != nil || rv != u || rn != uint64(len(bs)) {
			bad("readVarUintLen", u, fmt.Sprintf("bytes %x read as %d len %d err %v", bs, rv, rn, rerr))
		}
		// tag + length
		for _, code := range []byte{0x20, 0x80, 0xB0, 0xE0} {
			bs := k.AppendTag(code, u)
			if uint64(len(bs)) != k.TagLen(u) {
				bad("tagLen", u, fmt.Sprintf("len %d but appended %d bytes", k.TagLen(u), len(bs)))
			} else if t, l, used, err := refbin.PTag(bs); err != nil || used != len(bs) || l == nil || l.Cmp(bu) != 0 || t != int(code>>4) {
				bad("appendTag", u, fmt.Sprintf("code %x bytes %x decode to type %d length %v (%v)", code, bs, t, l, err))
			}
		}
	}
	// signed values
	var is []int64
	for _, u := range us {
		is = append(is, int64(u), -int64(u))
	}
	is = append(is, math.MinInt64, math.MinInt64+1, math.MaxInt64)
	for _, i := range is {
		n += 2
		bi := big.NewInt(i)
		if bs := k.AppendInt(i); uint64(len(bs)) != k.IntLen(i) {
			bad("intLen", i, fmt.Sprintf("len %d but appended %d bytes", k.IntLen(i), len(bs)))
		} else if v, nz := refbin.PInt(bs); v.Cmp(bi) != 0 || nz {
			bad("appendInt", i, fmt.Sprintf("bytes %x decode to %v negzero=%v", bs, v, nz))
		}
		if bs := k.AppendVarInt(i); uint64(len(bs)) != k.VarIntLen(i) {
			bad("varIntLen", i, fmt.Sprintf("len %d but appended %d bytes", k.VarIntLen(i), len(bs)))
		} else if v, _, used, err := refbin.PVarInt(bs); err != nil || used != len(bs) || v.Cmp(bi) != 0 {
			bad("appendVarInt", i, fmt.Sprintf("bytes %x decode to %v (%v)", bs, v, err))
		} else if i != math.MinInt64 {
			if rv, _, rn, rerr := k.ReadVarInt(bs); rerr != nil || rv != i || rn != uint64(len(bs)) {
				bad("readVarIntLen", i, fmt.Sprintf("bytes %x read as %d len %d err %v", bs, rv, rn, rerr))
			}
		}
	}
	// big integers
	var bigs []*big.Int
	for b := 0; b <= 200; b++ {
		for d := int64(-2); d <= 2; d++ {
			v := new(big.Int).Lsh(big.NewInt(1), uint(b))
			v.Add(v, big.NewInt(d))
			bigs = append(bigs, v, new(big.Int).Neg(v))
		}
	}
	for i := 0; i < c.N(5000, 200000); i++ {
		v := new(big.Int).Rand(r, new(big.Int).Lsh(big.NewInt(1), uint(1+r.Intn(2048))))
		if r.Intn(2) == 0 {
			v.Neg(v)
		}
		bigs = append(bigs, v)
	}
	for _, v := range bigs {
		n++
		bs := k.AppendBigInt(new(big.Int).Set(v))
		if uint64(len(bs)) != k.BigIntLen(v) {
			bad("bigIntLen", v, fmt.Sprintf("len %d but appended %d bytes", k.BigIntLen(v), len(bs)))
		} else if d, nz := refbin.PInt(bs); d.Cmp(v) != 0 || nz {
			bad("appendBigInt", v, fmt.Sprintf("bytes %x decode to %v", bs, d))
		}
		// reader-side ReadInt on the magnitude
		mag := new(big.Int).Abs(v).Bytes()
		if v.Sign() != 0 {
			got, err := k.ReadInt(mag, v.Sign() < 0)
			ok := err == nil
			if ok {
				switch x := got.(type) {
				case int64:
					ok = big.NewInt(x).Cmp(v) == 0
				case *big.Int:
					ok = x.Cmp(v) == 0
				default:
					ok = false
				}
			}
			if !ok {
				bad("ReadInt", v, fmt.Sprintf("magnitude %x read as %v (%v)", mag, got, err))
			}
		}
	}
	// timestamps: declared length vs appended bytes, and the bytes decode to the timestamp
	g := gen.New(c.Seed + 77)
	for i := 0; i < c.N(20000, 500000); i++ {
		n++
		t := g.TS()
		ts := ionx.ToTS(t, i)
		declared, body := k.TimestampBody(ts)
		if declared != uint64(len(body)) {
			bad("timestampLen", t, fmt.Sprintf("declared %d but appended %d bytes (%x)", declared, len(body), body))
			continue
		}
		tag := append([]byte{0x6E}, refVarUInt(uint64(len(body)))...)
		doc := append(append(append([]byte{}, refbin.IVM...), tag...), body...)
		got, err := refbin.Decode(doc, nil)
		if err != nil || len(got) != 1 || model.Diff([]*model.Value{model.TSV(t)}, got) != "" {
			d := ""
			if err == nil {
				d = model.Diff([]*model.Value{model.TSV(t)}, got)
			}
			bad("appendTimestamp", t, fmt.Sprintf("body %x: reference decode err=%v %s", body, err, d))
		}
	}
	c.Eval(int(n))
	c.Obs("codec_pairs_checked", n)
	c.NonTrivial("codec-grid-unsigned")
	c.NonTrivial("codec-grid-signed")
	c.NonTrivial("codec-grid-big")
	c.Exhaustive("codec grid: all 16-bit values, ±2 around every 2^k (k<64) and ±2 around 2^k up to 2^200 for big.Int, through every xxxLen/appendXxx pair and the reader-side VarUInt/VarInt/ReadInt")
}

func refVarUInt(v uint64) []byte {
	out := []byte{byte(v&0x7F) | 0x80}
	v >>= 7
	for v > 0 {
		out = append([]byte{byte(v & 0x7F)}, out...)
		v >>= 7
	}
	return out
}

func init() {
	Register(&Monitor{ID: "C04", Run: func(c *Ctx) {
		c.Rule = "the C01 workload (seeded streams x 4 writer modes + boundary grid) judged by the independent reference binary decoder / text parser instead of ion-go's reader; plus the codec hook grid (xxxLen vs appendXxx vs reference primitive decoders). Non-trivial: as C01."
		c.Assume("refbin.Decode / reftext.Parse implement the Ion 1.0 formats (DESIGN.md appendix A); they share no code with ion-go")
		runWriteMonitor(c, "independent-decode", judgeC04)
		codecGrid(c)
	}, Replay: replayWrite(judgeC04)})
}
