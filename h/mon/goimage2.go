package mon

import (
	"math/big"
	"reflect"
)

// normIfaceInts rewrites, in place, every interface{} that holds a *big.Int fitting an int64 into one
// holding an int: the same data decoded from a padded binary encoding arrives as *big.Int, and the
// dynamic type of an interface{} is not something Unmarshal promises.
func normIfaceInts(v reflect.Value) {
	switch v.Kind() {
	case reflect.Ptr:
		if !v.IsNil() {
			normIfaceInts(v.Elem())
		}
	case reflect.Struct:
		if isSpecialStruct(v.Type()) || v.Type() == tSymTok {
			return
		}
		for i := 0; i < v.NumField(); i++ {
			if f := v.Field(i); f.CanSet() {
				normIfaceInts(f)
			}
		}
	case reflect.Slice, reflect.Array:
		for i := 0; i < v.Len(); i++ {
			if e := v.Index(i); e.CanSet() {
				normIfaceInts(e)
			}
		}
	case reflect.Map:
		for _, k := range v.MapKeys() {
			e := v.MapIndex(k)
			c := reflect.New(e.Type()).Elem()
			c.Set(e)
			normIfaceInts(c)
			v.SetMapIndex(k, c)
		}
	case reflect.Interface:
		if v.IsNil() || !v.CanSet() {
			return
		}
		e := v.Elem()
		if bi, ok := e.Interface().(*big.Int); ok && bi != nil && bi.IsInt64() {
			// the documented convention: int for what fits 32 bits, int64 for what fits 64
			if n := bi.Int64(); n >= -1<<31 && n < 1<<31 {
				v.Set(reflect.ValueOf(int(n)))
			} else {
				v.Set(reflect.ValueOf(n))
			}
			return
		}
		c := reflect.New(e.Type()).Elem()
		c.Set(e)
		normIfaceInts(c)
		v.Set(c)
	}
}
