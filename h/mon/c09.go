package mon

import (
	"encoding/json"
	"fmt"
	"math/rand"
	"strings"

	"github.com/amzn/ion-go/ion"

	"verifh/ionx"
	"verifh/refsym"
)

// SymCase is a replayable symbol-table configuration.
type SymCase struct {
	Imports []SymImport `json:"imports"`
	Locals  []string    `json:"locals"`
	Adds    []string    `json:"adds,omitempty"`    // builder history
	Via     string      `json:"via"`               // "api" | "reader-text" | "reader-binary" | "builder"
	Catalog []SymImport `json:"catalog,omitempty"` // reader route: tables the catalog holds
	// SysAt > 0 (api and builder routes): the caller lists the system symbol table itself among the
	// imports, at position SysAt-1. It is implicit in every table, so listing it changes nothing.
	SysAt int `json:"system_table_listed_at,omitempty"`
}

func withSystemAt(imps []ion.SharedSymbolTable, sysAt int) []ion.SharedSymbolTable {
	if sysAt <= 0 {
		return imps
	}
	at := sysAt - 1
	if at > len(imps) {
		at = len(imps)
	}
	out := append([]ion.SharedSymbolTable{}, imps[:at]...)
	out = append(out, ion.V1SystemSymbolTable)
	return append(out, imps[at:]...)
}

type SymImport struct {
	Name    string   `json:"name"`
	Version int      `json:"version"`
	Symbols []string `json:"symbols"` // "" = gap
	MaxID   int64    `json:"max_id"`  // adjusted / declared max_id; -1 = not declared
	// Via: sizes the table is adjusted to first (a table that was padded or cut is adjusted again);
	// a slot that was cut off once has no text any more
	Via []int64 `json:"adjusted_first_to,omitempty"`
}

// settleChain removes what the property leaves open from a chain of sizes: whether a table that was cut
// and is extended again gets its texts back (a view over shared storage) or not (a copy) is the
// implementation's business, so after a cut no later size may exceed what was kept.
func (im *SymImport) settleChain() {
	kept := int64(len(im.Symbols))
	for i, n := range im.Via {
		if kept < int64(len(im.Symbols)) && n > kept {
			im.Via[i] = kept
			n = kept
		}
		if n < kept {
			kept = n
		}
	}
	if im.MaxID >= 0 && kept < int64(len(im.Symbols)) && im.MaxID > kept {
		im.MaxID = kept
	}
}

// viaApply runs the chain of Adjust calls on sst and returns it with the texts it has to hold afterwards.
func (im SymImport) viaApply(sst ion.SharedSymbolTable) (ion.SharedSymbolTable, []string) {
	texts := append([]string{}, im.Symbols...)
	for _, n := range im.Via {
		sst = sst.Adjust(uint64(n))
		if int64(len(texts)) > n {
			texts = texts[:n]
		}
		for int64(len(texts)) < n {
			texts = append(texts, "")
		}
	}
	return sst, texts
}

func slotsOf(texts []string) []refsym.Slot {
	out := make([]refsym.Slot, len(texts))
	for i, t := range texts {
		if t != "" {
			out[i] = refsym.Slot{Text: t, Known: true}
		}
	}
	return out
}

var symAlphabet = []string{"a", "b", "c", "name", "", "$ion", "zz"}

// compareTable checks every observable of st against the model context.
func compareTable(st ion.SymbolTable, ctx *refsym.Context, locals []string, checkLocals bool) string {
	if st.MaxID() != ctx.MaxID() {
		return fmt.Sprintf("MaxID = %d, model %d", st.MaxID(), ctx.MaxID())
	}
	max := ctx.MaxID()
	ids := []uint64{}
	if max <= 64 {
		for id := uint64(0); id <= max+2; id++ {
			ids = append(ids, id)
		}
	} else {
		// region boundaries
		off := uint64(0)
		ids = append(ids, 0, 1, 9, 10)
		for _, s := range ctx.Segs {
			for _, d := range []uint64{0, 1, 2} {
				ids = append(ids, off+d, off+s.N-d, off+uint64(len(s.Slots))+d)
			}
			off += s.N
		}
		ids = append(ids, max, max+1, max+2)
	}
	for _, id := range ids {
		slot, in := ctx.Lookup(id)
		text, ok := st.FindByID(id)
		switch {
		case id == 0 || !in:
			if ok {
				return fmt.Sprintf("FindByID(%d) = %q, true; id is outside 1..%d", id, text, max)
			}
		case slot.Known:
			if !ok || text != slot.Text {
				return fmt.Sprintf("FindByID(%d) = %q, %v; model %q", id, text, ok, slot.Text)
			}
		default:
			if ok && text != "" {
				return fmt.Sprintf("FindByID(%d) = %q, true; model: undefined text", id, text)
			}
		}
		// tokens by SID
		tok, err := ion.NewSymbolTokenBySID(st, int64(id))
		switch {
		case !in:
			if err == nil {
				return fmt.Sprintf("NewSymbolTokenBySID(%d) succeeded beyond max id %d", id, max)
			}
		case err != nil:
			return fmt.Sprintf("NewSymbolTokenBySID(%d) failed within the table: %v", id, err)
		case tok.LocalSID != int64(id):
			return fmt.Sprintf("NewSymbolTokenBySID(%d) has LocalSID %d", id, tok.LocalSID)
		case slot.Known && id != 0:
			if tok.Text == nil || *tok.Text != slot.Text {
				return fmt.Sprintf("NewSymbolTokenBySID(%d) text %v, model %q", id, tok.Text, slot.Text)
			}
		default:
			if tok.Text != nil && *tok.Text != "" {
				return fmt.Sprintf("NewSymbolTokenBySID(%d) text %q, model: undefined", id, *tok.Text)
			}
		}
	}
	if _, err := ion.NewSymbolTokenBySID(st, -1); err == nil {
		return "NewSymbolTokenBySID(-1) succeeded"
	}
	for _, t := range symAlphabet {
		if t == "" {
			continue
		}
		want, found := ctx.FindByName(t)
		got, ok := st.FindByName(t)
		if ok != found || (found && got != want) {
			return fmt.Sprintf("FindByName(%q) = %d, %v; model %d, %v", t, got, ok, want, found)
		}
		tok := st.Find(t)
		if (tok != nil) != found {
			return fmt.Sprintf("Find(%q) = %v; model found=%v", t, tok, found)
		}
		if tok != nil && (tok.Text == nil || *tok.Text != t) {
			return fmt.Sprintf("Find(%q) returned text %v", t, tok.Text)
		}
		nt, err := ion.NewSymbolToken(st, t)
		if err != nil {
			return fmt.Sprintf("NewSymbolToken(%q): %v", t, err)
		}
		if nt.Text == nil || *nt.Text != t {
			return fmt.Sprintf("NewSymbolToken(%q) text %v", t, nt.Text)
		}
		if found && nt.LocalSID != int64(want) || !found && nt.LocalSID != ion.SymbolIDUnknown {
			return fmt.Sprintf("NewSymbolToken(%q) LocalSID %d; model id %d found=%v", t, nt.LocalSID, want, found)
		}
		if found {
			// round trip: the id found must carry the text
			if back, ok := st.FindByID(got); !ok || back != t {
				return fmt.Sprintf("FindByID(FindByName(%q)=%d) = %q, %v", t, got, back, ok)
			}
		}
	}
	if checkLocals {
		syms := st.Symbols()
		if len(syms) != len(locals) {
			return fmt.Sprintf("Symbols() has %d entries, model %d", len(syms), len(locals))
		}
		for i := range syms {
			if syms[i] != locals[i] {
				return fmt.Sprintf("Symbols()[%d] = %q, model %q", i, syms[i], locals[i])
			}
		}
		imps := st.Imports()
		want := ctx.Imports()
		if len(imps) != len(want)+1 {
			return fmt.Sprintf("Imports() has %d entries, model %d (+system)", len(imps), len(want))
		}
		if imps[0].Name() != "$ion" || imps[0].MaxID() != 9 {
			return "Imports()[0] is not the system table"
		}
		for i, w := range want {
			g := imps[i+1]
			if g.Name() != w.Name || g.MaxID() != w.N {
				return fmt.Sprintf("Imports()[%d] = %s max_id %d; model %s max_id %d", i+1, g.Name(), g.MaxID(), w.Name, w.N)
			}
		}
	}
	return ""
}

func symModel(k SymCase) (*refsym.Context, []ion.SharedSymbolTable) {
	ctx := refsym.System()
	var imps []ion.SharedSymbolTable
	for _, im := range k.Imports {
		symsArg := append(make([]string, 0, len(im.Symbols)+3), im.Symbols...)
		sst := ion.NewSharedSymbolTable(im.Name, im.Version, symsArg)
		// (the caller re-uses its slice: the table must not notice)
		for i := range symsArg {
			symsArg[i] = "overwritten_by_caller"
		}
		_ = append(symsArg, "appended_by_caller")
		sst, texts := im.viaApply(sst)
		n := int64(len(texts))
		if im.MaxID >= 0 {
			n = im.MaxID
			sst = sst.Adjust(uint64(n))
		}
		imps = append(imps, sst)
		keep := len(texts)
		if int64(keep) > n {
			keep = int(n)
		}
		ctx.Segs = append(ctx.Segs, refsym.Segment{Slots: slotsOf(texts[:keep]), N: uint64(n), Name: im.Name, Version: im.Version, Found: true, Import: true})
	}
	if len(k.Locals) > 0 {
		ctx.Segs = append(ctx.Segs, refsym.Segment{Slots: slotsOf(k.Locals), N: uint64(len(k.Locals))})
	}
	return ctx, imps
}

func runSymCase(k SymCase) (verdict string) {
	defer func() {
		if rec := recover(); rec != nil {
			verdict = "panic: " + ionx.PanicSite(rec)
		}
	}()
	switch k.Via {
	case "api":
		ctx, imps := symModel(k)
		localsArg := append(make([]string, 0, len(k.Locals)+4), k.Locals...)
		impsArg := append(make([]ion.SharedSymbolTable, 0, len(imps)+3), withSystemAt(imps, k.SysAt)...)
		st := ion.NewLocalSymbolTable(impsArg, localsArg)
		if v := compareTable(st, ctx, k.Locals, true); v != "" {
			return v
		}
		// a table is a value of its own: the caller re-using the slices it passed in must not reach it
		// (a text looked up has to keep giving the id that gives back the text)
		for i := range localsArg {
			localsArg[i] = "overwritten_by_caller"
		}
		_ = append(localsArg, "appended_by_caller")
		for i := range impsArg {
			impsArg[i] = ion.NewSharedSymbolTable("overwritten_by_caller", 1, []string{"zz1", "zz2", "zz3"})
		}
		_ = append(impsArg, ion.NewSharedSymbolTable("appended_by_caller", 1, []string{"yy"}))
		if v := compareTable(st, ctx, k.Locals, true); v != "" {
			return "after the caller re-used the slices it had passed to NewLocalSymbolTable: " + v
		}
		// the shared tables themselves
		for i, im := range k.Imports {
			sctx := &refsym.Context{Segs: []refsym.Segment{ctx.Segs[i+1]}}
			s := imps[i]
			if s.MaxID() != sctx.MaxID() {
				return fmt.Sprintf("shared %s: MaxID %d, model %d", im.Name, s.MaxID(), sctx.MaxID())
			}
			for id := uint64(0); id <= sctx.MaxID()+1 && id < 40; id++ {
				slot, in := sctx.Lookup(id)
				text, ok := s.FindByID(id)
				if (id == 0 || !in) && ok {
					return fmt.Sprintf("shared %s: FindByID(%d) ok outside table", im.Name, id)
				}
				if in && id != 0 && slot.Known && (!ok || text != slot.Text) {
					return fmt.Sprintf("shared %s: FindByID(%d) = %q,%v model %q", im.Name, id, text, ok, slot.Text)
				}
				if in && id != 0 && !slot.Known && ok && text != "" {
					return fmt.Sprintf("shared %s: FindByID(%d) = %q for an undefined slot", im.Name, id, text)
				}
			}
			for _, t := range symAlphabet {
				if t == "" {
					continue
				}
				want, found := sctx.FindByName(t)
				got, ok := s.FindByName(t)
				if ok != found || (found && got != want) {
					return fmt.Sprintf("shared %s (adjusted to %d): FindByName(%q) = %d,%v model %d,%v", im.Name, im.MaxID, t, got, ok, want, found)
				}
			}
			if s.MaxID() > 1<<20 {
				continue // Symbols() materialises max_id entries by design
			}
			if n := len(s.Symbols()); uint64(n) != s.MaxID() {
				return fmt.Sprintf("shared %s: Symbols() has %d entries, MaxID %d", im.Name, n, s.MaxID())
			}
		}
	case "builder":
		ctx, imps := symModel(SymCase{Imports: k.Imports})
		b := ion.NewSymbolTableBuilder(withSystemAt(imps, k.SysAt)...)
		type pair struct {
			text string
			id   uint64
		}
		var given []pair
		var snaps []ion.SymbolTable
		var snapCtx []*refsym.Context
		var locals []string
		for step, t := range k.Adds {
			want, found := ctx.FindByName(t)
			if t == "" {
				found = false
				for _, p := range given {
					if p.text == "" {
						found, want = true, p.id
						break
					}
				}
			}
			id, added := b.Add(t)
			if found {
				if added || id != want {
					return fmt.Sprintf("step %d Add(%q) = %d, %v; text already has id %d", step, t, id, added, want)
				}
			} else {
				if !added || id != ctx.MaxID()+1 {
					return fmt.Sprintf("step %d Add(%q) = %d, %v; model: new id %d", step, t, id, added, ctx.MaxID()+1)
				}
				locals = append(locals, t)
				nc := ctx.Clone()
				if len(locals) == 1 {
					nc.Segs = append(nc.Segs, refsym.Segment{})
				}
				last := &nc.Segs[len(nc.Segs)-1]
				last.Slots = slotsOf(locals)
				last.N = uint64(len(locals))
				ctx = nc
			}
			given = append(given, pair{t, id})
			// never renumbered
			for _, p := range given {
				if p.text == "" {
					continue
				}
				if got, ok := b.FindByName(p.text); !ok || got != p.id {
					return fmt.Sprintf("after step %d: FindByName(%q) = %d,%v but Add returned %d earlier", step, p.text, got, ok, p.id)
				}
				if text, ok := b.FindByID(p.id); !ok || text != p.text {
					return fmt.Sprintf("after step %d: FindByID(%d) = %q,%v; Add returned it for %q", step, p.id, text, ok, p.text)
				}
			}
			if v := compareTable(b, ctx, locals, false); v != "" {
				return fmt.Sprintf("builder after step %d: %s", step, v)
			}
			snaps = append(snaps, b.Build())
			snapCtx = append(snapCtx, ctx)
			// every earlier snapshot is unchanged
			for si, s := range snaps {
				var loc []string
				if len(snapCtx[si].Segs) > len(k.Imports)+1 {
					for _, sl := range snapCtx[si].Segs[len(snapCtx[si].Segs)-1].Slots {
						loc = append(loc, sl.Text)
					}
				}
				if v := compareTable(s, snapCtx[si], loc, true); v != "" {
					return fmt.Sprintf("Build() snapshot taken after step %d, checked after step %d: %s", si, step, v)
				}
			}
		}
	case "reader-text", "reader-binary":
		var cat refsym.Catalog
		var icat []ion.SharedSymbolTable
		for _, ct := range k.Catalog {
			// (the catalog may hold a table that was padded or cut after it was built)
			sst, texts := ct.viaApply(ion.NewSharedSymbolTable(ct.Name, ct.Version, ct.Symbols))
			cat = append(cat, &refsym.Shared{Name: ct.Name, Version: ct.Version, Slots: slotsOf(texts)})
			icat = append(icat, sst)
		}
		spec := refsym.LSTSpec{Symbols: slotsOf(k.Locals)}
		for _, im := range k.Imports {
			spec.Imports = append(spec.Imports, refsym.Import{Name: im.Name, Version: im.Version, MaxID: im.MaxID})
		}
		want, werr := refsym.Apply(refsym.System(), cat, spec)
		// render the table + one user value
		var sb strings.Builder
		sb.WriteString("$ion_symbol_table::{imports:[")
		for i, im := range k.Imports {
			if i > 0 {
				sb.WriteString(",")
			}
			fmt.Fprintf(&sb, "{name:%q,version:%d", im.Name, im.Version)
			if im.MaxID >= 0 {
				fmt.Fprintf(&sb, ",max_id:%d", im.MaxID)
			}
			sb.WriteString("}")
		}
		sb.WriteString("],symbols:[")
		for i, l := range k.Locals {
			if i > 0 {
				sb.WriteString(",")
			}
			if l == "" {
				sb.WriteString("null")
			} else {
				fmt.Fprintf(&sb, "%q", l)
			}
		}
		sb.WriteString("]} 0")
		data := []byte(sb.String())
		if k.Via == "reader-binary" {
			// transcode with the reference encoder so that the binary reader sees the same table
			e := newRawLST(spec, cat)
			if e == nil {
				return ""
			}
			data = e
		}
		var icatalog ion.Catalog
		if k.Catalog != nil {
			icatalog = ion.NewCatalog(icat...)
		}
		r := ion.NewReaderCat(strings.NewReader(string(data)), icatalog)
		ok := r.Next()
		if werr != nil {
			if ok || r.Err() == nil {
				return fmt.Sprintf("import without usable max_id and without exact match accepted (model error: %v)", werr)
			}
			return ""
		}
		if !ok {
			return fmt.Sprintf("reader failed: %v", r.Err())
		}
		st := r.SymbolTable()
		if st == nil {
			return "SymbolTable() is nil after a local symbol table"
		}
		if v := compareTable(st, want, k.Locals, true); v != "" {
			return v
		}
	default:
		return "unknown via " + k.Via
	}
	return ""
}

func symCheck(c *Ctx, k SymCase, nontrivial bool) {
	c.Eval(1)
	v := runSymCase(k)
	if nontrivial {
		raw, _ := json.Marshal(k)
		c.NonTrivial(string(raw))
	}
	if v == "" {
		return
	}
	shape := fmt.Sprintf("%s/imports=%d", k.Via, len(k.Imports))
	c.Violate("symtab-"+k.Via, shape+":"+Class(v), fmt.Sprintf("%+v :: %s", k, v), k, nil)
}

func lists(alpha []string, maxLen int) [][]string {
	out := [][]string{{}}
	prev := [][]string{{}}
	for l := 1; l <= maxLen; l++ {
		var next [][]string
		for _, p := range prev {
			for _, a := range alpha {
				n := append(append([]string{}, p...), a)
				next = append(next, n)
			}
		}
		out = append(out, next...)
		prev = next
	}
	return out
}

func importVariants(name string, alpha []string, maxLen int) []SymImport {
	var out []SymImport
	for _, syms := range lists(alpha, maxLen) {
		for m := int64(0); m <= int64(len(syms))+2; m++ {
			out = append(out, SymImport{Name: name, Version: 1, Symbols: syms, MaxID: m})
			// the same size reached after the table was first padded, or first cut by one
			out = append(out, SymImport{Name: name, Version: 1, Symbols: syms, MaxID: m, Via: []int64{int64(len(syms)) + 3}})
			if len(syms) > 0 && m <= int64(len(syms))-1 {
				out = append(out, SymImport{Name: name, Version: 1, Symbols: syms, MaxID: m, Via: []int64{int64(len(syms)) - 1}})
			}
		}
		out = append(out, SymImport{Name: name, Version: 1, Symbols: syms, MaxID: -1})
	}
	return out
}

func hasDupOrShadow(k SymCase) bool {
	seen := map[string]bool{"name": true, "$ion": true}
	for _, im := range k.Imports {
		if im.MaxID >= 0 && im.MaxID != int64(len(im.Symbols)) {
			return true
		}
		for _, s := range im.Symbols {
			if s != "" && seen[s] {
				return true
			}
			seen[s] = true
		}
	}
	for _, s := range k.Locals {
		if s != "" && seen[s] {
			return true
		}
		seen[s] = true
	}
	return false
}

func runC09(c *Ctx) {
	alpha5 := []string{"a", "b", "c", "name", ""}
	alpha3 := []string{"a", "b", ""}
	alpha2 := []string{"a", ""}
	sub := c.N(8, 1)
	pick := func(i int) bool { return sub == 1 || (i+int(c.Seed))%sub == 0 }
	// ---- 0 and 1 import x locals ----
	locals := lists(alpha5, 3)
	one := importVariants("A", alpha5, 3)
	var cases []SymCase
	for _, l := range locals {
		cases = append(cases, SymCase{Via: "api", Locals: l})
	}
	n := 0
	for _, im := range one {
		for _, l := range locals {
			n++
			if pick(n) {
				cases = append(cases, SymCase{Via: "api", Imports: []SymImport{im}, Locals: l})
			}
		}
	}
	// ---- 2 imports over the reduced alphabet ----
	two := importVariants("A", alpha3, 2)
	twoB := importVariants("B", alpha3, 2)
	loc3 := lists(alpha3, 2)
	for _, a := range two {
		for _, b := range twoB {
			for _, l := range loc3 {
				n++
				if pick(n) {
					cases = append(cases, SymCase{Via: "api", Imports: []SymImport{a, b}, Locals: l})
				}
			}
		}
	}
	// ---- 3 imports over {a, gap} ----
	t1, t2, t3 := importVariants("A", alpha2, 1), importVariants("B", alpha2, 1), importVariants("C", alpha2, 1)
	for _, a := range t1 {
		for _, b := range t2 {
			for _, cc := range t3 {
				for _, l := range lists(alpha2, 1) {
					cases = append(cases, SymCase{Via: "api", Imports: []SymImport{a, b, cc}, Locals: l})
				}
			}
		}
	}
	c.Parallel(len(cases), func(w, i int) { symCheck(c, cases[i], hasDupOrShadow(cases[i])) })
	c.Obs("api_configurations", int64(len(cases)))
	c.Exhaustive(fmt.Sprintf("local symbol tables via the API: 0/1 import over alphabet {a,b,c,name,gap} (lists <=3, max_id 0..len+2 and unadjusted) x locals (lists <=3); 2 imports over {a,b,gap} (lists <=2) x locals; 3 imports over {a,gap}; quick tier takes every %d-th configuration by seed", sub))

	// ---- builder histories ----
	var bcases []SymCase
	importSets := [][]SymImport{nil, {{Name: "A", Version: 1, Symbols: []string{"a", "b"}, MaxID: -1}}, {{Name: "A", Version: 1, Symbols: []string{"a", "", "b"}, MaxID: 5}},
		{{Name: "A", Version: 1, Symbols: []string{"a", "b", "c"}, MaxID: 1}, {Name: "B", Version: 1, Symbols: []string{"b", "name"}, MaxID: -1}}}
	addAlpha := []string{"a", "b", "c", "name", "zz"}
	maxAdds := c.N(4, 5)
	for _, is := range importSets {
		for _, adds := range lists(addAlpha, maxAdds) {
			if len(adds) == 0 {
				continue
			}
			bcases = append(bcases, SymCase{Via: "builder", Imports: is, Adds: adds})
		}
	}
	c.Parallel(len(bcases), func(w, i int) { symCheck(c, bcases[i], len(bcases[i].Adds) >= 2) })
	c.Obs("builder_histories", int64(len(bcases)))
	c.Exhaustive(fmt.Sprintf("builder: every Add sequence of length <=%d over {a,b,c,name,zz} on 4 import sets, with all earlier (text,id) pairs and all earlier Build() snapshots re-checked after each step", maxAdds))

	// ---- random larger configurations, API and reader routes ----
	nr := c.N(4000, 200000)
	c.Parallel(nr, func(w, i int) {
		r := rand.New(rand.NewSource(c.Seed*5_000_011 + int64(i)))
		pool := []string{"a", "b", "c", "name", "", "zz", "$ion", "s1", "s2", "s3", "s4", "s5", "version", "x y"}
		rl := func(max int) []string {
			n := r.Intn(max + 1)
			out := make([]string, n)
			for j := range out {
				out[j] = pool[r.Intn(len(pool))]
			}
			return out
		}
		var k SymCase
		ni := r.Intn(5)
		for j := 0; j < ni; j++ {
			syms := rl(12)
			if r.Intn(10) == 0 {
				syms = rl(200)
			}
			im := SymImport{Name: string(rune('A' + j)), Version: 1 + r.Intn(3), Symbols: syms, MaxID: -1}
			if j > 0 && r.Intn(4) == 0 {
				// the same shared table may be imported twice: each listing occupies its own slots
				prev := k.Imports[r.Intn(j)]
				im.Name, im.Version, im.Symbols = prev.Name, prev.Version, prev.Symbols
			}
			switch r.Intn(4) {
			case 0:
				im.MaxID = int64(r.Intn(len(syms) + 3))
			case 1:
				im.MaxID = int64(len(syms))
			case 2:
				if r.Intn(6) == 0 {
					im.MaxID = int64(1)<<uint(10+r.Intn(30)) + int64(r.Intn(3))
				}
			}
			if r.Intn(3) == 0 {
				// padded or cut first, then adjusted (possibly back to its own length)
				im.Via = []int64{int64(r.Intn(len(syms) + 12))}
				if r.Intn(2) == 0 {
					im.Via = append(im.Via, int64(r.Intn(len(syms)+4)))
				}
				if r.Intn(2) == 0 {
					im.MaxID = int64(len(syms))
				}
				im.settleChain()
			}
			k.Imports = append(k.Imports, im)
		}
		k.Locals = rl(8)
		if r.Intn(4) == 0 {
			k.SysAt = 1 + r.Intn(len(k.Imports)+1)
		}
		switch i % 4 {
		case 0:
			k.Via = "api"
			symCheck(c, k, hasDupOrShadow(k))
		case 1:
			k.Via = "builder"
			k.Locals = nil
			k.Adds = rl(40)
			for j := range k.Adds {
				if k.Adds[j] == "" {
					k.Adds[j] = "e"
				}
			}
			symCheck(c, k, true)
		default:
			k.Via = "reader-text"
			if i%4 == 3 {
				k.Via = "reader-binary"
			}
			// catalog: exact, other version only, or missing
			k.Catalog = []SymImport{}
			for j := range k.Imports {
				im := &k.Imports[j]
				switch r.Intn(4) {
				case 0:
					k.Catalog = append(k.Catalog, SymImport{Name: im.Name, Version: im.Version, Symbols: im.Symbols})
				case 1:
					k.Catalog = append(k.Catalog, SymImport{Name: im.Name, Version: im.Version + 1 + r.Intn(2), Symbols: append(append([]string{}, im.Symbols...), "extra")})
				case 2:
					k.Catalog = append(k.Catalog, SymImport{Name: im.Name, Version: im.Version, Symbols: im.Symbols},
						SymImport{Name: im.Name, Version: im.Version + 1, Symbols: []string{"other"}})
				}
				if im.MaxID > 1<<20 && r.Intn(2) == 0 {
					im.MaxID = int64(r.Intn(30))
				}
			}
			// some catalogs hold a padded (or cut) view of a table. Decided by the table's identity:
			// two different views registered under one name and version would leave open which one a
			// lookup finds.
			for ci := range k.Catalog {
				ct := &k.Catalog[ci]
				if (int(ct.Name[0])+ct.Version+len(ct.Symbols))%3 == 0 {
					// (padded only: what a cut view gives back when a document declares more is left open)
					ct.Via = []int64{int64(len(ct.Symbols) + (ct.Version*7+len(ct.Symbols))%7)}
				}
			}
			if r.Intn(8) == 0 {
				k.Catalog = nil
			}
			symCheck(c, k, true)
		}
		if i < 3 {
			c.Sample(k)
		}
	})
}

// newRawLST encodes "LST 0" in binary with the reference encoder (nil when the model rejects the table).
func newRawLST(spec refsym.LSTSpec, cat refsym.Catalog) []byte {
	return encodeLSTDoc(spec, cat)
}

func init() {
	Register(&Monitor{ID: "C09", Run: func(c *Ctx) {
		c.Rule = "symbol-table configurations built through the public API (NewSharedSymbolTable/Adjust/NewLocalSymbolTable/NewSymbolTableBuilder) and through the Reader with a catalog (which may hold padded or cut views of its tables); chains of Adjust (padded, then cut back to the table's own length, and so on); the system symbol table itself listed among the imports at any position; compared on MaxID, FindByID for every id in 0..MaxID+2, FindByName/Find for every text of the alphabet, Symbols, Imports, NewSymbolToken(BySID), Add/Build, against an independent model of the id space. Non-trivial: an adjusted max_id, duplicate/shadowing text, or a builder history with >=2 Adds; distinct by configuration."
		c.Assume("text \"\" in a table definition is an undefined slot for by-name lookup (DESIGN.md section 5); slot arithmetic is still checked")
		runC09(c)
	}, Replay: func(c *Ctx, v *Violation) string {
		var k SymCase
		if err := json.Unmarshal(v.Case, &k); err != nil {
			return "cannot decode case: " + err.Error()
		}
		if r := runSymCase(k); r != "" {
			return "VIOLATED on replay: " + r
		}
		return "HELD on replay"
	}})
}
