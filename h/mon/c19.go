package mon

import (
	"bytes"
	"encoding/hex"
	"encoding/json"
	"errors"
	"fmt"
	"io"
	"math/rand"
	"reflect"
	"strings"

	"github.com/amzn/ion-go/ion"

	"verifh/gen"
	"verifh/ionx"
	"verifh/model"
	"verifh/refsym"
)

var errBoom = errors.New("boom: injected I/O failure")

// chunkReader delivers data in the given chunk sizes; optional fault position.
type chunkReader struct {
	data    []byte
	pos     int
	chunks  []int // sizes, cycled; 0 means a (0, nil) read
	ci      int
	eofWith bool // deliver io.EOF together with the last bytes
	failAt  int  // byte offset from which every read fails (-1: never)
	reads   int
	failErr error
}

// timeoutErr is what a network connection returns when a deadline passes.
type timeoutErr struct{}

func (timeoutErr) Error() string   { return "i/o timeout (injected)" }
func (timeoutErr) Timeout() bool   { return true }
func (timeoutErr) Temporary() bool { return true }

// failKinds: the errors real sources fail with. A truncated gzip stream or HTTP body returns
// io.ErrUnexpectedEOF; none of them is a clean end of data.
var failKinds = []error{errBoom, io.ErrUnexpectedEOF, io.ErrClosedPipe, fmt.Errorf("read tcp: %w", io.ErrUnexpectedEOF), timeoutErr{}, io.ErrNoProgress}

func (c *chunkReader) Read(p []byte) (int, error) {
	c.reads++
	if c.failAt >= 0 && c.pos >= c.failAt {
		if c.failErr != nil {
			return 0, c.failErr
		}
		return 0, errBoom
	}
	if c.pos >= len(c.data) {
		return 0, io.EOF
	}
	n := len(p)
	if len(c.chunks) > 0 {
		sz := c.chunks[c.ci%len(c.chunks)]
		c.ci++
		if sz == 0 {
			return 0, nil
		}
		if sz < n {
			n = sz
		}
	}
	if c.pos+n > len(c.data) {
		n = len(c.data) - c.pos
	}
	if c.failAt >= 0 && c.pos+n > c.failAt {
		n = c.failAt - c.pos
	}
	copy(p, c.data[c.pos:c.pos+n])
	c.pos += n
	if c.eofWith && c.pos == len(c.data) && c.failAt < 0 {
		return n, io.EOF
	}
	return n, nil
}

// IOCase is a replayable C19 case.
type IOCase struct {
	Kind     string `json:"kind"` // read-chunk | read-fault | write-fault
	InputHex string `json:"input_hex,omitempty"`
	Chunks   []int  `json:"chunks,omitempty"`
	EOFWith  bool   `json:"eof_with_data,omitempty"`
	FailAt   int    `json:"fail_at"`
	ErrKind  int    `json:"error_kind,omitempty"` // index into failKinds
	// writers
	Mode    int            `json:"mode,omitempty"`
	Once    bool           `json:"once,omitempty"`
	Partial bool           `json:"partial,omitempty"`
	Vals    []*model.Value `json:"vals,omitempty"`
	Seed    int64          `json:"case_seed,omitempty"`
}

type readResult struct {
	vals []*model.Value
	err  string
	obs  ionx.Obs
	rerr error
}

func readWith(cr *chunkReader) readResult {
	var res readResult
	func() {
		defer func() {
			if rec := recover(); rec != nil {
				res.err = "PANIC: " + ionx.PanicSite(rec)
			}
		}()
		r := ion.NewReader(cr)
		res.obs = ionx.Observe(r)
		res.vals = res.obs.Vals
		res.err = res.obs.ErrString()
		res.rerr = r.Err()
	}()
	return res
}

func runReadChunk(k IOCase) string {
	data, _ := hex.DecodeString(k.InputHex)
	base := readWith(&chunkReader{data: data, failAt: -1})
	got := readWith(&chunkReader{data: data, chunks: k.Chunks, eofWith: k.EOFWith, failAt: -1})
	if d := model.Diff(base.vals, got.vals); d != "" {
		return "values differ from the one-piece read: " + d
	}
	if base.err != got.err {
		return fmt.Sprintf("final error differs from the one-piece read: %q vs %q", base.err, got.err)
	}
	// the same through Decoder.Decode, looking at the values only after the whole stream was decoded
	// (what was handed out for an early value must not depend on how the rest arrived)
	if base.err == "" && !(len(k.Chunks) == 2 && k.Chunks[1] == 1<<20 && k.Chunks[0]%2 == 1) { // (every other single split point)
		d1 := decodeAllFmt(&chunkReader{data: data, failAt: -1})
		d2 := decodeAllFmt(&chunkReader{data: data, chunks: k.Chunks, eofWith: k.EOFWith, failAt: -1})
		if d1 != d2 {
			return "Decoder.Decode results (examined after the stream ended) differ from the one-piece read: " + firstDiff(d1, d2)
		}
		s1 := skimFmt(&chunkReader{data: data, failAt: -1})
		s2 := skimFmt(&chunkReader{data: data, chunks: k.Chunks, eofWith: k.EOFWith, failAt: -1})
		if s1 != s2 {
			return "a traversal that skips containers and leaves them early differs from the one-piece read: " + firstDiff(s1, s2)
		}
		if len(k.Chunks) == 0 {
			// sources that can (or claim to) seek: a bytes.Reader, and a pipe-like source whose Seek fails
			if s3 := skimFmt(bytes.NewReader(data)); s3 != s1 {
				return "the skipping traversal over a seekable source differs: " + firstDiff(s1, s3)
			}
			if s4 := skimFmt(seekFailReader{&chunkReader{data: data, failAt: -1}}); s4 != s1 {
				return "the skipping traversal over a source whose Seek fails (a pipe) differs: " + firstDiff(s1, s4)
			}
			if s5 := skimFmt(seekFailReader{&chunkReader{data: data, chunks: []int{4096, 1, 700}, failAt: -1}}); s5 != s1 {
				return "the skipping traversal over a chunked source whose Seek fails differs: " + firstDiff(s1, s5)
			}
		}
	}
	return ""
}

// seekFailReader looks like an *os.File on a pipe: it has a Seek method, which fails.
type seekFailReader struct{ *chunkReader }

func (s seekFailReader) Seek(offset int64, whence int) (int64, error) {
	return 0, errors.New("seek: illegal seek")
}

// skimFmt navigates without reading everything: containers are alternately skipped and left after
// their first child, so the readers' skip paths run across the chunk boundaries too.
func skimFmt(r io.Reader) (out string) {
	defer func() {
		if rec := recover(); rec != nil {
			out += "PANIC: " + ionx.PanicSite(rec)
		}
	}()
	rd := ion.NewReader(r)
	var sb strings.Builder
	n := 0
	var level func(depth int)
	level = func(depth int) {
		for rd.Next() {
			n++
			t := rd.Type()
			fmt.Fprintf(&sb, "%d:%v", depth, t)
			if fn, _ := rd.FieldName(); fn != nil && fn.Text != nil {
				sb.WriteString(" " + *fn.Text)
			}
			switch t {
			case ion.ListType, ion.SexpType, ion.StructType:
				if !rd.IsNull() && n%2 == 0 {
					if rd.StepIn() == nil {
						if rd.Next() { // look at the first child only, then leave
							fmt.Fprintf(&sb, " first=%v", rd.Type())
							if ct := rd.Type(); (ct == ion.ListType || ct == ion.SexpType || ct == ion.StructType) && !rd.IsNull() && depth < 6 {
								if rd.StepIn() == nil {
									level(depth + 2)
									rd.StepOut()
								}
							}
						}
						if err := rd.StepOut(); err != nil {
							sb.WriteString(" stepout:" + err.Error())
						}
					}
				}
			case ion.StringType:
				if s, err := rd.StringValue(); err == nil && s != nil {
					fmt.Fprintf(&sb, " %q", *s)
				}
			case ion.IntType:
				if b, err := rd.BigIntValue(); err == nil && b != nil {
					sb.WriteString(" " + b.String())
				}
			}
			sb.WriteString("\n")
		}
	}
	level(0)
	if err := rd.Err(); err != nil {
		sb.WriteString("err: " + err.Error())
	}
	return sb.String()
}

func decodeAllFmt(r io.Reader) (out string) {
	defer func() {
		if rec := recover(); rec != nil {
			out = "PANIC: " + ionx.PanicSite(rec)
		}
	}()
	d := ion.NewDecoder(ion.NewReader(r))
	var xs []interface{}
	for {
		x, err := d.Decode()
		if err != nil {
			out = "end: " + err.Error() + "\n"
			break
		}
		xs = append(xs, x)
	}
	for i := range xs {
		img, ok := imageOf(reflect.ValueOf(&xs[i]).Elem(), "", true)
		if !ok {
			out += "<no image>\n"
			continue
		}
		out += model.Fmt(img) + "\n"
	}
	return out
}

func runReadFault(k IOCase) string {
	data, _ := hex.DecodeString(k.InputHex)
	got := readWith(&chunkReader{data: data, chunks: k.Chunks, failAt: k.FailAt, failErr: failKinds[k.ErrKind%len(failKinds)]})
	if got.obs.Panic != "" {
		return "panic: " + got.obs.Panic
	}
	if got.rerr == nil {
		return fmt.Sprintf("read failure (%v) at byte %d of %d: traversal ended with Err() == nil after %d values", failKinds[k.ErrKind%len(failKinds)], k.FailAt, len(data), model.Count(got.vals))
	}
	return ""
}

// faultyWriter fails at write call index failAt.
type faultyWriter struct {
	failAt   int
	once     bool
	partial  bool
	calls    int
	failed   bool
	accepted []byte
}

func (f *faultyWriter) Write(p []byte) (int, error) {
	i := f.calls
	f.calls++
	fail := f.failAt >= 0 && (i == f.failAt || (!f.once && i > f.failAt))
	if fail {
		f.failed = true
		if f.partial && len(p) > 1 {
			n := len(p) / 2
			f.accepted = append(f.accepted, p[:n]...)
			return n, errBoom
		}
		return 0, errBoom
	}
	f.accepted = append(f.accepted, p...)
	return len(p), nil
}

const (
	wmText = iota
	wmPretty
	wmBinary
	wmBinaryLST
	wmTextImp
	wmPrettyImp
	wmBinaryImp
	nWriteModes
)

var wmNames = []string{"text", "pretty", "binary", "binary-fixed-lst", "text-with-imports", "pretty-with-imports", "binary-with-imports"}

// c19Shared is the shared table the "-with-imports" configurations are constructed with: the first half of the
// document's symbol texts (so that some symbols resolve through the import and some are local), never empty.
func c19Shared(vals []*model.Value) ion.SharedSymbolTable {
	texts := model.SymbolTexts(vals)
	texts = texts[:len(texts)/2]
	if len(texts) == 0 {
		texts = []string{"c19_a", "c19_b"}
	}
	return ion.NewSharedSymbolTable("c19_shared", 1, texts)
}

func newWriterFor(mode int, out io.Writer, vals []*model.Value) ion.Writer {
	switch mode {
	case wmText:
		return ion.NewTextWriter(out)
	case wmPretty:
		return ion.NewTextWriterOpts(out, ion.TextWriterPretty)
	case wmBinary:
		return ion.NewBinaryWriter(out)
	case wmTextImp:
		return ion.NewTextWriter(out, c19Shared(vals))
	case wmPrettyImp:
		return ion.NewTextWriterOpts(out, ion.TextWriterPretty, c19Shared(vals))
	case wmBinaryImp:
		return ion.NewBinaryWriter(out, c19Shared(vals))
	default:
		texts := model.SymbolTexts(vals)
		return ion.NewBinaryWriterLST(out, ion.NewLocalSymbolTable(nil, texts))
	}
}

// runWriteFault returns "" when the property holds; skipped=true when the fault index was never reached.
func runWriteFault(k IOCase) (verdict string, skipped bool) {
	defer func() {
		if rec := recover(); rec != nil {
			verdict = "panic: " + ionx.PanicSite(rec)
		}
	}()
	// fault-free run
	clean := &faultyWriter{failAt: -1}
	w0 := newWriterFor(k.Mode, clean, k.Vals)
	if err := ionx.Write(w0, k.Vals, &ionx.WriteOpts{Rnd: rand.New(rand.NewSource(k.Seed))}); err != nil {
		return "", true
	}
	if err := w0.Finish(); err != nil {
		return "", true
	}
	if k.FailAt >= clean.calls {
		return "", true
	}
	fw := &faultyWriter{failAt: k.FailAt, once: k.Once, partial: k.Partial}
	w := newWriterFor(k.Mode, fw, k.Vals)
	var firstErr error
	firstErrAt := ""
	acceptedAtFirst := -1
	note := func(call string, err error) string {
		if err != nil && firstErr == nil {
			firstErr = err
			firstErrAt = call
			acceptedAtFirst = len(fw.accepted)
			return ""
		}
		if err == nil && firstErr != nil {
			return fmt.Sprintf("%s returned nil after %s had returned %q", call, firstErrAt, firstErr.Error())
		}
		return ""
	}
	err := ionx.Write(w, k.Vals, &ionx.WriteOpts{Rnd: rand.New(rand.NewSource(k.Seed))})
	if err != nil {
		note("a write call ("+err.Error()+")", err)
	}
	if firstErr != nil {
		// all later calls must keep failing
		if v := note("WriteInt", w.WriteInt(1)); v != "" {
			return v, false
		}
		if v := note("BeginList", w.BeginList()); v != "" {
			return v, false
		}
		if v := note("EndList", w.EndList()); v != "" {
			return v, false
		}
	}
	ferr := w.Finish()
	if v := note("Finish", ferr); v != "" {
		return v, false
	}
	if !fw.failed {
		return "", true
	}
	if firstErr == nil {
		return fmt.Sprintf("the io.Writer failed at write call %d (of %d) but no call up to and including Finish returned an error", k.FailAt, clean.calls), false
	}
	// stickiness after Finish as well
	if v := note("WriteString after failed Finish", w.WriteString("x")); v != "" {
		return v, false
	}
	if v := note("second Finish", w.Finish()); v != "" {
		return v, false
	}
	if acceptedAtFirst > len(clean.accepted) || !bytes.Equal(fw.accepted[:acceptedAtFirst], clean.accepted[:acceptedAtFirst]) {
		return "bytes accepted before the first failure are not a prefix of the fault-free output", false
	}
	return "", false
}

func ioViolate(c *Ctx, k IOCase, fp, verdict string) {
	shown := ""
	if k.InputHex != "" {
		d, _ := hex.DecodeString(k.InputHex)
		shown = showInput(len(d) >= 4 && d[0] == 0xE0, d)
	} else {
		shown = model.FmtAll(k.Vals)
	}
	c.Violate(k.Kind, fp+":"+Class(verdict), fmt.Sprintf("%s fail_at=%d chunks=%v eof_with=%v mode=%s once=%v partial=%v doc=%s :: %s", k.Kind, k.FailAt, k.Chunks, k.EOFWith, wmNames[k.Mode%nWriteModes], k.Once, k.Partial, shown, verdict), k, nil)
}

func runC19(c *Ctx) {
	c.Level = "fault_enumeration"
	ndocs := c.N(150, 6000)
	c.Parallel(ndocs, func(w, i int) {
		cs := c.Seed*19_000_003 + int64(i)
		g := gen.New(cs)
		g.MaxDepth = 3
		g.MaxLen = 60
		vals := g.Stream()
		if len(vals) == 0 {
			vals = []*model.Value{model.Int64V(1)}
		}
		if i%3 == 0 {
			// payloads around the sizes at which writers and readers switch strategy (copy vs
			// reference, inline vs VarUInt length, one buffer vs several)
			n := []int{63, 64, 65, 127, 128, 129, 200, 300}[i/3%8]
			vals = append(vals, model.BlobV(bytes.Repeat([]byte{0xB1}, n)), model.Int64V(2), model.ClobV(bytes.Repeat([]byte("c"), n)),
				model.StrV(string(bytes.Repeat([]byte("s"), n))), model.ListV(model.BlobV(bytes.Repeat([]byte{0xB2}, n)), model.Int64V(3)), model.SymV(model.T("end")))
			if n > 1000 && len(vals) > 8 {
				vals = vals[len(vals)-6:]
			}
			if i == 21 || (c.Thorough() && i%300 == 21) {
				// one container longer than any reader buffer, skipped and left early by the skimming traversal
				big := model.ListV()
				for j := 0; j < 180; j++ {
					big.Kids = append(big.Kids, model.StrV(fmt.Sprintf("element %03d of a list that is longer than a buffer", j)))
				}
				vals = []*model.Value{model.Int64V(1), big, model.Int64V(42), model.StructV(big.Clone().WithField(model.T("f")), model.Int64V(2).WithField(model.T("g"))), model.StrV("end")}
			}
		}
		c.JournalCase(w, fmt.Sprintf("io case_seed=%d", cs))
		// ---------- readers ----------
		for _, binary := range []bool{false, true} {
			rk := ReadCase{CaseSeed: cs, Binary: binary, P: 0.25, Vals: vals}
			data, unordered, _, err := rk.render()
			if err != nil || rk.selfCheck(data, unordered) != "" {
				continue
			}
			// lookahead-heavy tail for text
			if !binary && i%3 != 1 {
				// lookahead-heavy tokens, and CR LF pairs whose folding is visible in the value
				data = append(data, []byte(" +inf '''a''' '''b''' x::{{aGk=}} null.int '''l1\r\nl2\rl3\n''' {{'''c1\r\nc2'''}} '''p\r\n\r\nq\r\n\rr\r\r\ns\n\r\n\rt''' {{'''d1\r\n\r\nd2\r\r\n'''}} '''e\\\r\n\r\nf''' /* c\r\n */ $ion_symbol_table::{symbols:[\"q\"]} $10 // c\r\n 1.5e0\r\n")...)
			}
			hx := hex.EncodeToString(data)
			fam := "text"
			if binary {
				fam = "binary"
			}
			r := rand.New(rand.NewSource(cs))
			// every single split point
			// (documents of more than 3000 bytes: about 150 evenly spread positions plus the buffer sizes)
			stride := 1
			if len(data) > 3000 {
				stride = len(data) / 150
			}
			for sp := 1; sp < len(data); sp++ {
				if stride > 1 && sp%stride != 0 && sp != 4095 && sp != 4096 && sp != 4097 && sp != 8192 {
					continue
				}
				k := IOCase{Kind: "read-chunk", InputHex: hx, Chunks: []int{sp, 1 << 20}, FailAt: -1}
				c.Eval(1)
				c.Obs("split_points", 1)
				c.NonTrivial(fmt.Sprintf("chunk|%s|%d", hx, sp))
				if v := runReadChunk(k); v != "" {
					ioViolate(c, k, fam+":split", v)
				}
			}
			// byte at a time, random sizes, zero-length reads, EOF together with data
			for ci, ch := range [][]int{{1}, {2}, {3, 1}, {1, 0, 2}, {4, 1}, {5}, {7, 0, 0, 1}, {1 + r.Intn(9), 1 + r.Intn(9), 1 + r.Intn(40)}} {
				for _, ew := range []bool{false, true} {
					k := IOCase{Kind: "read-chunk", InputHex: hx, Chunks: ch, EOFWith: ew, FailAt: -1}
					c.Eval(1)
					c.NonTrivial(fmt.Sprintf("chunk|%s|%v|%v", hx, ch, ew))
					if v := runReadChunk(k); v != "" {
						ioViolate(c, k, fmt.Sprintf("%s:chunks%d", fam, ci), v)
					}
				}
			}
			k := IOCase{Kind: "read-chunk", InputHex: hx, EOFWith: true, FailAt: -1}
			c.Eval(1)
			if v := runReadChunk(k); v != "" {
				ioViolate(c, k, fam+":eof-with-data", v)
			}
			// read failure at every byte offset
			for fa := 0; fa <= len(data); fa++ {
				if stride > 1 && fa%stride != 0 && fa != len(data) && fa > 8 {
					continue
				}
				chunks := []int(nil)
				if fa%2 == 1 {
					chunks = []int{1 + fa%5}
				}
				c.Obs("read_fault_positions", 1)
				for ek := range failKinds {
					if ek > 1 && (fa+i+ek)%3 != 0 {
						continue // the first two kinds at every offset, the others at every third
					}
					k := IOCase{Kind: "read-fault", InputHex: hx, FailAt: fa, Chunks: chunks, ErrKind: ek}
					c.Eval(1)
					if fa > 0 && fa < len(data) {
						c.NonTrivial(fmt.Sprintf("fault|%s|%d|%d", hx, fa, ek))
					}
					if v := runReadFault(k); v != "" {
						where := "inside"
						if fa == len(data) {
							where = "at-end"
						} else if fa < 4 {
							where = "in-sniffed-prefix"
						}
						ioViolate(c, k, fmt.Sprintf("%s:%s:err%d", fam, where, ek), v)
					}
				}
			}
			c.Obs("read_documents", 1)
		}
		// ---------- writers ----------
		for mode := 0; mode < nWriteModes; mode++ {
			// find the number of write calls of the fault-free run
			clean := &faultyWriter{failAt: -1}
			w0 := newWriterFor(mode, clean, vals)
			ok := func() (ok bool) {
				defer func() {
					if recover() != nil {
						ok = false
					}
				}()
				if ionx.Write(w0, vals, &ionx.WriteOpts{Rnd: rand.New(rand.NewSource(cs))}) != nil {
					return false
				}
				return w0.Finish() == nil
			}()
			if !ok {
				continue
			}
			c.Obs("write_calls_enumerated", int64(clean.calls))
			for fa := 0; fa < clean.calls; fa++ {
				for variant := 0; variant < 4; variant++ {
					if clean.calls > 60 && (fa+variant)%3 != 0 && fa > 6 && fa < clean.calls-6 {
						continue
					}
					k := IOCase{Kind: "write-fault", Mode: mode, FailAt: fa, Once: variant&1 == 1, Partial: variant&2 == 2, Vals: vals, Seed: cs}
					v, skipped := runWriteFault(k)
					if skipped {
						continue
					}
					c.Eval(1)
					if fa > 0 {
						c.NonTrivial(fmt.Sprintf("wfault|%d|%d|%d|%s", mode, fa, variant, model.FmtAll(vals)))
					}
					if v != "" {
						kind := "persistent"
						if k.Once {
							kind = "once"
						}
						ioViolate(c, k, wmNames[mode]+":"+kind, v)
					}
				}
			}
		}
		if i < 2 {
			c.Sample(map[string]interface{}{"values": model.FmtAll(vals), "reader_cases": "every split point, 8 chunk patterns x EOF-with-data, read failure at every byte offset (text and binary renderings)", "writer_cases": "write failure at every write call x {persistent, once} x {rejected, partially accepted} x 7 writer configurations (text, pretty, binary, binary with a fixed table; text, pretty and binary constructed with a shared import)"})
		}
	})
	runC19Directed(c)
	c.Exhaustive("per document up to 3000 bytes: every single split point; read failure at every byte offset 0..len (documents beyond 3000 bytes: about 150 evenly spread positions plus 4095, 4096, 4097 and 8192); write failure at every write call index (thinned to every third index in the middle of runs longer than 60 calls) in 4 fault models and 7 writer configurations")
	_ = refsym.System
}

func init() {
	Register(&Monitor{ID: "C19", Run: func(c *Ctx) {
		c.Rule = "documents from both reference producers read through instrumented io.Readers: every split point, byte-at-a-time and mixed chunk sizes, (0,nil) reads, data delivered together with io.EOF -> values and final error string must equal the one-piece read, and so must the results of a Decoder.Decode loop examined only after the stream ended and of a traversal that skips containers and leaves them early; the same traversal over a seekable source (bytes.Reader) and over sources whose Seek fails (a pipe); payloads (strings, lobs, containers) longer than the readers' buffers; a read failure of six kinds (plain error, io.ErrUnexpectedEOF bare and wrapped, closed pipe, timeout, io.ErrNoProgress) injected at every byte offset -> Err() != nil. Value streams written through instrumented io.Writers failing at every write call index (persistent / once, rejected / partially accepted) in 7 writer configurations (three of them constructed with a shared-table import, whose preamble is a write of its own) -> some call up to Finish errs, every later call errs, accepted bytes are a prefix of the fault-free output. Non-trivial: the split/fault position is strictly inside the document / write sequence; distinct by (document, position, model)."
		c.Assume("read failures are persistent (an io.Reader that failed keeps failing); write failures use both models")
		runC19(c)
	}, Replay: func(c *Ctx, v *Violation) string {
		var k IOCase
		if err := json.Unmarshal(v.Case, &k); err != nil {
			return "cannot decode case: " + err.Error()
		}
		var r string
		switch k.Kind {
		case "read-chunk":
			r = runReadChunk(k)
		case "read-fault":
			r = runReadFault(k)
		default:
			r, _ = runWriteFault(k)
		}
		if r != "" {
			return "VIOLATED on replay: " + r
		}
		return "HELD on replay"
	}})
}
