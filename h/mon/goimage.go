package mon

import (
	"fmt"
	"math"
	"math/big"
	"math/rand"
	"reflect"
	"sort"
	"strings"
	"time"

	"github.com/amzn/ion-go/ion"

	"verifh/ionx"
	"verifh/model"
)

// ---- shared helpers of C16 / C17: Go value generation, the Ion image of a Go value, Go equality ----

var (
	tTimestamp = reflect.TypeOf(ion.Timestamp{})
	tDecimal   = reflect.TypeOf(ion.Decimal{})
	tTime      = reflect.TypeOf(time.Time{})
	tBigInt    = reflect.TypeOf(big.Int{})
	tSymTok    = reflect.TypeOf(ion.SymbolToken{})
	tIface     = reflect.TypeOf((*interface{})(nil)).Elem()
)

func isSpecialStruct(t reflect.Type) bool {
	return t == tTimestamp || t == tDecimal || t == tTime || t == tBigInt
}

type fieldInfo struct {
	name      string
	omitEmpty bool
	hint      string // "", symbol, clob, sexp
	annot     bool
	skip      bool
	index     int
}

func fieldsOf(t reflect.Type) []fieldInfo {
	var out []fieldInfo
	for i := 0; i < t.NumField(); i++ {
		sf := t.Field(i)
		fi := fieldInfo{name: sf.Name, index: i}
		tag := sf.Tag.Get("ion")
		if tag == "-" || sf.PkgPath != "" {
			fi.skip = true
		}
		parts := strings.Split(tag, ",")
		if parts[0] != "" && tag != "-" {
			fi.name = parts[0]
		}
		for _, o := range parts[1:] {
			switch o {
			case "omitempty":
				fi.omitEmpty = true
			case "symbol", "clob", "sexp":
				fi.hint = o
			case "annotations":
				fi.annot = true
			}
		}
		out = append(out, fi)
	}
	return out
}

func emptyGo(v reflect.Value) bool {
	switch v.Kind() {
	case reflect.Array, reflect.Map, reflect.Slice, reflect.String:
		return v.Len() == 0
	case reflect.Bool:
		return !v.Bool()
	case reflect.Int, reflect.Int8, reflect.Int16, reflect.Int32, reflect.Int64:
		return v.Int() == 0
	case reflect.Uint, reflect.Uint8, reflect.Uint16, reflect.Uint32, reflect.Uint64, reflect.Uintptr:
		return v.Uint() == 0
	case reflect.Float32, reflect.Float64:
		return v.Float() == 0
	case reflect.Interface, reflect.Ptr:
		return v.IsNil()
	}
	return false
}

// imageOf computes the Ion value a Go value denotes under the documented mapping.
// sortKeys: map keys sorted (MarshalText). ok=false: the value is outside the mapping.
func imageOf(v reflect.Value, hint string, sortKeys bool) (*model.Value, bool) {
	if !v.IsValid() {
		return model.NullV(model.Null), true
	}
	t := v.Type()
	if img, ok := marshalerImage(v); ok {
		return img, true
	}
	switch t.Kind() {
	case reflect.Bool:
		return model.BoolV(v.Bool()), true
	case reflect.Int, reflect.Int8, reflect.Int16, reflect.Int32, reflect.Int64:
		return model.Int64V(v.Int()), true
	case reflect.Uint, reflect.Uint8, reflect.Uint16, reflect.Uint32, reflect.Uint64, reflect.Uintptr:
		return model.IntV(new(big.Int).SetUint64(v.Uint())), true
	case reflect.Float32, reflect.Float64:
		return model.FloatV(v.Float()), true
	case reflect.String:
		if hint == "symbol" {
			return model.SymV(model.T(v.String())), true
		}
		return model.StrV(v.String()), true
	case reflect.Interface, reflect.Ptr:
		if v.IsNil() {
			return model.NullV(model.Null), true
		}
		return imageOf(v.Elem(), hint, sortKeys)
	case reflect.Slice:
		if t.Elem().Kind() == reflect.Uint8 {
			if v.IsNil() {
				return model.NullV(model.Null), true
			}
			if hint == "clob" {
				return model.ClobV(v.Bytes()), true
			}
			return model.BlobV(v.Bytes()), true
		}
		if v.IsNil() {
			return model.NullV(model.Null), true
		}
		fallthrough
	case reflect.Array:
		// (a [N]byte array marshals as a list of ints, only []byte is a blob)
		out := model.ListV()
		if hint == "sexp" {
			out = model.SexpV()
		}
		for i := 0; i < v.Len(); i++ {
			k, ok := imageOf(v.Index(i), hint, sortKeys)
			if !ok {
				return nil, false
			}
			out.Kids = append(out.Kids, k)
		}
		return out, true
	case reflect.Map:
		if v.IsNil() {
			return model.NullV(model.Null), true
		}
		out := model.StructV()
		keys := v.MapKeys()
		sort.Slice(keys, func(i, j int) bool { return keys[i].String() < keys[j].String() })
		for _, k := range keys {
			kv, ok := imageOf(v.MapIndex(k), hint, sortKeys)
			if !ok {
				return nil, false
			}
			out.Kids = append(out.Kids, kv.WithField(model.T(k.String())))
		}
		return out, true
	case reflect.Struct:
		switch t {
		case tTimestamp:
			ts, _ := ionx.TSOf(v.Interface().(ion.Timestamp))
			return model.TSV(ts), true
		case tDecimal:
			d := v.Interface().(ion.Decimal)
			return model.DecV(ionx.DecOf(&d)), true
		case tBigInt:
			b := v.Interface().(big.Int)
			return model.IntV(&b), true
		case tSymTok:
			tk := v.Interface().(ion.SymbolToken)
			if tk.Text != nil {
				return model.SymV(model.T(*tk.Text)), true
			}
			return model.SymV(model.SID(tk.LocalSID)), true
		case tTime:
			tm := v.Interface().(time.Time)
			_, off := tm.Zone()
			ts := model.TS{Y: tm.Year(), M: int(tm.Month()), D: tm.Day(), H: tm.Hour(), Mi: tm.Minute(), S: tm.Second(), Nanos: tm.Nanosecond(),
				FracDigits: 9, Prec: model.PSecond, OffKnown: true, OffMin: off / 60, AnyFrac: true} // (a time.Time has no precision of its own)
			return model.TSV(ts), true
		}
		fis := fieldsOf(t)
		// annotation wrapper
		for _, fi := range fis {
			if fi.annot {
				var inner *model.Value
				var anns []model.Sym
				for _, f2 := range fis {
					if f2.skip {
						continue
					}
					fv := v.Field(f2.index)
					if f2.annot {
						toks, ok := fv.Interface().([]ion.SymbolToken)
						if !ok {
							return nil, false
						}
						for _, tk := range toks {
							if tk.Text != nil {
								anns = append(anns, model.T(*tk.Text))
							}
						}
					} else {
						iv, ok := imageOf(fv, "", sortKeys)
						if !ok {
							return nil, false
						}
						inner = iv
					}
				}
				if inner == nil {
					return nil, false
				}
				inner.Ann = anns
				return inner, true
			}
		}
		out := model.StructV()
		var add func(v reflect.Value) bool
		add = func(v reflect.Value) bool {
			t := v.Type()
			for _, fi := range fieldsOf(t) {
				sf := t.Field(fi.index)
				if sf.Anonymous && sf.Type.Kind() == reflect.Struct && sf.Tag.Get("ion") == "" {
					if !add(v.Field(fi.index)) {
						return false
					}
					continue
				}
				if fi.skip {
					continue
				}
				fv := v.Field(fi.index)
				if fi.omitEmpty && emptyGo(fv) {
					continue
				}
				kv, ok := imageOf(fv, fi.hint, sortKeys)
				if !ok {
					return false
				}
				out.Kids = append(out.Kids, kv.WithField(model.T(fi.name)))
			}
			return true
		}
		if !add(v) {
			return nil, false
		}
		return out, true
	}
	return nil, false
}

// equalGo compares an original Go value with the one obtained by Unmarshal, with the documented
// normalisations. loose: nil and empty collections / zero values are interchangeable (omitempty).
func equalGo(a, b reflect.Value, path string, loose bool) string {
	if a.Type() != b.Type() {
		return fmt.Sprintf("%s: type %v vs %v", path, a.Type(), b.Type())
	}
	t := a.Type()
	switch t.Kind() {
	case reflect.Float32, reflect.Float64:
		x, y := a.Float(), b.Float()
		if math.IsNaN(x) && math.IsNaN(y) {
			return ""
		}
		if loose && x == 0 && y == 0 {
			return "" // omitempty drops -0 like 0
		}
		if math.Float64bits(x) != math.Float64bits(y) {
			return fmt.Sprintf("%s: float %v (%x) vs %v (%x)", path, x, math.Float64bits(x), y, math.Float64bits(y))
		}
		return ""
	case reflect.Ptr:
		if a.IsNil() || b.IsNil() {
			if a.IsNil() != b.IsNil() {
				if loose && (a.IsNil() || emptyish(a.Elem())) && (b.IsNil() || emptyish(b.Elem())) {
					return ""
				}
				// a pointer to something whose Ion image is null cannot be told from a nil pointer
				if denotesNull(a) && denotesNull(b) {
					return ""
				}
				return fmt.Sprintf("%s: pointer nil %v vs %v", path, a.IsNil(), b.IsNil())
			}
			return ""
		}
		return equalGo(a.Elem(), b.Elem(), path+"*", loose)
	case reflect.Interface:
		if a.IsNil() || b.IsNil() {
			if a.IsNil() != b.IsNil() {
				return fmt.Sprintf("%s: interface nil %v vs %v", path, a.IsNil(), b.IsNil())
			}
			return ""
		}
		ae, be := a.Elem(), b.Elem()
		// nil vs empty []interface{} inside interfaces
		if ae.Type() != be.Type() {
			return fmt.Sprintf("%s: dynamic type %v vs %v", path, ae.Type(), be.Type())
		}
		return equalGo(ae, be, path+".(iface)", loose)
	case reflect.Slice:
		if t.Elem().Kind() == reflect.Uint8 {
			if a.IsNil() != b.IsNil() && !loose {
				return fmt.Sprintf("%s: []byte nil %v vs %v", path, a.IsNil(), b.IsNil())
			}
			if string(a.Bytes()) != string(b.Bytes()) {
				return fmt.Sprintf("%s: bytes %x vs %x", path, a.Bytes(), b.Bytes())
			}
			return ""
		}
		if a.Len() != b.Len() {
			return fmt.Sprintf("%s: slice length %d vs %d", path, a.Len(), b.Len())
		}
		for i := 0; i < a.Len(); i++ {
			if d := equalGo(a.Index(i), b.Index(i), fmt.Sprintf("%s[%d]", path, i), false); d != "" {
				return d
			}
		}
		return ""
	case reflect.Array:
		for i := 0; i < a.Len(); i++ {
			if d := equalGo(a.Index(i), b.Index(i), fmt.Sprintf("%s[%d]", path, i), false); d != "" {
				return d
			}
		}
		return ""
	case reflect.Map:
		if a.IsNil() != b.IsNil() && !(loose && a.Len() == 0 && b.Len() == 0) {
			return fmt.Sprintf("%s: map nil %v vs %v", path, a.IsNil(), b.IsNil())
		}
		if a.Len() != b.Len() {
			return fmt.Sprintf("%s: map size %d vs %d", path, a.Len(), b.Len())
		}
		for _, k := range a.MapKeys() {
			bv := b.MapIndex(k)
			if !bv.IsValid() {
				return fmt.Sprintf("%s: key %q missing", path, k.String())
			}
			if d := equalGo(a.MapIndex(k), bv, fmt.Sprintf("%s[%q]", path, k.String()), false); d != "" {
				return d
			}
		}
		return ""
	case reflect.Struct:
		switch t {
		case tTimestamp:
			x, _ := ionx.TSOf(a.Interface().(ion.Timestamp))
			y, _ := ionx.TSOf(b.Interface().(ion.Timestamp))
			if x != y {
				return fmt.Sprintf("%s: timestamp %v vs %v", path, x, y)
			}
			return ""
		case tDecimal:
			da, db := a.Interface().(ion.Decimal), b.Interface().(ion.Decimal)
			x, y := ionx.DecOf(&da), ionx.DecOf(&db)
			if !x.Equal(y) {
				return fmt.Sprintf("%s: decimal %v vs %v", path, x, y)
			}
			return ""
		case tBigInt:
			x, y := a.Interface().(big.Int), b.Interface().(big.Int)
			if x.Cmp(&y) != 0 {
				return fmt.Sprintf("%s: big.Int %v vs %v", path, &x, &y)
			}
			return ""
		case tTime:
			x, y := a.Interface().(time.Time), b.Interface().(time.Time)
			_, ox := x.Zone()
			_, oy := y.Zone()
			if !x.Equal(y) || ox != oy {
				return fmt.Sprintf("%s: time %v vs %v", path, x, y)
			}
			return ""
		case tSymTok:
			x, y := a.Interface().(ion.SymbolToken), b.Interface().(ion.SymbolToken)
			if (x.Text == nil) != (y.Text == nil) || (x.Text != nil && *x.Text != *y.Text) {
				return fmt.Sprintf("%s: symbol token %v vs %v", path, x.String(), y.String())
			}
			return ""
		}
		for _, fi := range fieldsOf(t) {
			if fi.skip && !(t.Field(fi.index).Anonymous && t.Field(fi.index).Type.Kind() == reflect.Struct) {
				continue
			}
			if d := equalGo(a.Field(fi.index), b.Field(fi.index), path+"."+t.Field(fi.index).Name, fi.omitEmpty); d != "" {
				return d
			}
		}
		return ""
	}
	if a.Kind() == reflect.String {
		if a.String() != b.String() {
			return fmt.Sprintf("%s: string %q vs %q", path, trunc200(a.String()), trunc200(b.String()))
		}
		return ""
	}
	if !reflect.DeepEqual(a.Interface(), b.Interface()) {
		return fmt.Sprintf("%s: %v vs %v", path, a.Interface(), b.Interface())
	}
	return ""
}

func emptyish(v reflect.Value) bool { return emptyGo(v) }

// denotesNull: the value's Ion image is null (nil pointer/interface/slice/map, through pointers).
func denotesNull(v reflect.Value) bool {
	for {
		switch v.Kind() {
		case reflect.Ptr, reflect.Interface:
			if v.IsNil() {
				return true
			}
			v = v.Elem()
		case reflect.Slice, reflect.Map:
			return v.IsNil()
		default:
			return false
		}
	}
}

// ---- Go type and value generation ----

var leafTypes = []reflect.Type{
	reflect.TypeOf(false), reflect.TypeOf(int(0)), reflect.TypeOf(int8(0)), reflect.TypeOf(int16(0)), reflect.TypeOf(int32(0)), reflect.TypeOf(int64(0)),
	reflect.TypeOf(uint(0)), reflect.TypeOf(uint8(0)), reflect.TypeOf(uint16(0)), reflect.TypeOf(uint32(0)), reflect.TypeOf(uint64(0)),
	reflect.TypeOf(float32(0)), reflect.TypeOf(float64(0)), reflect.TypeOf(""), reflect.TypeOf([]byte(nil)), reflect.TypeOf([4]byte{}),
	tTimestamp, tDecimal, reflect.PtrTo(tDecimal), tTime, tBigInt, reflect.PtrTo(tBigInt), tIface,
}

// EmbeddedBase is embedded (flattened) by generated structs.
type EmbeddedBase struct {
	BaseID   int64  `ion:"base_id"`
	BaseName string `ion:"base_name,omitempty"`
}

// Static catalogue: shapes reflect.StructOf cannot build (deep embedding) or that the random
// generator would rarely hit (field names differing only by case, tag combinations).
type DeepLeaf struct {
	X int    `ion:"x"`
	Y string `ion:"y"`
	Z bool   `ion:"z"`
}
type DeepMid struct {
	DeepLeaf
	M int16 `ion:"m"`
}
type DeepInner struct {
	DeepMid
	I uint8 `ion:"i"`
}
type DeepOuter struct {
	DeepInner
	O float64 `ion:"o"`
}
type DeepSame struct {
	DeepInner2
	Tail []int `ion:"tail,omitempty"`
}
type DeepInner2 struct {
	DeepMid2
	K string
}
type DeepMid2 struct {
	DeepLeaf2
}
type DeepLeaf2 struct {
	A, B, C int64
}
type CaseFields struct {
	Count int      `ion:"n"`
	Total int      `ion:"N"`
	Name  string   `ion:"name"`
	NAME  []string `ion:"NAME"`
	Label string
	LABEL float64
}
type TagMix struct {
	S   string            `ion:"s,symbol,omitempty"`
	C   []byte            `ion:",clob"`
	X   []int             `ion:"x,sexp"`
	P   *TagMix           `ion:"p,omitempty"`
	M   map[string]*int32 `ion:"m,omitempty"`
	Hid int               `ion:"-"`
	T   ion.Timestamp
	D   *ion.Decimal `ion:"d"`
	B   big.Int
	Any interface{} `ion:"any"`
}

// named (defined) types of every supported kind: reflection must go by kind, not by identity
type NamedKey string
type NamedInt int32
type NamedUint uint16
type NamedFloat float64
type NamedBool bool
type NamedBytes []byte
type NamedInts []NamedInt
type NamedArr [2]NamedKey
type NamedMap map[NamedKey]NamedInt
type NamedPtr *NamedInt
type NamedMix struct {
	K  NamedKey   `ion:"k"`
	I  NamedInt   `ion:"i"`
	U  NamedUint  `ion:"u"`
	F  NamedFloat `ion:"f"`
	B  NamedBool  `ion:"b"`
	Y  NamedBytes `ion:"y"`
	L  NamedInts  `ion:"l"`
	A  NamedArr   `ion:"a"`
	M  NamedMap   `ion:"m"`
	P  NamedPtr   `ion:"p"`
	MM map[NamedKey]NamedMap
	Y2 [3]NamedU8 `ion:"y2"`
	Y3 []NamedU8  `ion:"y3"`
}

type NamedU8 uint8

var staticTypes = []reflect.Type{reflect.TypeOf(NamedMix{}), reflect.TypeOf(NamedMap(nil)), reflect.TypeOf(map[NamedKey][]NamedMix(nil)),
	reflect.TypeOf(DeepOuter{}), reflect.TypeOf(DeepSame{}), reflect.TypeOf(CaseFields{}), reflect.TypeOf(TagMix{}),
	reflect.TypeOf([]DeepOuter(nil)), reflect.TypeOf(map[string]CaseFields(nil)), reflect.TypeOf(&DeepSame{})}

var tagChoices = []string{"", "", "", `ion:"renamed"`, `ion:",omitempty"`, `ion:"x_y,omitempty"`, `ion:"-"`}

// genType assembles a random type from the supported kinds.
func genType(r *rand.Rand, depth int) reflect.Type {
	if r.Intn(12) == 0 {
		return staticTypes[r.Intn(len(staticTypes))]
	}
	if depth <= 0 || r.Intn(3) == 0 {
		return leafTypes[r.Intn(len(leafTypes))]
	}
	switch r.Intn(7) {
	case 0:
		return reflect.SliceOf(genType(r, depth-1))
	case 1:
		return reflect.ArrayOf(1+r.Intn(3), genType(r, depth-1))
	case 2:
		if r.Intn(4) == 0 {
			return reflect.MapOf(reflect.TypeOf(NamedKey("")), genType(r, depth-1))
		}
		return reflect.MapOf(reflect.TypeOf(""), genType(r, depth-1))
	case 3:
		return reflect.PtrTo(genType(r, depth-1))
	case 4:
		return genAnnotWrapper(r)
	default:
		return genStruct(r, depth-1)
	}
}

func genStruct(r *rand.Rand, depth int) reflect.Type {
	n := 1 + r.Intn(5)
	var fs []reflect.StructField
	used := map[string]bool{}
	if r.Intn(4) == 0 {
		fs = append(fs, reflect.StructField{Name: "EmbeddedBase", Type: reflect.TypeOf(EmbeddedBase{}), Anonymous: true})
		used["base_id"], used["base_name"] = true, true
	}
	for i := 0; i < n; i++ {
		ft := genType(r, depth)
		tag := tagChoices[r.Intn(len(tagChoices))]
		// hints only where they apply
		switch {
		case ft.Kind() == reflect.String && r.Intn(3) == 0:
			tag = `ion:",symbol"`
		case ft.Kind() == reflect.Slice && ft.Elem().Kind() == reflect.Uint8 && r.Intn(3) == 0:
			tag = `ion:",clob"`
		case (ft.Kind() == reflect.Slice || ft.Kind() == reflect.Array) && ft.Elem().Kind() != reflect.Uint8 && leafNoHint(ft.Elem()) && r.Intn(3) == 0:
			tag = `ion:",sexp"`
		}
		name := fmt.Sprintf("F%d", i)
		ion := name
		if strings.Contains(tag, `"renamed`) {
			ion = "renamed"
		} else if strings.Contains(tag, `"x_y`) {
			ion = "x_y"
		}
		if used[ion] {
			tag, ion = "", name
		}
		used[ion] = true
		fs = append(fs, reflect.StructField{Name: name, Type: ft, Tag: reflect.StructTag(tag)})
	}
	return reflect.StructOf(fs)
}

// leafNoHint: element types for which a propagated sexp hint changes nothing unexpected.
func leafNoHint(t reflect.Type) bool {
	switch t.Kind() {
	case reflect.Bool, reflect.Int, reflect.Int32, reflect.Int64, reflect.Float64, reflect.Uint16:
		return true
	}
	return false
}

func genAnnotWrapper(r *rand.Rand) reflect.Type {
	// scalar- or list-valued wrappers only (map/struct-valued wrappers are asymmetric by construction of the API)
	inner := []reflect.Type{reflect.TypeOf(int(0)), reflect.TypeOf(""), reflect.TypeOf(false), reflect.TypeOf(float64(0)), reflect.TypeOf([]int(nil)), reflect.TypeOf([]byte(nil)), tTimestamp, reflect.TypeOf(uint16(0))}[r.Intn(8)]
	return reflect.StructOf([]reflect.StructField{
		{Name: "Value", Type: inner},
		{Name: "Ann", Type: reflect.TypeOf([]ion.SymbolToken(nil)), Tag: `ion:",annotations"`},
	})
}

var goTexts = []string{"", "a", "hello", "null", "$5", "x y", "a'b\"c\\", "日本", "😀", "\x00\n\t", "true", "+"}

// fillValue fills v with a boundary-biased value.
func fillValue(r *rand.Rand, v reflect.Value, depth int, nested bool) {
	t := v.Type()
	if depth < -3 && (t.Kind() == reflect.Ptr || t.Kind() == reflect.Slice || t.Kind() == reflect.Map || t.Kind() == reflect.Interface) {
		return // recursive types: stop with the zero value
	}
	switch t.Kind() {
	case reflect.Bool:
		v.SetBool(r.Intn(2) == 0)
	case reflect.Int, reflect.Int8, reflect.Int16, reflect.Int32, reflect.Int64:
		bits := t.Bits()
		switch r.Intn(5) {
		case 0:
			v.SetInt(0)
		case 1:
			v.SetInt(int64(1)<<uint(bits-1) - 1)
		case 2:
			v.SetInt(-int64(1) << uint(bits-1))
		case 3:
			v.SetInt(int64(r.Intn(200) - 100))
		default:
			x := r.Int63() >> uint(64-bits)
			if r.Intn(2) == 0 {
				x = -x
			}
			v.SetInt(x)
		}
	case reflect.Uint, reflect.Uint8, reflect.Uint16, reflect.Uint32, reflect.Uint64:
		bits := t.Bits()
		switch r.Intn(4) {
		case 0:
			v.SetUint(0)
		case 1:
			v.SetUint(^uint64(0) >> uint(64-bits))
		case 2:
			v.SetUint(uint64(1) << uint(bits-1))
		default:
			v.SetUint(r.Uint64() >> uint(64-bits))
		}
	case reflect.Float32:
		v.SetFloat(float64([]float32{0, 1.5, -2.25, math.MaxFloat32, math.SmallestNonzeroFloat32, float32(math.Inf(1)), float32(math.NaN()), 1e-40, 16777217}[r.Intn(9)]))
	case reflect.Float64:
		v.SetFloat([]float64{0, math.Copysign(0, -1), 1.5, -2.25, math.MaxFloat64, math.SmallestNonzeroFloat64, math.Inf(-1), math.NaN(), 0.1, 1e100, 3.4028235677973366e38}[r.Intn(11)])
	case reflect.String:
		v.SetString(goTexts[r.Intn(len(goTexts))])
	case reflect.Slice:
		if t.Elem().Kind() == reflect.Uint8 {
			switch r.Intn(4) {
			case 0: // nil
			case 1:
				v.SetBytes([]byte{})
			default:
				b := make([]byte, r.Intn(20))
				r.Read(b)
				v.SetBytes(b)
			}
			return
		}
		switch r.Intn(4) {
		case 0: // nil
		default:
			n := r.Intn(4)
			s := reflect.MakeSlice(t, n, n)
			for i := 0; i < n; i++ {
				fillValue(r, s.Index(i), depth-1, nested)
			}
			v.Set(s)
		}
	case reflect.Array:
		for i := 0; i < v.Len(); i++ {
			fillValue(r, v.Index(i), depth-1, nested)
		}
	case reflect.Map:
		if r.Intn(4) == 0 {
			return
		}
		m := reflect.MakeMap(t)
		for i := r.Intn(4); i > 0; i-- {
			e := reflect.New(t.Elem()).Elem()
			fillValue(r, e, depth-1, nested)
			m.SetMapIndex(reflect.ValueOf([]string{"k1", "k2", "a b", "", "$5", "null"}[r.Intn(6)]).Convert(t.Key()), e)
		}
		v.Set(m)
	case reflect.Ptr:
		if r.Intn(4) == 0 {
			return
		}
		p := reflect.New(t.Elem())
		fillValue(r, p.Elem(), depth-1, nested)
		v.Set(p)
	case reflect.Interface:
		// only dynamic types Unmarshal itself produces for an interface{} target
		switch r.Intn(9) {
		case 0: // nil
		case 1:
			v.Set(reflect.ValueOf(r.Intn(2) == 0))
		case 2:
			v.Set(reflect.ValueOf(int(r.Int31()) - 1<<30))
		case 3:
			v.Set(reflect.ValueOf(int64(1)<<40 + r.Int63n(1000)))
		case 4:
			v.Set(reflect.ValueOf(new(big.Int).Lsh(big.NewInt(3), 70)))
		case 5:
			if nested {
				v.Set(reflect.ValueOf(int(7)))
			} else {
				v.Set(reflect.ValueOf(1.5))
			}
		case 6:
			if nested {
				v.Set(reflect.ValueOf([]byte{1, 2}))
			} else {
				v.Set(reflect.ValueOf(goTexts[r.Intn(len(goTexts))]))
			}
		case 7:
			if depth > 0 {
				n := 1 + r.Intn(3)
				s := make([]interface{}, n)
				sv := reflect.ValueOf(s)
				for i := 0; i < n; i++ {
					fillValue(r, sv.Index(i), depth-1, true)
				}
				v.Set(sv)
			}
		default:
			if depth > 0 {
				m := map[string]interface{}{}
				for i := 1 + r.Intn(2); i > 0; i-- {
					e := reflect.New(tIface).Elem()
					fillValue(r, e, depth-1, true)
					m[[]string{"k1", "k2", "z"}[r.Intn(3)]] = e.Interface()
				}
				v.Set(reflect.ValueOf(m))
			}
		}
	case reflect.Struct:
		switch t {
		case tTimestamp:
			g := genTS(r)
			v.Set(reflect.ValueOf(ionx.ToTS(g, r.Intn(6))))
		case tDecimal:
			v.Set(reflect.ValueOf(*ionx.ToDec(genDec(r))))
		case tBigInt:
			b := new(big.Int).Lsh(big.NewInt(int64(r.Intn(2000)-1000)), uint(r.Intn(90)))
			v.Set(reflect.ValueOf(*b))
		case tTime:
			loc := []*time.Location{time.UTC, time.FixedZone("X", 3600), time.FixedZone("Y", -19800)}[r.Intn(3)]
			v.Set(reflect.ValueOf(time.Date(1+r.Intn(9998), time.Month(1+r.Intn(12)), 1+r.Intn(28), r.Intn(24), r.Intn(60), r.Intn(60), []int{0, 1, 999999999, 500000000, r.Intn(1e9)}[r.Intn(5)], loc)))
		default:
			for i := 0; i < t.NumField(); i++ {
				sf := t.Field(i)
				if sf.PkgPath != "" {
					continue
				}
				if sf.Type == reflect.TypeOf([]ion.SymbolToken(nil)) {
					// an annotated null loses its wrapper on the way back (null handling precedes
					// the wrapper): keep wrapped collections non-nil
					for j := 0; j < t.NumField(); j++ {
						if f := v.Field(j); f.Kind() == reflect.Slice && f.IsNil() && j != i {
							f.Set(reflect.MakeSlice(f.Type(), 0, 0))
						}
					}
					n := 1 + r.Intn(2)
					toks := make([]ion.SymbolToken, n)
					for j := range toks {
						toks[j] = ion.NewSymbolTokenFromString([]string{"a", "b c", "$5", "null"}[r.Intn(4)])
					}
					v.Field(i).Set(reflect.ValueOf(toks))
					continue
				}
				fillValue(r, v.Field(i), depth-1, nested)
				// text that looks like a symbol id is a SID reference through WriteSymbolFromString
				if strings.Contains(string(sf.Tag), ",symbol") && sf.Type.Kind() == reflect.String && ionx.LooksLikeSID(v.Field(i).String()) {
					v.Field(i).SetString("sym")
				}
			}
		}
	}
}

func genTS(r *rand.Rand) model.TS {
	t := model.TS{Y: 1 + r.Intn(9999), M: 1 + r.Intn(12), Prec: 1 + r.Intn(5)}
	t.D = 1 + r.Intn(model.DaysIn(t.Y, t.M))
	t.H, t.Mi, t.S = r.Intn(24), r.Intn(60), r.Intn(60)
	if t.Prec >= model.PMinute {
		switch r.Intn(3) {
		case 0:
		case 1:
			t.OffKnown = true
		default:
			t.OffKnown = true
			t.OffMin = r.Intn(1600) - 800
		}
	}
	if t.Prec == model.PSecond && r.Intn(2) == 0 {
		t.FracDigits = 1 + r.Intn(9)
		p := 1
		for i := t.FracDigits; i < 9; i++ {
			p *= 10
		}
		t.Nanos = r.Intn(1e9) / p * p
	}
	return t.Normalize()
}

func genDec(r *rand.Rand) model.Dec {
	d := model.Dec{Coef: big.NewInt(int64(r.Intn(200001) - 100000)), Exp: int32(r.Intn(41) - 20)}
	if r.Intn(6) == 0 {
		d.Coef = new(big.Int)
		d.NegZero = r.Intn(2) == 0
	}
	if r.Intn(6) == 0 {
		d.Coef = new(big.Int).Lsh(big.NewInt(7), 100)
		d.NegZero = false
	}
	return d
}

// typeIsNontrivial: >= 2 fields or a composite kind.
func typeIsNontrivial(t reflect.Type) bool {
	switch t.Kind() {
	case reflect.Struct:
		return !isSpecialStruct(t) && t.NumField() >= 2
	case reflect.Slice, reflect.Array, reflect.Map, reflect.Ptr:
		return true
	}
	return false
}
