// Package mon holds the monitors (one per property) and their shared bookkeeping:
// case accounting, violation records, known-finding matching, evidence.
package mon

import (
	"encoding/json"
	"fmt"
	"hash/fnv"
	"math/rand"
	"os"
	"path/filepath"
	"regexp"
	"runtime"
	"sort"
	"strconv"
	"strings"
	"sync"
	"sync/atomic"
	"time"
	"verifh/choice"
)

// Violation is one recorded violation class (deduplicated by fingerprint).
type Violation struct {
	Property    string          `json:"property"`
	Sub         string          `json:"sub_check"`
	Fingerprint string          `json:"fingerprint"`
	Detail      string          `json:"detail"`
	Seed        int64           `json:"seed"`
	Tier        string          `json:"tier"`
	Case        json.RawMessage `json:"case"`
	Count       int             `json:"occurrences"`
	Features    []string        `json:"features,omitempty"`
}

// Known is an entry of KNOWN_FINDINGS.jsonl.
type Known struct {
	Status      string          `json:"status"` // known | fixed
	Property    string          `json:"property"`
	Fingerprint string          `json:"fingerprint,omitempty"` // regular expression matched against the whole fingerprint
	What        string          `json:"what"`
	Commit      string          `json:"commit,omitempty"`
	Witness     json.RawMessage `json:"witness,omitempty"`
	re          *regexp.Regexp
}

// Ctx is the state of one check run.
type Ctx struct {
	ID      string
	Tier    string
	Seed    int64
	Hooks   bool
	Root    string
	Level   string
	Rule    string
	Workers int

	mu         sync.Mutex
	evals      int64
	distinct   map[uint64]struct{}
	samples    []interface{}
	feat       map[string]int
	obs        map[string]int64
	viol       map[string]*Violation
	violOrder  []string
	inconcl    []string
	assume     []string
	exhaustive []string
	start      time.Time
	known      []Known
	journal    *os.File
}

func NewCtx(id, tier string, seed int64) *Ctx {
	root := os.Getenv("VERIF_ROOT")
	if root == "" {
		root = "/verif"
	}
	c := &Ctx{ID: id, Tier: tier, Seed: seed, Root: root, Level: "exploration",
		distinct: map[uint64]struct{}{}, feat: map[string]int{}, obs: map[string]int64{}, viol: map[string]*Violation{},
		start: time.Now(), Hooks: os.Getenv("VERIF_HOOKS") != "0", Workers: runtime.NumCPU()}
	c.loadKnown()
	return c
}

func (c *Ctx) Thorough() bool { return c.Tier == "thorough" }

// N picks a case count by tier.
func (c *Ctx) N(quick, thorough int) int {
	n := quick
	if c.Thorough() {
		n = thorough
	}
	// VERIF_SCALE multiplies every random case count (deep sweeps); the
	// fixed catalogues and enumerations are unaffected.
	// Only counts are scaled: values below 100 are structural parameters (a maximal sequence length, a
	// sampling stride, a number of rounds), and a length that is an exponent must not be multiplied.
	if s, err := strconv.ParseFloat(os.Getenv("VERIF_SCALE"), 64); err == nil && s > 0 && n >= 100 {
		n = int(float64(n) * s)
		if n < 1 {
			n = 1
		}
	}
	return n
}

func (c *Ctx) loadKnown() {
	data, err := os.ReadFile(filepath.Join(c.Root, "KNOWN_FINDINGS.jsonl"))
	if err != nil {
		return
	}
	for _, l := range strings.Split(string(data), "\n") {
		l = strings.TrimSpace(l)
		if l == "" || strings.HasPrefix(l, "#") {
			continue
		}
		var k Known
		if json.Unmarshal([]byte(l), &k) != nil {
			continue
		}
		if k.Status == "known" && k.Fingerprint != "" {
			re, err := regexp.Compile("^(?:" + k.Fingerprint + ")$")
			if err != nil {
				continue
			}
			k.re = re
		}
		c.known = append(c.known, k)
	}
}

// Eval counts one execution of code under test.
func (c *Ctx) Eval(n int) { atomic.AddInt64(&c.evals, int64(n)) }

// Obs adds to a named monitor observation counter.
func (c *Ctx) Obs(name string, n int64) {
	c.mu.Lock()
	c.obs[name] += n
	c.mu.Unlock()
}

// Feat merges a feature histogram.
func (c *Ctx) Feat(m map[string]int) {
	c.mu.Lock()
	for k, v := range m {
		c.feat[k] += v
	}
	c.mu.Unlock()
}

func (c *Ctx) Feat1(f string) {
	c.mu.Lock()
	c.feat[f]++
	c.mu.Unlock()
}

func Hash(s string) uint64 {
	h := fnv.New64a()
	h.Write([]byte(s))
	return h.Sum64()
}

// NonTrivial records a distinct non-trivial case by its canonical string.
func (c *Ctx) NonTrivial(canon string) {
	h := Hash(canon)
	c.mu.Lock()
	c.distinct[h] = struct{}{}
	c.mu.Unlock()
}

// Sample keeps up to 8 sample cases for evidence.
func (c *Ctx) Sample(s interface{}) {
	c.mu.Lock()
	if len(c.samples) < 8 {
		c.samples = append(c.samples, s)
	}
	c.mu.Unlock()
}

func (c *Ctx) Inconclusive(s string) {
	c.mu.Lock()
	c.inconcl = append(c.inconcl, s)
	c.mu.Unlock()
}

func (c *Ctx) Assume(s string) { c.assume = append(c.assume, s) }
func (c *Ctx) Exhaustive(s string) {
	c.mu.Lock()
	c.exhaustive = append(c.exhaustive, s)
	c.mu.Unlock()
}

var digitsRe = regexp.MustCompile(`[0-9]+`)
var hexRe = regexp.MustCompile(`0x[0-9A-Fa-f]+`)
var quotedRe = regexp.MustCompile(`"(?:[^"\\]|\\.)*"|'(?:[^'\\]|\\.)*'`)

// Class abstracts a message into a class: quoted text, hex and decimal numbers are replaced.
func Class(msg string) string {
	if len(msg) > 300 {
		msg = msg[:300]
	}
	msg = quotedRe.ReplaceAllString(msg, "Q")
	msg = hexRe.ReplaceAllString(msg, "H")
	msg = digitsRe.ReplaceAllString(msg, "N")
	return msg
}

// Violate records a violation. fingerprint identifies the class; kase must be JSON-serialisable
// and sufficient to replay.
func (c *Ctx) Violate(sub, fingerprint, detail string, kase interface{}, features []string) {
	raw, err := json.Marshal(kase)
	if err != nil {
		raw, _ = json.Marshal(fmt.Sprintf("unserialisable case: %v", err))
	}
	key := sub + "|" + fingerprint
	c.mu.Lock()
	defer c.mu.Unlock()
	if v, ok := c.viol[key]; ok {
		v.Count++
		// keep the smaller witness
		if len(raw) < len(v.Case) {
			v.Case = raw
			v.Detail = detail
			v.Features = features
		}
		return
	}
	c.viol[key] = &Violation{Property: c.ID, Sub: sub, Fingerprint: key, Detail: detail, Seed: c.Seed, Tier: c.Tier, Case: raw, Count: 1, Features: features}
	c.violOrder = append(c.violOrder, key)
}

func (c *Ctx) NumViolations() int {
	c.mu.Lock()
	defer c.mu.Unlock()
	return len(c.viol)
}

// Journal support: the supervisor learns which case was in flight when the process died.
func (c *Ctx) OpenJournal() {
	dir := filepath.Join(c.Root, "out", "journal")
	os.MkdirAll(dir, 0o755)
	f, err := os.Create(filepath.Join(dir, c.ID+".journal"))
	if err == nil {
		c.journal = f
	}
}

// JournalCase notes the case a worker is about to execute (one short line, unbuffered).
func (c *Ctx) JournalCase(worker int, desc string) {
	if c.journal == nil {
		return
	}
	if len(desc) > 4000 {
		desc = desc[:4000]
	}
	c.journal.WriteString(fmt.Sprintf("%d\t%s\n", worker, strings.ReplaceAll(desc, "\n", "\\n")))
}

// Parallel runs n cases on the worker pool; f gets (worker, index).
func (c *Ctx) Parallel(n int, f func(worker, i int)) {
	var wg sync.WaitGroup
	var next int64 = -1
	w := c.Workers
	if w > n {
		w = n
	}
	if w < 1 {
		w = 1
	}
	for k := 0; k < w; k++ {
		wg.Add(1)
		go func(k int) {
			defer wg.Done()
			for {
				i := int(atomic.AddInt64(&next, 1))
				if i >= n {
					return
				}
				f(k, i)
			}
		}(k)
	}
	wg.Wait()
}

// Finish matches known findings, writes violation records and evidence, prints the verdict lines
// and returns the process exit code.
func (c *Ctx) Finish() int {
	c.mu.Lock()
	defer c.mu.Unlock()
	exit := 0
	vdir := filepath.Join(c.Root, "out", "violations", c.ID)
	os.RemoveAll(vdir)
	os.MkdirAll(vdir, 0o755)
	knownHit := map[int]bool{}
	var knownLines []string
	nviol := 0
	sort.Strings(c.violOrder)
	for i, key := range c.violOrder {
		v := c.viol[key]
		matched := -1
		for ki, k := range c.known {
			if k.Status == "known" && k.Property == c.ID && k.re != nil && k.re.MatchString(v.Fingerprint) {
				matched = ki
				break
			}
		}
		if matched >= 0 {
			if !knownHit[matched] {
				knownHit[matched] = true
				line := fmt.Sprintf("KNOWN-FINDING: property=%s %s", c.ID, c.known[matched].What)
				fmt.Println(line)
				knownLines = append(knownLines, c.known[matched].What)
			}
			continue
		}
		nviol++
		path := filepath.Join(vdir, fmt.Sprintf("v%03d.json", i))
		data, _ := json.MarshalIndent(v, "", " ")
		os.WriteFile(path, data, 0o644)
		fmt.Printf("VIOLATION property=%s replay=%s\n", c.ID, path)
		d := v.Detail
		if len(d) > 600 {
			d = d[:600] + "…"
		}
		fmt.Printf("  sub=%s occurrences=%d fingerprint=%s\n  %s\n", v.Sub, v.Count, v.Fingerprint, d)
		exit = 1
	}
	for ki, k := range c.known {
		if k.Status == "known" && k.Property == c.ID && !knownHit[ki] {
			fmt.Printf("NOTE stale-known-finding property=%s (not reproduced in this run): %s\n", c.ID, k.What)
		}
	}
	for _, s := range c.inconcl {
		fmt.Printf("INCONCLUSIVE property=%s %s\n", c.ID, s)
	}
	// evidence
	if c.assume == nil {
		c.assume = []string{}
	}
	if c.inconcl == nil {
		c.inconcl = []string{}
	}
	if knownLines == nil {
		knownLines = []string{}
	}
	if c.exhaustive == nil {
		c.exhaustive = []string{}
	}
	feat := map[string]int{}
	for k, v := range c.feat {
		feat[k] = v
	}
	cov := map[string]interface{}{
		"evaluations":          c.evals,
		"distinct_nontrivial":  len(c.distinct),
		"rule":                 c.Rule,
		"samples":              c.samples,
		"feature_histogram":    feat,
		"monitor_observations": c.obs,
		"exhaustive_subspaces": c.exhaustive,
		"exhaustive":           false,
	}
	ev := map[string]interface{}{
		"property_id":    c.ID,
		"tier":           c.Tier,
		"seed":           c.Seed,
		"level":          c.Level,
		"coverage":       cov,
		"assumptions":    c.assume,
		"wall_s":         time.Since(c.start).Seconds(),
		"violations":     nviol,
		"known_findings": knownLines,
		"inconclusive":   c.inconcl,
		"hooks_built":    c.Hooks,
		"scale":          os.Getenv("VERIF_SCALE"),
	}
	if len(c.samples) == 0 {
		cov["samples"] = []interface{}{}
	}
	os.MkdirAll(filepath.Join(c.Root, "evidence"), 0o755)
	data, _ := json.MarshalIndent(ev, "", " ")
	os.WriteFile(filepath.Join(c.Root, "evidence", c.ID+".json"), data, 0o644)
	fmt.Printf("%s %s seed=%d: evaluations=%d distinct_nontrivial=%d violations=%d known=%d wall=%.1fs\n",
		c.ID, c.Tier, c.Seed, c.evals, len(c.distinct), nviol, len(knownLines), time.Since(c.start).Seconds())
	if exit == 0 && (c.evals == 0 || len(c.distinct) < 2) {
		fmt.Printf("BROKEN property=%s: the run observed nothing non-trivial\n", c.ID)
		return 2
	}
	return exit
}

// ---- registry ----

type Monitor struct {
	ID     string
	Run    func(c *Ctx)
	Replay func(c *Ctx, v *Violation) string // returns a description of what happened on replay
}

var Monitors = map[string]*Monitor{}

func Register(m *Monitor) { Monitors[m.ID] = m }

func newChoice(seed int64, p float64) *choice.C {
	return choice.New(rand.New(rand.NewSource(seed)), p)
}
