package mon

import (
	"bytes"
	"fmt"
	"reflect"

	"github.com/amzn/ion-go/ion"
)

// Values that are large in count rather than in depth: tens of thousands of nil pointers, nil slices, nil
// maps, nil interfaces and empty containers, flat. Nothing about them is deep, so nothing that counts depth
// (or anything else per value) may run out on them: they marshal, and what was marshalled unmarshals into
// an equal value, in one call and through one Decoder.
type nullRow struct {
	Seq  int      `ion:"seq"`
	Prev *string  `ion:"prev"`
	Tags []string `ion:"tags"`
}

type nullRowAny struct {
	Seq  int         `ion:"seq"`
	Prev interface{} `ion:"prev"`
}

func manyNullValues() []interface{} {
	ptrs := make([]*int32, 10001)
	one := int32(7)
	ptrs[5000] = &one
	m := map[string]*bool{}
	for i := 0; i < 10050; i++ {
		m[fmt.Sprintf("k%05d", i)] = nil
	}
	rows := make([]nullRow, 6000)
	for i := range rows {
		rows[i].Seq = i
	}
	ifaces := make([]interface{}, 12000)
	ifaces[11999] = int(3)
	slices := make([][]int, 11000)
	slices[10999] = []int{1}
	maps := make([]map[string]int, 10500)
	anyRows := make([]nullRowAny, 10500)
	empties := make([][]string, 10500)
	for i := range empties {
		empties[i] = []string{}
	}
	return []interface{}{ptrs, m, rows, ifaces, slices, maps, anyRows, empties}
}

func runC16ManyNulls(c *Ctx) {
	vals := manyNullValues()
	c.Parallel(len(vals), func(w, i int) {
		v := reflect.ValueOf(vals[i])
		t := v.Type()
		for _, enc := range []int{0, 2, 6} {
			k := MarshalCase{CaseSeed: int64(-1 - i), Type: trunc200(t.String()), Value: fmt.Sprintf("%d flat entries, nearly all nil or empty", v.Len()), Enc: encNames[enc]}
			c.Eval(1)
			c.NonTrivial(fmt.Sprintf("many-nulls|%d|%d", i, enc))
			c.Obs("values_with_10000_or_more_nulls", 1)
			if verdict := runMarshalEnc(t, v, enc, &k); verdict != "" {
				cls := verdict
				if len(cls) > 140 {
					cls = cls[:140]
				}
				c.Violate("marshal-many-nulls", kindShape(t, 0)+":"+Class(cls), fmt.Sprintf("type=%s value=%s via %s :: %s", k.Type, k.Value, k.Enc, verdict), k, nil)
			}
		}
	})
	// one Decoder over a stream of 10500 small rows, each with a null in it
	c.Eval(1)
	var buf bytes.Buffer
	e := ion.NewTextEncoder(&buf)
	const nrows = 10500
	for i := 0; i < nrows; i++ {
		if err := e.Encode(nullRow{Seq: i}); err != nil {
			c.Violate("marshal-many-nulls", "encoder-stream:"+Class(err.Error()), "Encoder stream of flat rows: "+err.Error(), MarshalCase{CaseSeed: -100, Enc: "Encoder stream (text)"}, nil)
			return
		}
	}
	e.Finish()
	d := ion.NewTextDecoder(bytes.NewReader(buf.Bytes()))
	for i := 0; i < nrows; i++ {
		var row nullRow
		if err := d.DecodeTo(&row); err != nil || row.Seq != i || row.Prev != nil {
			c.Violate("marshal-many-nulls", "decoder-stream:"+Class(fmt.Sprint(err)), fmt.Sprintf("Decoder over %d flat rows {seq,prev:null,tags:null}: row %d gave %+v, error %v", nrows, i, row, err), MarshalCase{CaseSeed: -100, Enc: "Decoder stream (text)"}, nil)
			return
		}
	}
	c.Obs("decoder_stream_rows_with_nulls", nrows)
}

// failingMarshaler writes part of its output and then reports an error.
type failingMarshaler struct{ N int }

func (f failingMarshaler) MarshalIon(w ion.Writer) error {
	if err := w.BeginStruct(); err != nil {
		return err
	}
	if err := w.FieldName(ion.NewSymbolTokenFromString("partial_output_of_a_failed_call")); err != nil {
		return err
	}
	if err := w.WriteInt(int64(f.N)); err != nil {
		return err
	}
	return fmt.Errorf("failingMarshaler: state %d cannot be written", f.N)
}

// runC16AfterFailure: a Marshal call that fails, after having produced some output internally, must leave
// nothing behind: the calls that follow it return exactly what they return otherwise.
func runC16AfterFailure(c *Ctx) {
	type withChan struct {
		A string
		B []int
		C chan int
	}
	type holder struct {
		Name string
		In   failingMarshaler
	}
	failing := []struct {
		name string
		call func() error
	}{
		{"MarshalText of a struct whose third field is a channel", func() error {
			_, err := ion.MarshalText(withChan{A: "leftover_text_leftover_text", B: []int{1, 2, 3}, C: make(chan int)})
			return err
		}},
		{"MarshalBinary of a struct whose third field is a channel", func() error {
			_, err := ion.MarshalBinary(withChan{A: "leftover_text_leftover_text", B: []int{1, 2, 3}, C: make(chan int)})
			return err
		}},
		{"MarshalText of a struct holding a Marshaler that fails half way", func() error {
			_, err := ion.MarshalText(holder{Name: "leftover", In: failingMarshaler{7}})
			return err
		}},
		{"MarshalBinary of a list holding a Marshaler that fails half way", func() error {
			_, err := ion.MarshalBinary([]interface{}{"leftover", 1, failingMarshaler{8}})
			return err
		}},
		{"MarshalBinaryLST with a symbol the fixed table lacks", func() error {
			_, err := ion.MarshalBinaryLST(map[string]int{"aa_in_table": 1, "zz_not_in_table": 2}, ion.NewLocalSymbolTable(nil, []string{"aa_in_table"}))
			return err
		}},
	}
	// (no maps: the order of their keys in binary output is not fixed)
	ordinary := []interface{}{nullRowAny{Seq: 1, Prev: []interface{}{1, "ordinary", true}}, []string{"a", "b"}, 42, nullRow{Seq: 3, Tags: []string{"x"}}}
	type res struct{ text, bin []byte }
	marshal := func(v interface{}) (res, error) {
		t, err := ion.MarshalText(v)
		if err != nil {
			return res{}, err
		}
		b, err := ion.MarshalBinary(v)
		return res{t, b}, err
	}
	var base []res
	for _, v := range ordinary {
		r, err := marshal(v)
		if err != nil {
			c.Inconclusive("C16 after-failure: an ordinary value does not marshal: " + err.Error())
			return
		}
		base = append(base, r)
	}
	for round := 0; round < 25; round++ {
		for fi, f := range failing {
			c.Eval(1)
			c.NonTrivial(fmt.Sprintf("after-failure|%d|%d", fi, round))
			err := func() (err error) {
				defer func() {
					if rec := recover(); rec != nil {
						err = fmt.Errorf("panic: %v", rec)
					}
				}()
				return f.call()
			}()
			if err == nil {
				// (not this sub-check's subject: a call expected to fail did not)
				c.Obs("calls_expected_to_fail_that_succeeded", 1)
				continue
			}
			c.Obs("failed_marshal_calls_followed_by_ordinary_ones", 1)
			for vi, v := range ordinary {
				r, err := marshal(v)
				if err != nil || !bytes.Equal(r.text, base[vi].text) || !bytes.Equal(r.bin, base[vi].bin) {
					c.Violate("marshal-after-failure", Class(f.name), fmt.Sprintf("after %s (error: %v), Marshal of %#v returned text %q / binary %x (error %v); before the failure: %q / %x", f.name, err, v, r.text, r.bin, err, base[vi].text, base[vi].bin), MarshalCase{CaseSeed: -200 - int64(fi), Enc: "MarshalText+MarshalBinary after a failed call"}, nil)
					return
				}
			}
		}
	}
}
