package mon

import (
	"bytes"
	"encoding/json"
	"fmt"
	"math/big"
	"math/rand"
	"reflect"
	"strings"

	"github.com/amzn/ion-go/ion"

	"verifh/ionx"
	"verifh/model"
	"verifh/refbin"
	"verifh/reftext"
)

// MarshalCase is replayable from the seed: type and value are regenerated deterministically.
type MarshalCase struct {
	CaseSeed int64  `json:"case_seed"`
	Depth    int    `json:"depth"`
	Type     string `json:"go_type"`
	Value    string `json:"go_value"`
	Enc      string `json:"encoding"`
	Output   string `json:"output_shown,omitempty"`
}

func buildMarshalCase(k *MarshalCase) (reflect.Type, reflect.Value) {
	r := rand.New(rand.NewSource(k.CaseSeed))
	t := genType(r, k.Depth)
	v := reflect.New(t).Elem()
	fillValue(r, v, 3, false)
	k.Type = trunc200(t.String())
	k.Value = trunc200(fmt.Sprintf("%+v", v.Interface()))
	return t, v
}

// otherValue is marshalled between producing and examining an output (buffer re-use across calls).
var otherValue = map[string]interface{}{"zzzzzzzzzzzzzzzz": []int{7, 8, 9, 10, 11, 12}, "yyyyyyyy": "................................................................"}

var encNames = []string{"MarshalText(value)", "MarshalText(pointer)", "MarshalBinary(value)", "MarshalBinary(pointer)", "MarshalBinaryLST", "Encoder stream (text)", "Encoder stream (binary)",
	"MarshalTo(text Writer)", "MarshalTo(binary Writer)", "NewEncoderOpts(pretty Writer)", "NewBinaryEncoderLST", "EncodeAs(text)", "EncodeAs(binary)"}

// topHint is the type hint that applies to a value of type t at the top level (what a field tag could say).
func topHint(t reflect.Type) (string, ion.Type) {
	for t.Kind() == reflect.Ptr {
		t = t.Elem()
	}
	switch {
	case typeHasMarshaler(t, 0):
	case t.Kind() == reflect.String:
		return "symbol", ion.SymbolType
	case t.Kind() == reflect.Slice && t.Elem().Kind() == reflect.Uint8:
		return "clob", ion.ClobType
	case (t.Kind() == reflect.Slice || t.Kind() == reflect.Array) && t.Elem().Kind() != reflect.Uint8 && leafNoHint(t.Elem()):
		return "sexp", ion.SexpType
	}
	return "", ion.NoType
}

// runMarshalEnc runs one encoding path; "" when the property holds.
func runMarshalEnc(t reflect.Type, v reflect.Value, enc int, k *MarshalCase) (verdict string) {
	defer func() {
		if rec := recover(); rec != nil {
			verdict = "panic: " + ionx.PanicSite(rec)
		}
	}()
	binary := enc == 2 || enc == 3 || enc == 4 || enc == 6 || enc == 8 || enc == 10 || enc == 12
	hintName, hintType := "", ion.NoType
	if enc == 11 || enc == 12 {
		hintName, hintType = topHint(t)
		// text that looks like a symbol id is a SID reference through WriteSymbolFromString (DESIGN 7.3)
		if hintName == "symbol" {
			sv := v
			for sv.Kind() == reflect.Ptr && !sv.IsNil() {
				sv = sv.Elem()
			}
			if sv.Kind() == reflect.String && ionx.LooksLikeSID(sv.String()) {
				hintName, hintType = "", ion.NoType
			}
		}
	}
	image, ok := imageOf(v, hintName, !binary)
	if !ok {
		return ""
	}
	ptr := reflect.New(t)
	ptr.Elem().Set(v)
	var out []byte
	var err error
	stream := 1
	switch enc {
	case 0:
		out, err = ion.MarshalText(v.Interface())
	case 1:
		out, err = ion.MarshalText(ptr.Interface())
	case 2:
		out, err = ion.MarshalBinary(v.Interface())
	case 3:
		out, err = ion.MarshalBinary(ptr.Interface())
	case 4:
		texts := model.SymbolTexts([]*model.Value{image})
		for _, tx := range texts {
			if tx == "" {
				return "" // the empty text cannot be defined by a fixed table (it denotes a gap)
			}
		}
		out, err = ion.MarshalBinaryLST(v.Interface(), ion.NewLocalSymbolTable(nil, texts))
	case 7, 8: // MarshalTo on a Writer of the caller, who finishes it
		var buf bytes.Buffer
		var w ion.Writer
		if enc == 7 {
			w = ion.NewTextWriter(&buf)
		} else {
			w = ion.NewBinaryWriter(&buf)
		}
		if err = ion.MarshalTo(w, v.Interface()); err == nil {
			err = w.Finish()
		}
		out = buf.Bytes()
	case 9: // NewEncoderOpts over a Writer
		var buf bytes.Buffer
		e := ion.NewEncoderOpts(ion.NewTextWriterOpts(&buf, ion.TextWriterPretty), ion.EncoderOpts(0))
		if err = e.Encode(v.Interface()); err == nil {
			err = e.Finish()
		}
		out = buf.Bytes()
	case 10: // NewBinaryEncoderLST
		texts := model.SymbolTexts([]*model.Value{image})
		for _, tx := range texts {
			if tx == "" {
				return ""
			}
		}
		var buf bytes.Buffer
		e := ion.NewBinaryEncoderLST(&buf, ion.NewLocalSymbolTable(nil, texts))
		if err = e.Encode(v.Interface()); err == nil {
			err = e.Finish()
		}
		out = buf.Bytes()
	case 11, 12: // Encoder.EncodeAs with the hint a field tag would give (symbol, clob, sexp), or none
		var buf bytes.Buffer
		e := ion.NewTextEncoder(&buf)
		if enc == 12 {
			e = ion.NewBinaryEncoder(&buf)
		}
		if err = e.EncodeAs(v.Interface(), hintType); err == nil {
			err = e.Finish()
		}
		out = buf.Bytes()
	case 5, 6:
		var buf bytes.Buffer
		var e *ion.Encoder
		if enc == 5 {
			e = ion.NewTextEncoder(&buf)
		} else {
			e = ion.NewBinaryEncoder(&buf)
		}
		stream = 3
		for i := 0; i < stream && err == nil; i++ {
			err = e.Encode(v.Interface())
		}
		if err == nil {
			err = e.Finish()
		}
		out = buf.Bytes()
	}
	if err != nil {
		return "Marshal failed on a supported shape: " + err.Error()
	}
	k.Output = showInput(binary, out)
	// (0) the bytes returned belong to the caller: later calls must not change them
	saved := append([]byte{}, out...)
	ion.MarshalText(otherValue)
	ion.MarshalBinary(otherValue)
	ion.MarshalText(v.Interface())
	if !bytes.Equal(out, saved) {
		return "the bytes returned by Marshal changed when Marshal was called again"
	}
	// (1) the bytes denote the Ion image of the value
	var got []*model.Value
	if binary {
		got, err = refbin.Decode(out, nil)
	} else {
		got, err = reftext.Parse(string(out), nil)
	}
	if err != nil {
		return "the output is not valid Ion: " + err.Error()
	}
	var want []*model.Value
	for i := 0; i < stream; i++ {
		want = append(want, image)
	}
	// a top-level value that is itself a system value cannot be compared as a user value
	for _, w := range want {
		if w.Kind == model.Symbol && !w.IsNull && w.Sy.Text == "$ion_1_0" {
			return ""
		}
	}
	// the order of a struct's fields is not part of the Ion value (nor of the property): a library that
	// wrote promoted fields after the type's own would still denote the same value
	if d := model.DiffOpt(want, got, model.EqOpts{UnorderedStructs: true}); d != "" {
		return "the output does not denote the value's Ion image: " + d
	}
	// (2) Unmarshal returns an equal value (types that write themselves have no inverse)
	if typeHasMarshaler(t, 0) {
		return ""
	}
	if stream == 1 {
		back := reflect.New(t)
		// every way in has to agree: rotate through the entry points
		var uerr error
		switch (k.CaseSeed + int64(enc)) % 5 {
		case 0:
			uerr = ion.Unmarshal(out, back.Interface())
		case 1:
			if binary {
				uerr = ion.Unmarshal(out, back.Interface())
			} else {
				uerr = ion.UnmarshalString(string(out), back.Interface())
			}
		case 2:
			uerr = ion.UnmarshalFrom(ion.NewReaderBytes(out), back.Interface())
		case 3:
			uerr = ion.NewTextDecoder(bytes.NewReader(out)).DecodeTo(back.Interface())
		default:
			uerr = ion.NewDecoder(ion.NewReader(bytes.NewReader(out))).DecodeTo(back.Interface())
		}
		if err := uerr; err != nil {
			return "Unmarshal of the marshalled bytes failed: " + err.Error()
		}
		if d := equalGo(v, back.Elem(), "v", false); d != "" {
			return "Unmarshal(Marshal(v)) differs: " + d
		}
	} else {
		d := ion.NewDecoder(ion.NewReaderBytes(out))
		for i := 0; i < stream; i++ {
			back := reflect.New(t)
			if err := d.DecodeTo(back.Interface()); err != nil {
				return fmt.Sprintf("Decoder.DecodeTo #%d failed: %v", i, err)
			}
			if df := equalGo(v, back.Elem(), "v", false); df != "" {
				return fmt.Sprintf("Decoder.DecodeTo #%d differs: %s", i, df)
			}
		}
		if err := d.DecodeTo(reflect.New(t).Interface()); err != ion.ErrNoInput {
			return fmt.Sprintf("Decoder.DecodeTo after the last value returned %v, want ErrNoInput", err)
		}
	}
	// (3) MarshalText is deterministic
	if enc == 0 {
		again, err := ion.MarshalText(v.Interface())
		if err != nil || !bytes.Equal(again, out) {
			return "MarshalText produced different bytes for the same value"
		}
	}
	return ""
}

func kindShape(t reflect.Type, depth int) string {
	if depth > 2 {
		return "…"
	}
	switch t.Kind() {
	case reflect.Ptr:
		return "*" + kindShape(t.Elem(), depth+1)
	case reflect.Slice:
		return "[]" + kindShape(t.Elem(), depth+1)
	case reflect.Array:
		return "[n]" + kindShape(t.Elem(), depth+1)
	case reflect.Map:
		return "map[string]" + kindShape(t.Elem(), depth+1)
	case reflect.Struct:
		if isSpecialStruct(t) {
			return t.String()
		}
		return "struct"
	}
	return t.String()
}

func runC16(c *Ctx) {
	runC16ManyNulls(c)
	runC16AfterFailure(c)
	n := c.N(3000, 250000)
	c.Parallel(n, func(w, i int) {
		k := MarshalCase{CaseSeed: c.Seed*16_000_057 + int64(i), Depth: 1 + i%3}
		var t reflect.Type
		var v reflect.Value
		func() {
			defer func() {
				if rec := recover(); rec != nil {
					t = nil
				}
			}()
			t, v = buildMarshalCase(&k)
		}()
		if t == nil {
			c.Obs("type_generation_failed", 1)
			return
		}
		c.JournalCase(w, fmt.Sprintf("marshal case_seed=%d depth=%d", k.CaseSeed, k.Depth))
		nz := !emptyGo(v)
		for enc := 0; enc < len(encNames); enc++ {
			kk := k
			kk.Enc = encNames[enc]
			c.Eval(1)
			verdict := runMarshalEnc(t, v, enc, &kk)
			if typeIsNontrivial(t) && nz {
				c.NonTrivial(fmt.Sprintf("%d|%d", k.CaseSeed, enc))
			}
			if verdict == "" {
				continue
			}
			fam := "text"
			if strings.Contains(kk.Enc, "inary") {
				fam = "binary"
			}
			cls := verdict
			if j := strings.Index(cls, ": "); j > 0 {
				cls = cls[:j] + ": " + Class(cls[j+2:])
			}
			if len(cls) > 140 {
				cls = cls[:140]
			}
			c.Violate("marshal-roundtrip", fam+":"+kindShape(t, 0)+":"+Class(cls), fmt.Sprintf("type=%s value=%s via %s output=%s :: %s", k.Type, k.Value, kk.Enc, kk.Output, verdict), kk, nil)
		}
		if i < 3 {
			c.Sample(map[string]interface{}{"go_type": k.Type, "go_value": k.Value, "encodings": encNames})
		}
	})
	// values in which one pointer is reachable twice (no cycle): each occurrence is just a value
	shared := append(sharedPointerValues(), marshalerValues()...)
	// annotated values whose annotation symbols get ids beyond one byte (more than 118 distinct
	// symbols are interned before them)
	{
		many := map[string]int{}
		for i := 0; i < 150; i++ {
			many[fmt.Sprintf("key_%03d", i)] = i
		}
		tok := func(s string) ion.SymbolToken { return ion.NewSymbolTokenFromString(s) }
		var ws []wrapInt
		for i := 0; i < 200; i++ {
			ws = append(ws, wrapInt{V: i, A: []ion.SymbolToken{tok(fmt.Sprintf("sensor_%03d", i))}})
		}
		// small lobs and big ints early in an output of several buffers' length: what Unmarshal stores
		// for them must not be a view of something it goes on using
		type rec struct {
			ID   int      `ion:"id"`
			Hash []byte   `ion:"hash"`
			Big  *big.Int `ion:"big"`
			Note string   `ion:"note"`
		}
		var recs []rec
		for i := 0; i < 220; i++ {
			recs = append(recs, rec{ID: i, Hash: []byte(fmt.Sprintf("hash-%04d-%04d", i, i*7)), Big: new(big.Int).Lsh(big.NewInt(int64(i+3)), 70), Note: strings.Repeat("n", 20+i%30)})
		}
		shared = append(shared,
			struct {
				Key   []byte   `ion:"key"`
				Clob  []byte   `ion:"clob,clob"`
				Body  string   `ion:"body"`
				Names []string `ion:"names"`
				Tail  []byte   `ion:"tail"`
			}{[]byte("Torrance-key-001"), []byte("a clob of some bytes"), strings.Repeat("body text ", 900), []string{"a", "b", "c", "d", "e", "f", "g"}, []byte("tail")},
			recs,
			map[string]*rec{"first": &recs[0], "second": &recs[1], "last": &recs[219]},
		)
		shared = append(shared,
			struct {
				M map[string]int `ion:"m"`
				W wrapInt        `ion:"w"`
				X wrapInt        `ion:"x"`
			}{many, wrapInt{V: 1250, A: []ion.SymbolToken{tok("kWh")}}, wrapInt{V: 7, A: []ion.SymbolToken{tok("key_149"), tok("late_one"), tok("late_two")}}},
			ws,
			struct {
				L []wrapInt `ion:"l"`
				S []string  `ion:"s,omitempty"`
			}{L: ws[60:190]},
		)
	}
	c.Parallel(len(shared), func(w, i int) {
		v := reflect.ValueOf(shared[i])
		t := v.Type()
		for enc := 0; enc < len(encNames); enc++ {
			kk := MarshalCase{CaseSeed: int64(i), Type: trunc200(t.String()), Value: trunc200(fmt.Sprintf("%+v", shared[i])), Enc: encNames[enc]}
			c.Eval(1)
			c.NonTrivial(fmt.Sprintf("shared|%d|%d", i, enc))
			if verdict := runMarshalEnc(t, v, enc, &kk); verdict != "" {
				c.Violate("marshal-shared-pointers", kindShape(t, 0)+":"+Class(verdict), fmt.Sprintf("type=%s value=%s via %s output=%s :: %s", kk.Type, kk.Value, kk.Enc, kk.Output, verdict), kk, nil)
			}
		}
	})
	c.Obs("shared_pointer_values", int64(len(shared)))
}

type spAddr struct {
	Street string `ion:"street"`
	No     int    `ion:"no"`
}
type spOrder struct {
	ID       int     `ion:"id"`
	Billing  *spAddr `ion:"billing"`
	Shipping *spAddr `ion:"shipping"`
	Notes    []*string
}
type spNode struct {
	V    int     `ion:"v"`
	Next *spNode `ion:"next,omitempty"`
	Kids []*spNode
}
type spEmpty struct{}

func sharedPointerValues() []interface{} {
	home := &spAddr{"Main St", 7}
	n := 5
	s := "note"
	leaf := &spNode{V: 3}
	e := &spEmpty{}
	return []interface{}{
		spOrder{ID: 7, Billing: home, Shipping: home, Notes: []*string{&s, &s, &s}},
		&spOrder{ID: 8, Billing: home, Shipping: home},
		[]*int{&n, &n},
		[2]*int{&n, &n},
		map[string]*spAddr{"from": home, "to": home},
		spNode{V: 1, Next: leaf, Kids: []*spNode{leaf, leaf, {V: 4, Next: leaf}}},
		[]*spEmpty{e, e, &spEmpty{}},
		struct {
			A, B *spEmpty
			C    **int
			D    **int
		}{e, e, func() **int { p := &n; return &p }(), func() **int { p := &n; return &p }()},
		// a long chain is not a cycle either
		func() *spNode {
			head := &spNode{V: 0}
			cur := head
			for i := 1; i < 200; i++ {
				cur.Next = &spNode{V: i}
				cur = cur.Next
			}
			return head
		}(),
	}
}

func init() {
	Register(&Monitor{ID: "C16", Run: func(c *Ctx) {
		c.Rule = "Go types assembled at random (reflect.StructOf/SliceOf/ArrayOf/MapOf/PtrTo) from bool, all int/uint widths, floats, string, []byte, [N]byte, slices, arrays, map[string]T, pointers, interface{}, nested and embedded structs with rename/omitempty/symbol/clob/sexp/- tags, annotation wrappers, Timestamp, Decimal, *Decimal, time.Time, big.Int, *big.Int; boundary-biased values; each through MarshalText/MarshalBinary (value and pointer), MarshalBinaryLST, MarshalTo, NewEncoderOpts, NewBinaryEncoderLST, EncodeAs with the applicable hint and Encoder/Decoder streams; flat values with more than 10000 nil pointers, slices, maps and interfaces, and a Decoder stream of 10500 rows; ordinary Marshal calls after calls that failed half way (channel field, failing Marshaler, symbol missing from a fixed table). Oracles: no panic/error on a supported shape; the bytes denote the value's Ion image under the independent decoder; Unmarshal into the same type gives an equal value (NaN=NaN, Timestamp/Decimal by Ion equivalence, time.Time by instant and offset, nil and empty slices equal); MarshalText is deterministic. Non-trivial: composite type or >= 2 fields with a non-zero value; distinct by (generated case, encoding)."
		c.Assume("interface{} values are restricted to the dynamic types Unmarshal itself produces; inside nested interface containers to those that Decode returns by value (ints, bools, []byte, containers)")
		runC16(c)
	}, Replay: func(c *Ctx, v *Violation) string {
		var k MarshalCase
		if err := json.Unmarshal(v.Case, &k); err != nil {
			return "cannot decode case: " + err.Error()
		}
		if k.CaseSeed < 0 {
			// a directed value (many flat nulls): the value is built by the check itself
			for i, x := range manyNullValues() {
				if int64(-1-i) == k.CaseSeed {
					for enc, name := range encNames {
						if name == k.Enc {
							if r := runMarshalEnc(reflect.TypeOf(x), reflect.ValueOf(x), enc, &k); r != "" {
								return "VIOLATED on replay: " + r
							}
							return "HELD on replay"
						}
					}
				}
			}
			return "directed case: run the check again to reproduce it"
		}
		t, val := buildMarshalCase(&k)
		for enc, name := range encNames {
			if name == k.Enc {
				if r := runMarshalEnc(t, val, enc, &k); r != "" {
					return "VIOLATED on replay: " + r
				}
			}
		}
		return "HELD on replay"
	}})
}
