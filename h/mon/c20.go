package mon

import (
	"bytes"
	"encoding/hex"
	"encoding/json"
	"fmt"
	"math/rand"
	"os"
	"os/exec"
	"path/filepath"
	"strings"
	"syscall"
	"time"

	"verifh/gen"
	"verifh/model"
	"verifh/refbin"
	"verifh/reftext"
)

// CLICase is a replayable run of `ion-go process`.
type CLICase struct {
	InputHex string `json:"input_hex"`
	Shown    string `json:"input_shown"`
	Format   string `json:"format"`
	Stdin    bool   `json:"stdin"`
	// StdinKind: "" (pipe), "file", "socket", "devnull" (only for an empty document)
	StdinKind string `json:"stdin_kind,omitempty"`
	ToStdout bool   `json:"stdout"`
	Invalid  bool   `json:"invalid_input"`
	// ExtraHex: further input files given after the first on the command line (file mode only)
	ExtraHex []string `json:"extra_input_files_hex,omitempty"`
	// Stale: the -o and -e files exist before the run and hold this many bytes of an earlier, longer result
	Stale int `json:"stale_output_bytes,omitempty"`
	// FDLimit: the process runs with this limit on open files (ulimit -n), as under a service manager
	FDLimit int    `json:"open_file_limit,omitempty"`
	Output  string `json:"output_shown,omitempty"`
	Stderr   string `json:"stderr,omitempty"`
	Report   string `json:"error_report,omitempty"`
}

func cliPath(root string) string {
	// run.sh builds every invocation's binaries into a directory of its own
	if b := os.Getenv("VERIF_BIN"); b != "" {
		return filepath.Join(b, "ion-go-cli")
	}
	return filepath.Join(root, "bin", "ion-go-cli")
}

type cliResult struct {
	out, stderr, report []byte
	exit                int
	err                 error
	timedOut            bool
}

func runCLI(root string, k *CLICase, dir string, id int) cliResult {
	data, _ := hex.DecodeString(k.InputHex)
	in := filepath.Join(dir, fmt.Sprintf("in-%d.ion", id))
	outp := filepath.Join(dir, fmt.Sprintf("out-%d", id))
	errp := filepath.Join(dir, fmt.Sprintf("err-%d", id))
	os.WriteFile(in, data, 0o644)
	defer os.Remove(in)
	defer os.Remove(outp)
	defer os.Remove(errp)
	args := []string{"process", "-f", k.Format, "-e", errp}
	if !k.ToStdout {
		args = append(args, "-o", outp)
	}
	if !k.Stdin {
		args = append(args, in)
		for xi, xh := range k.ExtraHex {
			xd, _ := hex.DecodeString(xh)
			xp := filepath.Join(dir, fmt.Sprintf("in-%d-%d.ion", id, xi))
			os.WriteFile(xp, xd, 0o644)
			defer os.Remove(xp)
			args = append(args, xp)
		}
	}
	if k.Stale > 0 {
		// what an earlier run on a bigger document left behind
		old := bytes.Repeat([]byte("77777 "), k.Stale/6+1)
		if !k.ToStdout {
			os.WriteFile(outp, old, 0o644)
		}
		os.WriteFile(errp, bytes.Repeat([]byte("{error_type:READ,message:\"stale\",location:\"old\",event_index:7}\n"), k.Stale/64+1), 0o644)
	}
	cmd := exec.Command(cliPath(root), args...)
	if k.FDLimit > 0 {
		cmd = exec.Command("sh", append([]string{"-c", fmt.Sprintf("ulimit -n %d && exec \"$@\"", k.FDLimit), "sh", cliPath(root)}, args...)...)
	}
	var so, se bytes.Buffer
	cmd.Stdout, cmd.Stderr = &so, &se
	var res cliResult
	if k.Stdin {
		// standard input comes in several kinds: a pipe, a redirected regular file, a connected
		// socket (how a parent process, inetd or a service manager hands it over), /dev/null
		switch k.StdinKind {
		case "file":
			f, err := os.Open(in)
			if err != nil {
				res.err = err
				return res
			}
			defer f.Close()
			cmd.Stdin = f
		case "socket":
			// (close-on-exec: no child may inherit the feeding end, or end of input never arrives)
			fds, err := syscall.Socketpair(syscall.AF_UNIX, syscall.SOCK_STREAM|syscall.SOCK_CLOEXEC, 0)
			if err != nil {
				cmd.Stdin = bytes.NewReader(data)
				break
			}
			rd, wr := os.NewFile(uintptr(fds[0]), "stdin-socket"), os.NewFile(uintptr(fds[1]), "feeder")
			defer rd.Close()
			go func() {
				wr.Write(data)
				wr.Close()
			}()
			cmd.Stdin = rd
		case "devnull":
			f, err := os.Open(os.DevNull)
			if err != nil {
				res.err = err
				return res
			}
			defer f.Close()
			cmd.Stdin = f
		default:
			cmd.Stdin = bytes.NewReader(data)
		}
	}
	if err := cmd.Start(); err != nil {
		res.err = err
		return res
	}
	done := make(chan error, 1)
	go func() { done <- cmd.Wait() }()
	select {
	case err := <-done:
		res.err = err
	case <-time.After(60 * time.Second):
		cmd.Process.Kill()
		<-done
		res.timedOut = true
	}
	if cmd.ProcessState != nil {
		res.exit = cmd.ProcessState.ExitCode()
	}
	res.stderr = se.Bytes()
	if k.ToStdout {
		res.out = so.Bytes()
	} else {
		res.out, _ = os.ReadFile(outp)
	}
	res.report, _ = os.ReadFile(errp)
	return res
}

func symText(v *model.Value) (string, bool) {
	if v.Kind == model.Symbol && !v.IsNull && v.Sy.HasText {
		return v.Sy.Text, true
	}
	if v.Kind == model.String && !v.IsNull {
		return v.S, true
	}
	return "", false
}

func fieldOf(st *model.Value, name string) *model.Value {
	for _, k := range st.Kids {
		if k.Field != nil && k.Field.HasText && k.Field.Text == name {
			return k
		}
	}
	return nil
}

// tokenText extracts the text of a marshalled SymbolToken struct ({Text:"..", LocalSID:.., Source:..}).
func tokenText(v *model.Value) (model.Sym, bool) {
	if v.Kind != model.Struct || v.IsNull {
		return model.Sym{}, false
	}
	t := fieldOf(v, "Text")
	if t == nil {
		t = fieldOf(v, "text")
	}
	if t == nil {
		return model.Sym{}, false
	}
	if t.IsNull || t.Kind == model.Null {
		sid := fieldOf(v, "LocalSID")
		if sid != nil && sid.Kind == model.Int && !sid.IsNull {
			return model.SID(sid.I.Int64()), true
		}
		return model.SID(0), true
	}
	if t.Kind == model.String {
		return model.T(t.S), true
	}
	return model.Sym{}, false
}

var ionTypeNames = map[string]model.Kind{"NULL": model.Null, "BOOL": model.Bool, "INT": model.Int, "FLOAT": model.Float, "DECIMAL": model.Decimal, "TIMESTAMP": model.Timestamp,
	"SYMBOL": model.Symbol, "STRING": model.String, "CLOB": model.Clob, "BLOB": model.Blob, "LIST": model.List, "SEXP": model.Sexp, "STRUCT": model.Struct}

// eventsToModel checks the event stream automaton and rebuilds the value stream it describes.
func eventsToModel(out []byte) ([]*model.Value, string) {
	vals, err := reftext.Parse(string(out), &reftext.ParseOpts{Raw: false})
	if err != nil {
		return nil, "events output is not valid Ion text: " + err.Error()
	}
	if len(vals) == 0 {
		return nil, "events output is empty"
	}
	if t, ok := symText(vals[0]); !ok || t != "$ion_event_stream" || vals[0].Kind != model.Symbol {
		return nil, "events output does not start with the symbol $ion_event_stream"
	}
	var top []*model.Value
	var stack []*model.Value
	ended := false
	for i, ev := range vals[1:] {
		if ended {
			return nil, fmt.Sprintf("event %d follows STREAM_END", i)
		}
		if ev.Kind != model.Struct || ev.IsNull {
			return nil, fmt.Sprintf("event %d is not a struct", i)
		}
		et := fieldOf(ev, "event_type")
		if et == nil {
			return nil, fmt.Sprintf("event %d has no event_type", i)
		}
		etype, _ := symText(et)
		depth := fieldOf(ev, "depth")
		if depth == nil || depth.Kind != model.Int || depth.IsNull {
			return nil, fmt.Sprintf("event %d (%s) has no integer depth", i, etype)
		}
		if etype == "STREAM_END" {
			if len(stack) != 0 {
				return nil, "STREAM_END inside an open container"
			}
			if depth.I.Int64() != 0 {
				return nil, "STREAM_END with non-zero depth"
			}
			ended = true
			continue
		}
		if etype == "SYMBOL_TABLE" {
			continue
		}
		itv := fieldOf(ev, "ion_type")
		itn, _ := symText(itv0(itv))
		kind, ok := ionTypeNames[itn]
		if !ok {
			return nil, fmt.Sprintf("event %d (%s) has ion_type %q", i, etype, itn)
		}
		wantDepth := int64(len(stack))
		if etype == "CONTAINER_END" {
			wantDepth--
		}
		if depth.I.Int64() != wantDepth {
			return nil, fmt.Sprintf("event %d (%s %s) has depth %v, current nesting %d", i, etype, itn, depth.I, wantDepth)
		}
		if etype == "CONTAINER_END" {
			if len(stack) == 0 {
				return nil, fmt.Sprintf("event %d: CONTAINER_END without an open container", i)
			}
			if stack[len(stack)-1].Kind != kind {
				return nil, fmt.Sprintf("event %d: CONTAINER_END %s closes a %v", i, itn, stack[len(stack)-1].Kind)
			}
			stack = stack[:len(stack)-1]
			continue
		}
		var v *model.Value
		switch etype {
		case "SCALAR":
			vt := fieldOf(ev, "value_text")
			if vt == nil || vt.Kind != model.String || vt.IsNull {
				return nil, fmt.Sprintf("event %d: SCALAR without value_text", i)
			}
			sv, err := reftext.Parse(vt.S, nil)
			if err != nil || len(sv) != 1 {
				return nil, fmt.Sprintf("event %d: value_text %q is not one Ion value (%v)", i, trunc200(vt.S), err)
			}
			v = sv[0]
			if v.Kind != kind {
				return nil, fmt.Sprintf("event %d: ion_type %s but value_text %q is a %v", i, itn, trunc200(vt.S), v.Kind)
			}
			if v.Kind.IsContainer() && !v.IsNull {
				return nil, fmt.Sprintf("event %d: SCALAR event carries a container", i)
			}
		case "CONTAINER_START":
			if !kind.IsContainer() {
				return nil, fmt.Sprintf("event %d: CONTAINER_START of a %s", i, itn)
			}
			v = &model.Value{Kind: kind}
		default:
			return nil, fmt.Sprintf("event %d has event_type %q", i, etype)
		}
		// field name exactly for direct children of structs
		fn := fieldOf(ev, "field_name")
		inStruct := len(stack) > 0 && stack[len(stack)-1].Kind == model.Struct
		if inStruct {
			if fn == nil {
				return nil, fmt.Sprintf("event %d: child of a struct without field_name", i)
			}
			s, ok := tokenText(fn)
			if !ok {
				return nil, fmt.Sprintf("event %d: field_name is not a symbol token", i)
			}
			v.Field = &s
		} else if fn != nil && !(fn.IsNull || fn.Kind == model.Null) {
			return nil, fmt.Sprintf("event %d: field_name outside a struct", i)
		}
		if an := fieldOf(ev, "annotations"); an != nil && !an.IsNull && an.Kind == model.List {
			v.Ann = nil
			for _, a := range an.Kids {
				s, ok := tokenText(a)
				if !ok {
					return nil, fmt.Sprintf("event %d: annotation is not a symbol token", i)
				}
				v.Ann = append(v.Ann, s)
			}
		}
		if len(stack) > 0 {
			p := stack[len(stack)-1]
			p.Kids = append(p.Kids, v)
		} else {
			top = append(top, v)
		}
		if etype == "CONTAINER_START" {
			stack = append(stack, v)
		}
	}
	if !ended {
		return nil, "no STREAM_END event"
	}
	return top, ""
}

func itv0(v *model.Value) *model.Value {
	if v == nil {
		return &model.Value{Kind: model.Null, IsNull: true}
	}
	return v
}

// normEventSyms: field names written by the event writer for unknown text are "$n" text.
func normEventSyms(vs []*model.Value) {
	model.Walk(vs, func(v *model.Value, _ int) {
		if v.Field != nil && !v.Field.HasText {
			t := model.T(fmt.Sprintf("$%d", v.Field.SID))
			v.Field = &t
		}
	})
}

func judgeCLI(k *CLICase, res cliResult, want []*model.Value) string {
	k.Stderr = trunc200(string(res.stderr))
	k.Report = trunc200(string(res.report))
	binaryOut := k.Format == "binary"
	k.Output = showInput(binaryOut, res.out)
	if res.timedOut {
		return "the process did not finish within 60 s"
	}
	se := string(res.stderr)
	if strings.Contains(se, "panic:") || strings.Contains(se, "fatal error:") || strings.Contains(se, "goroutine ") {
		first := se
		if i := strings.Index(first, "\n"); i > 0 {
			first = first[:i]
		}
		return "the process crashed: " + first
	}
	// Valid input has to be processed successfully (status 0). For invalid input the property asks for a
	// report entry instead of a crash: a tool may well tell its caller through the exit status that the
	// report is not empty, so only the statuses of a crash count (2 is how a Go program dies of a panic or
	// a fatal error, -1 and 128+n are a signal).
	if res.exit != 0 && (!k.Invalid || res.exit == 2 || res.exit < 0 || res.exit > 128) {
		return fmt.Sprintf("abnormal exit status %d", res.exit)
	}
	if k.Invalid {
		rep, err := reftext.Parse(string(res.report), nil)
		if err != nil {
			return "the error report is not valid Ion: " + err.Error()
		}
		n := 0
		for _, e := range rep {
			et := fieldOf(e, "error_type")
			msg := fieldOf(e, "message")
			if e.Kind == model.Struct && et != nil && msg != nil {
				if t, _ := symText(et); t == "READ" || t == "WRITE" || t == "STATE" {
					n++
				}
			}
		}
		if n == 0 {
			return "invalid input produced no error report entry"
		}
		return ""
	}
	if len(bytes.TrimSpace(res.report)) != 0 {
		return "valid input produced an error report: " + trunc200(string(res.report))
	}
	switch k.Format {
	case "none":
		if len(res.out) != 0 {
			return "format none produced output"
		}
		return ""
	case "text", "pretty":
		got, err := reftext.Parse(string(res.out), nil)
		if err != nil {
			return "the output is not valid Ion text: " + err.Error()
		}
		if d := model.Diff(want, got); d != "" {
			return "the output denotes different values: " + d
		}
	case "binary":
		if len(want) == 0 && len(res.out) == 0 {
			return ""
		}
		got, err := refbin.Decode(res.out, nil)
		if err != nil {
			return "the output is not valid Ion binary: " + err.Error()
		}
		if d := model.Diff(want, got); d != "" {
			return "the output denotes different values: " + d
		}
	case "events":
		got, verdict := eventsToModel(res.out)
		if verdict != "" {
			return verdict
		}
		w2 := model.CloneAll(want)
		normEventSyms(w2)
		if d := model.Diff(w2, got); d != "" {
			return "the event stream describes different values: " + d
		}
	}
	return ""
}

func runC20(c *Ctx) {
	if _, err := os.Stat(cliPath(c.Root)); err != nil {
		c.Inconclusive("bin/ion-go-cli was not built: " + err.Error())
		return
	}
	dir := filepath.Join(c.Root, "out", "c20")
	os.MkdirAll(dir, 0o755)
	formats := []string{"text", "pretty", "binary", "events", "none"}
	ndocs := c.N(250, 12000)
	batoms, tatoms := binaryAtoms(), textAtoms()
	c.Parallel(ndocs, func(w, i int) {
		cs := c.Seed*20_000_003 + int64(i)
		r := rand.New(rand.NewSource(cs))
		g := gen.New(cs)
		g.MaxDepth = 3
		g.MaxLen = 40
		vals := g.Stream()
		binary := i%2 == 1
		invalid := i%6 == 5
		if dd := cliDirectedDocs(); !invalid && i/2 < len(dd) {
			vals = dd[i/2]
		}
		var data []byte
		if invalid {
			var nodes []*model.Value
			model.Walk(vals, func(v *model.Value, d int) { nodes = append(nodes, v) })
			if len(nodes) == 0 {
				return
			}
			node := nodes[r.Intn(len(nodes))]
			if binary {
				e := refbin.NewEncoder(newChoice(cs, 0.1), nil)
				e.Raw = map[*model.Value][]byte{node: batoms[r.Intn(len(batoms))].data}
				if e.Stream(vals) != nil {
					return
				}
				data = e.Out
			} else {
				p := reftext.NewPrinter(newChoice(cs, 0.1))
				p.Raw = map[*model.Value]string{node: string(tatoms[r.Intn(len(tatoms))].data)}
				if p.Stream(vals) != nil {
					return
				}
				data = []byte(p.B.String())
			}
			if !refRejects(binary, data) {
				return
			}
		} else {
			rk := ReadCase{CaseSeed: cs, Binary: binary, P: 0.2, Vals: vals}
			d, unordered, _, err := rk.render()
			if err != nil || unordered || rk.selfCheck(d, false) != "" {
				return
			}
			data = d
		}
		hasFeature := false
		model.Walk(vals, func(v *model.Value, _ int) {
			if v.Kind.IsContainer() || v.IsNull || len(v.Ann) > 0 {
				hasFeature = true
			}
		})
		c.JournalCase(w, fmt.Sprintf("cli case_seed=%d", cs))
		// a second input file with symbol tables of its own (every third valid document, file mode):
		// each file is a stream of its own, the output is one stream of all the values
		var extra []string
		wantAll := vals
		if !invalid && i%3 == 1 {
			g2 := gen.New(cs + 7)
			g2.MaxDepth = 2
			g2.MaxLen = 20
			vals2 := append([]*model.Value{model.SymV(model.T("first_of_second_file")), model.SymV(model.T("beta")).WithAnn(model.T("gamma"))}, g2.Stream()...)
			// same format as the first file half of the time (ids of one file mean other text in the next)
			rk2 := ReadCase{CaseSeed: cs + 7, Binary: binary != (i%4 == 1), P: 0.3, Vals: vals2}
			vals1 := append([]*model.Value{model.SymV(model.T("first_of_first_file")), model.SymV(model.T("alpha")).WithAnn(model.T("delta"))}, vals...)
			rk1 := ReadCase{CaseSeed: cs, Binary: binary, P: 0.2, Vals: vals1}
			d1, un1, _, err1 := rk1.render()
			if d2, un2, _, err := rk2.render(); err == nil && !un2 && rk2.selfCheck(d2, false) == "" && err1 == nil && !un1 && rk1.selfCheck(d1, false) == "" {
				data = d1
				vals = vals1
				extra = []string{hex.EncodeToString(d2)}
				wantAll = append(append([]*model.Value{}, vals1...), vals2...)
				c.Feat1("two-input-files")
			}
		}
		for fi, f := range formats {
			for _, stdin := range []bool{false, true} {
				k := CLICase{InputHex: hex.EncodeToString(data), Shown: showInput(binary, data), Format: f, Stdin: stdin, ToStdout: (i+fi)%2 == 0, Invalid: invalid}
				vals := vals
				if !stdin && extra != nil {
					k.ExtraHex = extra
					vals = wantAll
				}
				if stdin {
					k.StdinKind = []string{"", "file", "socket"}[(i+fi)%3]
					if len(data) == 0 {
						k.StdinKind = "devnull"
					}
				}
				if (i+fi)%4 == 1 {
					k.Stale = 100*len(data) + 65536
					if k.Stale > 4<<20 {
						k.Stale = 4 << 20
					}
				}
				res := runCLI(c.Root, &k, dir, w*100+fi*2+b2i(stdin))
				c.Eval(1)
				if res.err != nil && res.exit == 0 && !res.timedOut {
					c.Inconclusive("cannot run the CLI: " + res.err.Error())
					return
				}
				if hasFeature {
					c.NonTrivial(fmt.Sprintf("%s|%s|%v", k.InputHex, f, stdin))
				}
				if v := judgeCLI(&k, res, vals); v != "" {
					cls := v
					if j := strings.Index(cls, ": "); j > 0 {
						cls = cls[:j] + ": " + Class(cls[j+2:])
					}
					if len(cls) > 150 {
						cls = cls[:150]
					}
					kind := "valid"
					if invalid {
						kind = "invalid"
					}
					c.Violate("cli-process", f+":"+kind+":"+Class(cls), fmt.Sprintf("format=%s stdin=%v input=%s output=%s stderr=%s :: %s", f, stdin, k.Shown, k.Output, k.Stderr, v), k, nil)
				}
			}
		}
		if i < 3 {
			c.Sample(map[string]interface{}{"input": showInput(binary, data), "formats": formats, "invalid": invalid})
		}
	})
	// ---------- more input files in one run than the process may have open at once ----------
	// (every file is a stream of its own and is finished with before the next; a service manager or a
	// container commonly runs with a low limit on open files)
	{
		var all []*model.Value
		var files []string
		okBuild := true
		for fi := 0; fi < 100 && okBuild; fi++ {
			doc := []*model.Value{model.StructV(model.Int64V(int64(fi)).WithAnn(model.T("file")).WithField(model.T("n")))}
			rk := ReadCase{CaseSeed: int64(fi), Binary: fi%2 == 1, P: 0, Vals: doc}
			d, un, _, err := rk.render()
			if err != nil || un || rk.selfCheck(d, false) != "" {
				okBuild = false
				break
			}
			files = append(files, hex.EncodeToString(d))
			all = append(all, doc...)
		}
		if !okBuild {
			c.Inconclusive("many-input-files: the reference renderer refused a document")
		} else {
			for fi, f := range []string{"text", "pretty", "binary", "events", "none"} {
				k := CLICase{InputHex: files[0], Shown: fmt.Sprintf("100 files {n:file::<i>}, text and binary alternating, open-file limit 32"), Format: f, ExtraHex: files[1:], ToStdout: fi%2 == 0, FDLimit: 32}
				res := runCLI(c.Root, &k, dir, 9000+fi)
				c.Eval(1)
				c.Obs("runs_with_more_files_than_the_open_file_limit", 1)
				if res.err != nil && res.exit == 0 && !res.timedOut {
					c.Inconclusive("cannot run the CLI under ulimit -n: " + res.err.Error())
					break
				}
				c.NonTrivial(fmt.Sprintf("many-files|%s", f))
				if v := judgeCLI(&k, res, all); v != "" {
					cls := v
					if j := strings.Index(cls, ": "); j > 0 {
						cls = cls[:j] + ": " + Class(cls[j+2:])
					}
					if len(cls) > 150 {
						cls = cls[:150]
					}
					c.Violate("cli-process", f+":many-files:"+Class(cls), fmt.Sprintf("format=%s input=%s output=%s stderr=%s :: %s", f, k.Shown, k.Output, k.Stderr, v), k, nil)
				}
			}
		}
	}
	os.RemoveAll(dir)
}

func b2i(b bool) int {
	if b {
		return 1
	}
	return 0
}

func init() {
	Register(&Monitor{ID: "C20", Run: func(c *Ctx) {
		c.Rule = "the ion-go binary built from /repo/cmd/ion-go run as a subprocess on generated documents (text and binary renderings from the reference producers: typed nulls of every type, annotations, field names, nested containers, big ints, every scalar kind; plus directed documents: every integer within 2 of ±2^{7,8,15,16,31,32,62,63,64,65,80,127,128}, float/decimal edges, timestamps of every precision, every typed null, values resembling system values) x output formats text/pretty/binary/events/none x {file argument, stdin} x {-o file, stdout}, with -e error file; standard input as pipe, regular file, connected socket and /dev/null; two input files with tables of their own; a quarter of the runs with -o and -e files that already hold a longer, older result; 100 input files in one run under an open-file limit of 32; 70000 top-level values; scalars of 32 to 70 KB. Oracles: no panic/fatal trace, exit 0; text/pretty/binary output decodes (independent decoder) to the input model; events output passes an event-stream automaton ($ion_event_stream first, one well-formed event per scalar / container start / container end, depths, balanced and typed START/END, value_text re-parsing to the scalar, field_name exactly for struct children, annotations, single final STREAM_END) and rebuilds the input model; for invalid inputs (C07 catalogue) at least one READ/WRITE/STATE entry in the error report. Non-trivial: the document has a container, a typed null or an annotation; distinct by (document, format, input mode)."
		runC20(c)
	}, Replay: func(c *Ctx, v *Violation) string {
		var k CLICase
		if err := json.Unmarshal(v.Case, &k); err != nil {
			return "cannot decode case: " + err.Error()
		}
		dir := filepath.Join(c.Root, "out", "c20-replay")
		os.MkdirAll(dir, 0o755)
		defer os.RemoveAll(dir)
		var want []*model.Value
		for _, hx := range append([]string{k.InputHex}, k.ExtraHex...) {
			data, _ := hex.DecodeString(hx)
			var part []*model.Value
			if len(data) >= 4 && data[0] == 0xE0 && data[3] == 0xEA {
				part, _ = refbin.Decode(data, nil)
			} else {
				part, _ = reftext.Parse(string(data), nil)
			}
			want = append(want, part...)
		}
		res := runCLI(c.Root, &k, dir, 0)
		if r := judgeCLI(&k, res, want); r != "" {
			return "VIOLATED on replay: " + r
		}
		return "HELD on replay"
	}})
}
