package mon

import (
	"bytes"
	"encoding/hex"
	"encoding/json"
	"fmt"
	"math/rand"

	"github.com/amzn/ion-go/ion"

	"verifh/gen"
	"verifh/ionx"
	"verifh/model"
	"verifh/refbin"
	"verifh/refsym"
)

// TableCase is a replayable C11 case.
type TableCase struct {
	Tables  []SymImport    `json:"tables"` // MaxID >= 0: adjusted
	Locals  []string       `json:"locals,omitempty"`
	Fixed   bool           `json:"fixed_lst"`
	Vals    []*model.Value `json:"vals"`
	Seed    int64          `json:"case_seed"`
	OutHex  string         `json:"output_hex,omitempty"`
	Marshal bool           `json:"fixed_table_is_builder_snapshot,omitempty"`
	// FinishEvery > 0: Finish is also called after every that many values (several batches, one Writer).
	FinishEvery int `json:"finish_every,omitempty"`
	// SysAt > 0: the system symbol table itself is listed among the writer's tables at position SysAt-1
	SysAt int `json:"system_table_listed_at,omitempty"`
}

func (k *TableCase) tables() ([]ion.SharedSymbolTable, refsym.Catalog, *refsym.Context) {
	var ssts []ion.SharedSymbolTable
	var rc refsym.Catalog
	ctx := refsym.System()
	for _, t := range k.Tables {
		s := ion.NewSharedSymbolTable(t.Name, t.Version, t.Symbols)
		n := len(t.Symbols)
		if t.MaxID >= 0 {
			s = s.Adjust(uint64(t.MaxID))
			n = int(t.MaxID)
		}
		ssts = append(ssts, s)
		rc = append(rc, &refsym.Shared{Name: t.Name, Version: t.Version, Slots: slotsOf(t.Symbols)})
		keep := len(t.Symbols)
		if keep > n {
			keep = n
		}
		ctx.Segs = append(ctx.Segs, refsym.Segment{Slots: slotsOf(t.Symbols[:keep]), N: uint64(n), Name: t.Name, Version: t.Version, Found: true, Import: true})
	}
	return withSystemAt(ssts, k.SysAt), rc, ctx
}

// walkSyms calls f for every symbol occurrence of resolved/raw trees in parallel.
func walkSyms(res, raw []*model.Value, f func(text model.Sym, sid model.Sym) string) string {
	if len(res) != len(raw) {
		return "raw and resolved decodes differ in shape"
	}
	for i := range res {
		a, b := res[i], raw[i]
		for j := range a.Ann {
			if j < len(b.Ann) {
				if v := f(a.Ann[j], b.Ann[j]); v != "" {
					return v
				}
			}
		}
		if a.Field != nil && b.Field != nil {
			if v := f(*a.Field, *b.Field); v != "" {
				return v
			}
		}
		if a.Kind == model.Symbol && !a.IsNull {
			if v := f(a.Sy, b.Sy); v != "" {
				return v
			}
		}
		if v := walkSyms(a.Kids, b.Kids, f); v != "" {
			return v
		}
	}
	return ""
}

func runTableCase(k *TableCase) (verdict string) {
	defer func() {
		if rec := recover(); rec != nil {
			verdict = "panic: " + ionx.PanicSite(rec)
		}
	}()
	ssts, rc, impCtx := k.tables()
	var out bytes.Buffer
	var w ion.Writer
	var fixedCtx *refsym.Context
	if k.Fixed && k.Marshal {
		// the fixed table is a Build() snapshot of a builder that keeps growing afterwards
		b := ion.NewSymbolTableBuilder(ssts...)
		fixedCtx = impCtx.Clone()
		var locs []string
		for _, t := range k.Locals {
			if t == "" {
				continue
			}
			if _, added := b.Add(t); added {
				locs = append(locs, t)
			}
		}
		lst := b.Build()
		for _, t := range []string{"out1", "out2", "a", "b", "c", "d", "e", "x1", "x2", "x3", "+", "null"} {
			b.Add(t)
		}
		w = ion.NewBinaryWriterLST(&out, lst)
		if len(locs) > 0 {
			fixedCtx.Segs = append(fixedCtx.Segs, refsym.Segment{Slots: slotsOf(locs), N: uint64(len(locs))})
		}
	} else if k.Fixed {
		lst := ion.NewLocalSymbolTable(ssts, k.Locals)
		w = ion.NewBinaryWriterLST(&out, lst)
		fixedCtx = impCtx.Clone()
		if len(k.Locals) > 0 {
			fixedCtx.Segs = append(fixedCtx.Segs, refsym.Segment{Slots: slotsOf(k.Locals), N: uint64(len(k.Locals))})
		}
	} else {
		w = ion.NewBinaryWriter(&out, ssts...)
	}
	// which top-level values can be written under a fixed table?
	completed := 0
	var werr error
	for i, v := range k.Vals {
		err := ionx.Write(w, []*model.Value{v}, &ionx.WriteOpts{Rnd: rand.New(rand.NewSource(k.Seed))})
		if err != nil {
			werr = err
			break
		}
		completed++
		if k.FinishEvery > 0 && (i+1)%k.FinishEvery == 0 && i+1 < len(k.Vals) {
			if err := w.Finish(); err != nil {
				return fmt.Sprintf("Finish after value %d: %v", i, err)
			}
		}
	}
	if k.Fixed {
		// expectation: the first value that uses a text outside the table fails
		expectFail := -1
		for i, v := range k.Vals {
			for _, t := range model.SymbolTexts([]*model.Value{v}) {
				if _, ok := fixedCtx.FindByName(t); !ok {
					expectFail = i
				}
			}
			if expectFail >= 0 {
				break
			}
		}
		if expectFail < 0 && werr != nil {
			return "a value whose symbols are all in the fixed table was rejected: " + werr.Error()
		}
		if expectFail >= 0 {
			if werr == nil {
				return fmt.Sprintf("value %d uses text outside the fixed table but every call returned nil", expectFail)
			}
			if completed != expectFail {
				return fmt.Sprintf("first failing value is %d, expected %d (%v)", completed, expectFail, werr)
			}
			if err := w.WriteInt(1); err == nil {
				return "WriteInt returned nil after the failed call"
			}
			if err := w.Finish(); err == nil {
				return "Finish returned nil after the failed call"
			}
		}
	} else if werr != nil {
		return "writer with shared tables rejected a legal value: " + werr.Error()
	}
	if werr == nil {
		if err := w.Finish(); err != nil {
			return "Finish: " + err.Error()
		}
	}
	data := out.Bytes()
	k.OutHex = hex.EncodeToString(data)
	want := k.Vals[:completed]
	if len(data) == 0 {
		// after a failed call nothing has to have reached the output (a writer may buffer until Finish)
		if completed == 0 || werr != nil {
			return ""
		}
		return "no output for completed values"
	}
	if werr != nil {
		// what did reach the output has to be a valid stream of the first so many completed values
		// (a writer that hands its bytes on in pieces of a fixed size has delivered a prefix that ends in the
		// middle of a value: what the property rules out is an id the stream does not define, so a prefix
		// of what the same writer emits for the completed values alone is as good)
		if part, err := refbin.Decode(data, &refbin.DecodeOpts{Catalog: rc}); err == nil && len(part) <= len(want) {
			want = want[:len(part)]
			completed = len(part)
		} else {
			k2 := *k
			k2.Vals = k.Vals[:completed]
			k2.OutHex = ""
			if v2 := runTableCase(&k2); v2 == "" {
				if clean, herr := hex.DecodeString(k2.OutHex); herr == nil && bytes.HasPrefix(clean, data) {
					return ""
				}
			}
		}
	}
	// (1) a reader holding the tables recovers every text: reference decoder and ion-go
	var final *refsym.Context
	type ctxFrom struct {
		from int
		c    *refsym.Context
	}
	var ctxs []ctxFrom
	ctxFor := func(i int) *refsym.Context {
		var c *refsym.Context
		for _, cf := range ctxs {
			if cf.from <= i {
				c = cf.c
			}
		}
		if c == nil {
			c = refsym.System()
		}
		return c
	}
	got, err := refbin.Decode(data, &refbin.DecodeOpts{Catalog: rc, FinalContext: &final, OnContext: func(c *refsym.Context, after int) {
		ctxs = append(ctxs, ctxFrom{after, c})
	}})
	if err != nil {
		return "reference decoder (with the tables) rejects the output: " + err.Error()
	}
	if d := model.Diff(want, got); d != "" {
		return "reference decoder (with the tables) sees different values: " + d
	}
	_, ic := catalogOf(k.Tables)
	obs := ionx.Observe(ion.NewReaderCat(bytes.NewReader(data), ic))
	if obs.Failed() {
		return "ion-go reader with the catalog fails: " + obs.ErrString()
	}
	if d := model.Diff(want, obs.Vals); d != "" {
		return "ion-go reader with the catalog sees different values: " + d
	}
	// (2) import declarations
	wantCtx := impCtx
	if k.Fixed {
		wantCtx = fixedCtx
	}
	gi, wi := final.Imports(), wantCtx.Imports()
	if completed > 0 || !k.Fixed {
		if len(gi) != len(wi) {
			if !(len(model.SymbolTexts(want)) == 0 && len(gi) == 0 && !k.Fixed && len(wi) == 0) {
				return fmt.Sprintf("output declares %d imports, writer was given %d", len(gi), len(wi))
			}
		}
		for i := range gi {
			if i < len(wi) && (gi[i].Name != wi[i].Name || gi[i].Version != wi[i].Version || gi[i].N != wi[i].N) {
				return fmt.Sprintf("import %d declared as (%s, v%d, max_id %d), given (%s, v%d, max_id %d)", i, gi[i].Name, gi[i].Version, gi[i].N, wi[i].Name, wi[i].Version, wi[i].N)
			}
		}
	}
	// (3) ids: lowest id for every text; locals minimal
	raw, err := refbin.Decode(data, &refbin.DecodeOpts{Raw: true})
	if err != nil {
		return "raw decode failed: " + err.Error()
	}
	// drop the symbol table structs from the raw decode
	var rawVals []*model.Value
	for _, v := range raw {
		if v.Kind == model.Struct && len(v.Ann) > 0 && v.Ann[0].SID == 3 {
			continue
		}
		rawVals = append(rawVals, v)
	}
	used := map[string]bool{}
	if len(rawVals) != len(got) {
		return "raw and resolved decodes differ in shape"
	}
	for vi := range got {
		cur := ctxFor(vi)
		// every batch has to declare the imports the writer was given
		if ci := cur.Imports(); len(ci) != len(wi) && !(len(ci) == 0 && len(model.SymbolTexts(got[vi:vi+1])) == 0) {
			return fmt.Sprintf("value %d is written under a table declaring %d imports, writer was given %d", vi, len(ci), len(wi))
		}
		if v := walkSyms(got[vi:vi+1], rawVals[vi:vi+1], func(text, sid model.Sym) string {
			if !text.HasText {
				return ""
			}
			used[text.Text] = true
			lowest, ok := cur.FindByName(text.Text)
			if text.Text == "" {
				return ""
			}
			if !ok || uint64(sid.SID) != lowest {
				return fmt.Sprintf("text %q written with id %d, lowest id carrying it is %d", text.Text, sid.SID, lowest)
			}
			return ""
		}); v != "" {
			return v
		}
	}
	if !k.Fixed {
		// local symbols: the non-import segments of every table the stream declares
		var segs []refsym.Segment
		for _, cf := range ctxs {
			segs = append(segs, cf.c.Segs[1:]...)
		}
		for _, seg := range segs {
			if seg.Import {
				continue
			}
			seen := map[string]bool{}
			for _, sl := range seg.Slots {
				if !sl.Known {
					continue
				}
				if sl.Text != "" {
					if _, ok := impCtx.FindByName(sl.Text); ok {
						return fmt.Sprintf("local symbol %q duplicates imported/system text", sl.Text)
					}
				}
				if seen[sl.Text] {
					return fmt.Sprintf("local symbol %q defined twice", sl.Text)
				}
				seen[sl.Text] = true
				if !used[sl.Text] {
					return fmt.Sprintf("local symbol %q is never used", sl.Text)
				}
			}
		}
	}
	return ""
}

func catalogOf(ts []SymImport) (refsym.Catalog, ion.Catalog) {
	var rc refsym.Catalog
	var ssts []ion.SharedSymbolTable
	for _, t := range ts {
		rc = append(rc, &refsym.Shared{Name: t.Name, Version: t.Version, Slots: slotsOf(t.Symbols)})
		ssts = append(ssts, ion.NewSharedSymbolTable(t.Name, t.Version, t.Symbols))
	}
	return rc, ion.NewCatalog(ssts...)
}

func runC11(c *Ctx) {
	n := c.N(3000, 200000)
	pool := []string{"a", "b", "c", "d", "e", "name", "symbols", "x1", "x2", "x3", "out1", "out2", "$5", "null", "", "+", "long_symbol_text_here"}
	c.Parallel(n, func(w, i int) {
		cs := c.Seed*11_000_027 + int64(i)
		r := rand.New(rand.NewSource(cs))
		k := TableCase{Seed: cs, Fixed: i%2 == 1}
		nt := r.Intn(4)
		for j := 0; j < nt; j++ {
			ns := r.Intn(6)
			syms := make([]string, ns)
			for x := range syms {
				syms[x] = pool[r.Intn(10)] // overlapping text between tables
				if r.Intn(8) == 0 {
					syms[x] = ""
				}
			}
			t := SymImport{Name: string(rune('T' + j)), Version: 1 + r.Intn(2), Symbols: syms, MaxID: -1}
			if i%4 == 3 {
				// names ending in digits and multi-digit versions: (name, version) pairs whose
				// concatenations coincide must stay distinct tables for writer and reader
				pick := [][2]interface{}{{"T1", 11}, {"T11", 1}, {"T", 111}, {"T111", 1}}[j%4]
				t.Name, t.Version = pick[0].(string), pick[1].(int)
			}
			if r.Intn(3) == 0 {
				t.MaxID = int64(r.Intn(ns + 3))
			}
			k.Tables = append(k.Tables, t)
		}
		if i%5 == 2 {
			k.SysAt = 1 + int(cs%int64(len(k.Tables)+1))
		}
		if k.Fixed {
			for j := r.Intn(5); j > 0; j-- {
				k.Locals = append(k.Locals, pool[r.Intn(len(pool))])
			}
			k.Marshal = r.Intn(3) == 0
		}
		g := gen.New(cs)
		g.MaxDepth = 2
		g.NoUnknownSyms = true
		g.SymPool = pool
		if k.Fixed && r.Intn(2) == 0 {
			// only texts the table defines
			_, _, ctx := k.tables()
			if len(k.Locals) > 0 {
				ctx.Segs = append(ctx.Segs, refsym.Segment{Slots: slotsOf(k.Locals), N: uint64(len(k.Locals))})
			}
			var in []string
			for _, t := range pool {
				if _, ok := ctx.FindByName(t); ok {
					in = append(in, t)
				}
			}
			if len(in) > 0 {
				g.SymPool = in
			}
		}
		for len(k.Vals) < 1+r.Intn(4) {
			v := g.Value(0)
			if v.Kind != model.Symbol && len(model.SymbolTexts([]*model.Value{v})) == 0 && r.Intn(2) == 0 {
				continue
			}
			if gen.TopLevelOK(v) {
				k.Vals = append(k.Vals, v)
			}
		}
		if i%3 == 0 {
			// several batches through one Writer: symbols recur across Finish calls
			for tries := 0; len(k.Vals) < 3+r.Intn(4) && tries < 40; tries++ {
				if v := g.Value(0); gen.TopLevelOK(v) {
					k.Vals = append(k.Vals, v)
				}
			}
			k.FinishEvery = 1 + r.Intn(2)
			c.Feat1("batches")
		}
		c.Eval(1)
		c.JournalCase(w, fmt.Sprintf("tables case_seed=%d", cs))
		// non-trivial: >= 1 symbol found in an import and >= 1 symbol not found in any
		_, _, ictx := k.tables()
		in, outside := false, false
		for _, t := range model.SymbolTexts(k.Vals) {
			if _, ok := ictx.FindByName(t); ok && t != "name" && t != "symbols" {
				in = true
			} else if !ok {
				outside = true
			}
		}
		if in && outside {
			raw, _ := json.Marshal(k)
			c.NonTrivial(string(raw))
		}
		if v := runTableCase(&k); v != "" {
			mode := "shared"
			if k.Fixed {
				mode = "fixed"
			}
			cls := v
			c.Violate("table-writer", mode+":"+Class(cls), fmt.Sprintf("tables=%+v locals=%v values=%s output=%s :: %s", k.Tables, k.Locals, model.FmtAll(k.Vals), k.OutHex, v), k, nil)
		}
		if i < 3 {
			c.Sample(map[string]interface{}{"tables": k.Tables, "locals": k.Locals, "fixed": k.Fixed, "values": model.FmtAll(k.Vals)})
		}
	})
	// tables large enough for ids to cross the one/two-byte boundary (127/128), with the symbols
	// around the boundary used as values, field names and annotations
	var big []TableCase
	for _, ns := range []int{110, 117, 118, 119, 125, 16370} {
		if ns > 1000 && !c.Thorough() {
			continue
		}
		for variant := 0; variant < 4; variant++ {
			syms := make([]string, ns)
			for j := range syms {
				syms[j] = fmt.Sprintf("big_%d", j)
			}
			k := TableCase{Seed: int64(ns*10 + variant), Fixed: variant >= 2}
			if variant%2 == 0 {
				k.Tables = []SymImport{{Name: "BIG", Version: 1, Symbols: syms, MaxID: -1}}
			} else {
				h := ns / 2
				k.Tables = []SymImport{{Name: "H1", Version: 1, Symbols: syms[:h], MaxID: -1}, {Name: "H2", Version: 2, Symbols: syms[h:], MaxID: -1}}
			}
			var locals []string
			for j := 0; j < 12; j++ {
				locals = append(locals, fmt.Sprintf("loc_%d", j))
			}
			if k.Fixed {
				k.Locals = locals
			}
			st := model.StructV()
			l := model.SexpV()
			use := append(append([]string{}, syms[ns-14:]...), locals...)
			for _, t := range use {
				st.Kids = append(st.Kids, model.SymV(model.T(t)).WithField(model.T(t)))
				l.Kids = append(l.Kids, model.Int64V(1).WithAnn(model.T(t)), model.SymV(model.T(t)))
			}
			k.Vals = []*model.Value{st, l, model.SymV(model.T(syms[0])).WithAnn(model.T(locals[11]))}
			big = append(big, k)
		}
	}
	c.Parallel(len(big), func(w, i int) {
		k := big[i]
		c.Eval(1)
		raw, _ := json.Marshal(k.Tables[0].Name + fmt.Sprint(len(k.Tables[0].Symbols), k.Fixed, k.Seed))
		c.NonTrivial(string(raw))
		if v := runTableCase(&k); v != "" {
			mode := "shared"
			if k.Fixed {
				mode = "fixed"
			}
			k.Tables = nil // (large; the case is rebuilt from its seed on replay)
			c.Violate("table-writer-large", mode+":"+Class(v), fmt.Sprintf("tables of %d symbols fixed=%v output=%s… :: %s", len(big[i].Tables[0].Symbols), k.Fixed, trunc200(k.OutHex), v), big[i], nil)
		}
	})
	c.Obs("large_table_cases", int64(len(big)))
}

func init() {
	Register(&Monitor{ID: "C11", Run: func(c *Ctx) {
		c.Rule = "0..3 shared tables with overlapping text, gaps and adjusted max_id; value streams drawing symbols, field names and annotations from inside and outside the tables; written through NewBinaryWriter(out, tables...) and NewBinaryWriterLST(out, NewLocalSymbolTable(tables, locals)), a fifth of the cases with the system symbol table itself listed among the tables. Oracle (independent decoder with and without catalog + id-space model): import declarations equal the tables given (name, version, max_id), every text is written with the lowest id carrying it, local symbols neither duplicate imported text nor stay unused, a reader holding the tables recovers every text; under a fixed table exactly the first value using outside text fails, later calls keep failing, and the bytes emitted stay a valid stream of the first so many completed values (a writer may buffer); a third of the cases call Finish after every 1-2 values (several batches through one Writer), ids being judged against the table in force at each value. Non-trivial: >= 1 symbol found in an import and >= 1 not found in any; distinct by configuration."
		runC11(c)
	}, Replay: func(c *Ctx, v *Violation) string {
		var k TableCase
		if err := json.Unmarshal(v.Case, &k); err != nil {
			return "cannot decode case: " + err.Error()
		}
		if r := runTableCase(&k); r != "" {
			return "VIOLATED on replay: " + r
		}
		return "HELD on replay"
	}})
}
