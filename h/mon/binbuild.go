package mon

// Hand assembly of binary Ion for directed documents.

// tlvBytes returns type nibble t, the length and the concatenated parts.
func tlvBytes(t byte, parts ...[]byte) []byte {
	var b []byte
	for _, x := range parts {
		b = append(b, x...)
	}
	if len(b) < 14 {
		return append([]byte{t<<4 | byte(len(b))}, b...)
	}
	return append(append([]byte{t<<4 | 0x0E}, vu(uint64(len(b)))...), b...)
}

func binStr(s string) []byte { return tlvBytes(0x8, []byte(s)) }
func binInt(n byte) []byte   { return []byte{0x21, n} }
func binSym(sid uint64) []byte {
	var b []byte
	for v := sid; v > 0; v >>= 8 {
		b = append([]byte{byte(v)}, b...)
	}
	return tlvBytes(0x7, b)
}

// binLST returns $ion_symbol_table::{ fields... } (fields are (sid, value) pairs already encoded).
func binLST(fields ...[]byte) []byte {
	st := tlvBytes(0xD, fields...)
	return tlvBytes(0xE, []byte{0x81, 0x83}, st)
}

func binField(sid uint64, value []byte) []byte { return append(vu(sid), value...) }
