package mon

import (
	"bytes"
	"encoding/hex"
	"encoding/json"
	"fmt"
	"math/rand"
	"strings"

	"github.com/amzn/ion-go/ion"

	"verifh/gen"
	"verifh/ionx"
	"verifh/model"
	"verifh/refbin"
	"verifh/refsym"
	"verifh/reftext"
)

// CopyCase is a replayable Reader->Writer copy.
type CopyCase struct {
	SrcBinary bool     `json:"src_binary"`
	SrcHex    string   `json:"src_hex"`
	SrcShown  string   `json:"src_shown"`
	Dest      int      `json:"dest"` // 0 text, 1 pretty, 2 binary, 3 binary with the source's shared tables
	WithCat   bool     `json:"with_catalog"`
	DestShown string   `json:"dest_shown,omitempty"`
	Note      []string `json:"note,omitempty"`
}

var destNames = []string{"text", "pretty", "binary", "binary+shared-tables", "text+shared-tables", "pretty+shared-tables"}

func destBinary(d int) bool { return d == 2 || d == 3 }

var copyShared = []SymImport{
	{Name: "A", Version: 1, Symbols: []string{"a1", "a2", "a3"}},
	{Name: "B", Version: 1, Symbols: []string{"b1", "b2"}},
}

func copyCatalogs() (refsym.Catalog, ion.Catalog, []ion.SharedSymbolTable) {
	var rc refsym.Catalog
	var ssts []ion.SharedSymbolTable
	for _, t := range copyShared {
		rc = append(rc, &refsym.Shared{Name: t.Name, Version: t.Version, Slots: slotsOf(t.Symbols)})
		ssts = append(ssts, ion.NewSharedSymbolTable(t.Name, t.Version, t.Symbols))
	}
	return rc, ion.NewCatalog(ssts...), ssts
}

// copyLoop is the README's writeFromReaderToWriter completed for every type.
func copyLoop(r ion.Reader, w ion.Writer) error {
	for r.Next() {
		name, err := r.FieldName()
		if err != nil {
			return err
		}
		if name != nil {
			if err := w.FieldName(*name); err != nil {
				return fmt.Errorf("FieldName: %w", err)
			}
		}
		an, err := r.Annotations()
		if err != nil {
			return err
		}
		if len(an) > 0 {
			if err := w.Annotations(an...); err != nil {
				return fmt.Errorf("Annotations: %w", err)
			}
		}
		t := r.Type()
		if r.IsNull() {
			if err := w.WriteNullType(t); err != nil {
				return fmt.Errorf("WriteNullType: %w", err)
			}
			continue
		}
		switch t {
		case ion.BoolType:
			v, err := r.BoolValue()
			if err != nil {
				return err
			}
			err = w.WriteBool(*v)
			if err != nil {
				return err
			}
		case ion.IntType:
			sz, err := r.IntSize()
			if err != nil {
				return err
			}
			if sz == ion.BigInt {
				v, err := r.BigIntValue()
				if err != nil {
					return err
				}
				if err := w.WriteBigInt(v); err != nil {
					return err
				}
			} else {
				v, err := r.Int64Value()
				if err != nil {
					return err
				}
				if err := w.WriteInt(*v); err != nil {
					return err
				}
			}
		case ion.FloatType:
			v, err := r.FloatValue()
			if err != nil {
				return err
			}
			if err := w.WriteFloat(*v); err != nil {
				return err
			}
		case ion.DecimalType:
			v, err := r.DecimalValue()
			if err != nil {
				return err
			}
			if err := w.WriteDecimal(v); err != nil {
				return err
			}
		case ion.TimestampType:
			v, err := r.TimestampValue()
			if err != nil {
				return err
			}
			if err := w.WriteTimestamp(*v); err != nil {
				return err
			}
		case ion.SymbolType:
			v, err := r.SymbolValue()
			if err != nil {
				return err
			}
			if err := w.WriteSymbol(*v); err != nil {
				return fmt.Errorf("WriteSymbol: %w", err)
			}
		case ion.StringType:
			v, err := r.StringValue()
			if err != nil {
				return err
			}
			if err := w.WriteString(*v); err != nil {
				return err
			}
		case ion.ClobType:
			v, err := r.ByteValue()
			if err != nil {
				return err
			}
			if err := w.WriteClob(v); err != nil {
				return err
			}
		case ion.BlobType:
			v, err := r.ByteValue()
			if err != nil {
				return err
			}
			if err := w.WriteBlob(v); err != nil {
				return err
			}
		case ion.ListType, ion.SexpType, ion.StructType:
			if err := r.StepIn(); err != nil {
				return err
			}
			var err error
			switch t {
			case ion.ListType:
				err = w.BeginList()
			case ion.SexpType:
				err = w.BeginSexp()
			default:
				err = w.BeginStruct()
			}
			if err != nil {
				return err
			}
			if err := copyLoop(r, w); err != nil {
				return err
			}
			if err := r.StepOut(); err != nil {
				return err
			}
			switch t {
			case ion.ListType:
				err = w.EndList()
			case ion.SexpType:
				err = w.EndSexp()
			default:
				err = w.EndStruct()
			}
			if err != nil {
				return err
			}
		}
	}
	return r.Err()
}

// runCopyCase returns "" when the property holds; skipped when the source is not accepted / has unknown-text symbols.
func runCopyCase(k *CopyCase) (verdict string, skipped bool) {
	defer func() {
		if rec := recover(); rec != nil {
			verdict = "panic: " + ionx.PanicSite(rec)
		}
	}()
	src, _ := hex.DecodeString(k.SrcHex)
	rc, ic, ssts := copyCatalogs()
	var rcat refsym.Catalog
	var icat ion.Catalog
	if k.WithCat {
		rcat, icat = rc, ic
	}
	// what ion-go reads from the source
	obs := ionx.Observe(ion.NewReaderCat(bytes.NewReader(src), icat))
	if obs.Failed() {
		return "", true
	}
	S := obs.Vals
	unknown := false
	model.Walk(S, func(v *model.Value, _ int) {
		chk := func(s model.Sym) {
			if !s.HasText && s.SID != 0 {
				unknown = true
			}
		}
		for _, a := range v.Ann {
			chk(a)
		}
		if v.Field != nil {
			chk(*v.Field)
		}
		if v.Kind == model.Symbol && !v.IsNull {
			chk(v.Sy)
		}
	})
	if unknown {
		return "", true
	}
	for _, v := range S {
		if !gen.TopLevelOK(v) {
			return "", true
		}
	}
	var out bytes.Buffer
	var w ion.Writer
	switch k.Dest {
	case 0:
		w = ion.NewTextWriter(&out)
	case 1:
		w = ion.NewTextWriterOpts(&out, ion.TextWriterPretty)
	case 2:
		w = ion.NewBinaryWriter(&out)
	case 4:
		w = ion.NewTextWriter(&out, ssts...)
	case 5:
		w = ion.NewTextWriterOpts(&out, ion.TextWriterPretty, ssts...)
	default:
		w = ion.NewBinaryWriter(&out, ssts...)
	}
	if err := copyLoop(ion.NewReaderCat(bytes.NewReader(src), icat), w); err != nil {
		return "copy loop failed: " + err.Error(), false
	}
	if err := w.Finish(); err != nil {
		return "Finish failed: " + err.Error(), false
	}
	dest := out.Bytes()
	k.DestShown = showInput(destBinary(k.Dest), dest)
	// destination read by ion-go (it needs the catalog only for the shared-table destination)
	var dcat ion.Catalog
	var drcat refsym.Catalog
	if k.Dest >= 3 {
		dcat, drcat = ic, rc
	}
	back := ionx.Observe(ion.NewReaderCat(bytes.NewReader(dest), dcat))
	if back.Failed() {
		return "destination unreadable by ion-go: " + back.ErrString(), false
	}
	if d := model.Diff(S, back.Vals); d != "" {
		return "destination read by ion-go differs from the source: " + d, false
	}
	var got []*model.Value
	var err error
	if destBinary(k.Dest) {
		got, err = refbin.Decode(dest, &refbin.DecodeOpts{Catalog: drcat})
	} else {
		got, err = reftext.Parse(string(dest), &reftext.ParseOpts{Catalog: drcat})
	}
	if err != nil {
		return "destination rejected by the reference decoder: " + err.Error(), false
	}
	if d := model.Diff(S, got); d != "" {
		return "destination under the reference decoder differs from the source: " + d, false
	}
	// the source's own denotation under the independent decoder (when it accepts the source)
	var refS []*model.Value
	if k.SrcBinary {
		refS, err = refbin.Decode(src, &refbin.DecodeOpts{Catalog: rcat})
	} else {
		refS, err = reftext.Parse(string(src), &reftext.ParseOpts{Catalog: rcat})
	}
	if err == nil {
		if d := model.DiffOpt(refS, got, model.EqOpts{}); d != "" {
			return "destination differs from what the source denotes under the independent decoder: " + d, false
		}
	}
	return "", false
}

// symbolHeavySource builds a source with local tables, imports and id references, all with known text.
func symbolHeavySource(r *rand.Rand, cs int64, binary bool) ([]byte, []string, bool) {
	rc, _, _ := copyCatalogs()
	var enc *refbin.Encoder
	var prn *reftext.Printer
	if binary {
		enc = refbin.NewEncoder(newChoice(cs, 0.15), rc)
	} else {
		prn = reftext.NewPrinter(newChoice(cs, 0.2))
		prn.Cat = rc
	}
	ctx := refsym.System()
	var note []string
	nloc := 0
	nseg := 1 + r.Intn(3)
	g := gen.New(cs)
	g.MaxDepth = 2
	g.NoUnknownSyms = true
	for s := 0; s < nseg; s++ {
		var spec refsym.LSTSpec
		if s > 0 && r.Intn(2) == 0 {
			spec.Append = true
			note = append(note, "append")
		} else {
			for _, t := range copyShared {
				if r.Intn(2) == 0 {
					imp := refsym.Import{Name: t.Name, Version: 1, MaxID: int64(len(t.Symbols))}
					if r.Intn(4) == 0 {
						imp.MaxID = int64(1 + r.Intn(len(t.Symbols)))
					}
					spec.Imports = append(spec.Imports, imp)
				}
			}
			note = append(note, fmt.Sprintf("replace imports=%d", len(spec.Imports)))
		}
		for j := r.Intn(4); j > 0; j-- {
			nloc++
			txt := fmt.Sprintf("l%d", nloc)
			switch r.Intn(8) {
			case 0:
				txt = "a1" // shadows an import
			case 1:
				txt = "name" // shadows a system symbol
			case 2:
				txt = "$5" // text that looks like an id
			case 3:
				txt = "null"
			}
			spec.Symbols = append(spec.Symbols, refsym.Slot{Text: txt, Known: true})
		}
		nc, err := refsym.Apply(ctx, rc, spec)
		if err != nil {
			return nil, nil, false
		}
		ctx = nc
		if binary {
			enc.AppendLST(spec, nil)
		} else {
			prn.AppendLST(spec)
			prn.UseSIDs = true
		}
		// values: ids with known text, in every symbol position, mixed with text symbols
		for j := 1 + r.Intn(4); j > 0; j-- {
			pick := func() model.Sym {
				for try := 0; try < 20; try++ {
					id := uint64(1 + r.Int63n(int64(ctx.MaxID())))
					if sl, _ := ctx.Lookup(id); sl.Known && sl.Text != "$ion_symbol_table" && sl.Text != "$ion_1_0" {
						if binary {
							return model.SID(int64(id))
						}
						return model.SID(int64(id))
					}
				}
				return model.SID(4)
			}
			var v *model.Value
			switch r.Intn(5) {
			case 0:
				v = model.SymV(pick())
			case 1:
				v = model.StructV(model.SymV(pick()).WithField(pick()), model.Int64V(1).WithField(model.T("$5")))
			case 2:
				v = g.Value(1).WithAnn(pick())
			case 3:
				v = model.SexpV(model.SymV(pick()), model.SymV(model.T("'")), model.SymV(model.T("$0")).WithAnn(model.T("$7")))
			default:
				v = g.Value(0)
			}
			if !gen.TopLevelOK(v) {
				continue
			}
			// texts the generator used must be resolvable in binary: declare on the fly by appending
			if binary {
				if miss := missingTexts(ctx, v); len(miss) > 0 {
					ap := refsym.LSTSpec{Append: true}
					for _, t := range miss {
						ap.Symbols = append(ap.Symbols, refsym.Slot{Text: t, Known: true})
					}
					ctx, _ = refsym.Apply(ctx, rc, ap)
					enc.AppendLST(ap, nil)
				}
				enc.AppendValue(v)
			} else {
				prn.AppendValue(v)
			}
		}
	}
	if binary {
		if enc.Err != nil {
			return nil, nil, false
		}
		return enc.Out, note, true
	}
	if prn.Err != nil {
		return nil, nil, false
	}
	return []byte(prn.B.String() + " "), note, true
}

func missingTexts(ctx *refsym.Context, v *model.Value) []string {
	var out []string
	for _, t := range model.SymbolTexts([]*model.Value{v}) {
		if _, ok := ctx.FindByName(t); !ok {
			out = append(out, t)
		}
	}
	return out
}

func runC05(c *Ctx) {
	n := c.N(3000, 200000)
	looks := LookalikeStreams()
	c.Parallel(n, func(w, i int) {
		cs := c.Seed*5_000_111 + int64(i)
		r := rand.New(rand.NewSource(cs))
		binary := i%2 == 1
		var src []byte
		var note []string
		withCat := false
		heavy := i%3 != 0
		if heavy {
			var ok bool
			src, note, ok = symbolHeavySource(r, cs, binary)
			if !ok {
				c.Obs("harness_render_failed", 1)
				return
			}
			withCat = true
		} else {
			g := gen.New(cs)
			g.NoUnknownSyms = r.Intn(3) != 0
			vals := g.Stream()
			if i/6 < len(looks)*6 {
				// values that resemble symbol tables and version markers without being any
				vals = looks[i/6%len(looks)]
			}
			if i%12 == 0 || i%12 == 9 {
				// payloads a writer may keep by reference until Finish (lobs and strings of 64 bytes and more),
				// followed by more source than any reader buffer holds: what was handed over must not change
				// while the copy loop reads on
				sz := []int{64, 100, 300, 5000}[i/12%4]
				lob := func(b byte) []byte {
					p := make([]byte, sz)
					for j := range p {
						p[j] = b + byte(j%23)
					}
					return p
				}
				vals = append(vals, model.BlobV(lob(0x80)), model.ClobV(lob('a')), model.StrV(string(lob('A'))),
					model.ListV(model.BlobV(lob(0x10)), model.StructV(model.ClobV(lob('k')).WithField(model.T("lob")))))
				for j := 0; j < 300; j++ {
					vals = append(vals, model.StrV(fmt.Sprintf("filler string %03d behind the payloads....", j)))
				}
				vals = append(vals, model.BlobV(lob(0x40)), model.Int64V(int64(sz)))
			}
			rk := ReadCase{CaseSeed: cs, Binary: binary, P: 0.25, Vals: vals}
			data, _, _, err := rk.render()
			if err != nil {
				return
			}
			src = data
		}
		c.JournalCase(w, fmt.Sprintf("copy case_seed=%d", cs))
		for dest := 0; dest < len(destNames); dest++ {
			k := CopyCase{SrcBinary: binary, SrcHex: hex.EncodeToString(src), SrcShown: showInput(binary, src), Dest: dest, WithCat: withCat, Note: note}
			v, skipped := runCopyCase(&k)
			if skipped {
				c.Obs("sources_skipped_(rejected_or_unknown_text)", 1)
				continue
			}
			c.Eval(1)
			if heavy || strings.Contains(k.SrcShown, "ion_symbol_table") || binary {
				c.NonTrivial(fmt.Sprintf("%d|%s", dest, k.SrcHex))
			}
			if v != "" {
				fam := "text"
				if binary {
					fam = "binary"
				}
				cls := v
				if j := strings.Index(cls, ": "); j > 0 {
					cls = cls[:j] + ": " + Class(cls[j+2:])
				}
				c.Violate("copy", fam+"->"+destNames[dest]+":"+Class(cls), fmt.Sprintf("source=%s dest(%s)=%s note=%v :: %s", k.SrcShown, destNames[dest], k.DestShown, note, v), k, nil)
			}
		}
		if i < 3 {
			c.Sample(map[string]interface{}{"source": showInput(binary, src), "destinations": destNames, "note": note})
		}
	})
}

func init() {
	Register(&Monitor{ID: "C05", Run: func(c *Ctx) {
		c.Rule = "source documents in text and binary (reference renderings with local symbol tables, multi-segment streams, $n/SID references; and symbol-heavy sources with 1..3 replacing/appending tables, shared imports resolved through a catalog, text that shadows imports/system symbols or looks like an id) copied with the README loop (completed for every type, tokens passed as read) into text, pretty, binary and binary-with-shared-tables writers; the destination is read by ion-go and by the independent decoder and compared with what the Reader saw in the source. Non-trivial: the source declares a symbol table or uses id references; distinct by (destination, source bytes)."
		c.Assume("sources the Reader rejects and sources with unknown-text symbols other than $0 are skipped (counted)")
		runC05(c)
	}, Replay: func(c *Ctx, v *Violation) string {
		var k CopyCase
		if err := json.Unmarshal(v.Case, &k); err != nil {
			return "cannot decode case: " + err.Error()
		}
		r, skipped := runCopyCase(&k)
		if skipped {
			return "source no longer accepted (skipped)"
		}
		if r != "" {
			return "VIOLATED on replay: " + r
		}
		return "HELD on replay"
	}})
}
