package mon

import (
	"bytes"
	"math"
	"math/big"
	"strings"
	"sync"

	"verifh/gen"
	"verifh/model"
)

var (
	cliDocsOnce sync.Once
	cliDocs     [][]*model.Value
)

// cliDirectedDocs are boundary documents for the transcoder: every integer around the widths the CLI's
// copy loop switches on, float and decimal edges, timestamps of every precision, every typed null, lobs,
// values that resemble system values.
func cliDirectedDocs() [][]*model.Value {
	cliDocsOnce.Do(func() {
		var ints []*model.Value
		for _, k := range []uint{7, 8, 15, 16, 31, 32, 62, 63, 64, 65, 80, 127, 128} {
			p := new(big.Int).Lsh(big.NewInt(1), k)
			for _, d := range []int64{-2, -1, 0, 1, 2} {
				v := new(big.Int).Add(p, big.NewInt(d))
				ints = append(ints, model.IntV(v), model.IntV(new(big.Int).Neg(v)))
			}
		}
		ints = append(ints, model.Int64V(0), model.NullV(model.Int))
		cliDocs = append(cliDocs, ints)
		cliDocs = append(cliDocs, []*model.Value{model.ListV(model.CloneAll(ints)...), model.SexpV(model.CloneAll(ints[:40])...)})
		st := model.StructV()
		for i, v := range model.CloneAll(ints[40:90]) {
			st.Kids = append(st.Kids, v.WithField(model.T([]string{"a", "b", "$5", "null", "x y"}[i%5])).WithAnn(model.T("n")))
		}
		cliDocs = append(cliDocs, []*model.Value{st})
		var fl []*model.Value
		for _, f := range []float64{0, math.Copysign(0, -1), 1, -1, 1.5, math.MaxFloat64, -math.MaxFloat64, math.SmallestNonzeroFloat64, math.MaxFloat32, 1e22, 1e23, 0.1, math.Inf(1), math.Inf(-1), math.NaN(), 16777217, 9007199254740993} {
			fl = append(fl, model.FloatV(f))
		}
		fl = append(fl, model.NullV(model.Float))
		cliDocs = append(cliDocs, fl)
		var de []*model.Value
		for _, e := range []int32{0, 1, -1, 5, -5, 40, -40, 1000, -1000, math.MaxInt32, math.MinInt32 + 1} {
			for _, co := range []string{"0", "1", "-1", "123456789012345678901234567890", "-99"} {
				n, _ := new(big.Int).SetString(co, 10)
				de = append(de, model.DecV(model.Dec{Coef: n, Exp: e}))
			}
			de = append(de, model.DecV(model.Dec{Coef: new(big.Int), Exp: e, NegZero: true}))
		}
		de = append(de, model.NullV(model.Decimal))
		cliDocs = append(cliDocs, de)
		g := gen.New(20)
		var ts []*model.Value
		for len(ts) < 60 {
			ts = append(ts, model.TSV(g.TS()))
		}
		ts = append(ts, model.NullV(model.Timestamp))
		cliDocs = append(cliDocs, ts)
		var nulls []*model.Value
		for _, k := range gen.AllKinds {
			nulls = append(nulls, model.NullV(k), model.NullV(k).WithAnn(model.T("a")))
		}
		cliDocs = append(cliDocs, nulls, []*model.Value{model.ListV(model.CloneAll(nulls)...)})
		cliDocs = append(cliDocs, LookalikeStreams()...)
		// the empty document (standard input may be /dev/null)
		cliDocs = append(cliDocs, []*model.Value{})
		// more top-level values than any plausible batch size (65536)
		many := make([]*model.Value, 0, 70001)
		for i := 0; i < 70000; i++ {
			many = append(many, model.Int64V(int64(i%1000)))
		}
		cliDocs = append(cliDocs, append(many, model.SymV(model.T("last"))))
		// single scalars larger than any plausible output buffer (32 KiB, 64 KiB), between small values
		for _, n := range []int{32767, 32768, 40000, 70000} {
			digits := strings.Repeat("1234567890", n/10+1)[:n]
			bigInt, _ := new(big.Int).SetString(digits, 10)
			cliDocs = append(cliDocs,
				[]*model.Value{model.Int64V(1), model.StrV(strings.Repeat("s", n)), model.Int64V(2), model.BlobV(bytes.Repeat([]byte{0xAB}, n)), model.SymV(model.T("x"))},
				[]*model.Value{model.SymV(model.T("a")), model.SymV(model.T(strings.Repeat("y", n))), model.IntV(bigInt), model.ClobV(bytes.Repeat([]byte("c"), n)), model.Int64V(3)},
				[]*model.Value{model.ListV(model.StrV(strings.Repeat("t", n)), model.IntV(new(big.Int).Neg(bigInt))), model.StructV(model.BlobV(bytes.Repeat([]byte{1}, n)).WithField(model.T("b"))), model.Int64V(4)},
			)
		}
	})
	return cliDocs
}
