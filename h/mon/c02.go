package mon

import (
	"bytes"
	"reflect"

	"github.com/amzn/ion-go/ion"

	"encoding/hex"
	"encoding/json"
	"fmt"
	"math/rand"
	"strings"

	"verifh/choice"
	"verifh/gen"
	"verifh/ionx"
	"verifh/model"
	"verifh/refbin"
	"verifh/reftext"
)

// ReadCase is a replayable "reference producer -> ion-go reader" case (C02 text, C03 binary).
type ReadCase struct {
	CaseSeed int64           `json:"case_seed"`
	Binary   bool            `json:"binary"`
	P        float64         `json:"p"`
	Off      map[string]bool `json:"features_off,omitempty"`
	Vals     []*model.Value  `json:"vals"`
	Input    string          `json:"input_shown,omitempty"`
	InputHex string          `json:"input_hex,omitempty"`
	// Pad > 0: that many bytes of filler (whitespace and comments / NOP pads) precede the
	// rendered values, which moves them across the reader's internal buffer boundaries.
	Pad int `json:"pad,omitempty"`
	// Literal != "": the input is this text verbatim (Vals is what the reference parser makes of it).
	Literal string `json:"literal,omitempty"`
}

// filler returns exactly n bytes that denote nothing.
func filler(binary bool, n int, seed int64) []byte {
	if n <= 0 {
		return nil
	}
	if binary {
		e := refbin.NewEncoder(nil, nil)
		var out []byte
		if seed%2 == 0 {
			for n > 300 {
				out = append(out, e.NOP(200)...)
				n -= 200
			}
		}
		for n > 16000 {
			out = append(out, e.NOP(16000)...)
			n -= 16000
		}
		return append(out, e.NOP(n)...)
	}
	out := make([]byte, 0, n)
	switch {
	case seed%3 == 0 && n >= 5:
		out = append(out, "/*"...)
		for len(out) < n-3 {
			out = append(out, "x* /'\""[len(out)%6])
		}
		if out[len(out)-1] == '*' {
			out[len(out)-1] = 'x'
		}
		out = append(out, "*/ "...)
	default:
		for len(out) < n {
			if len(out)%61 == 60 {
				out = append(out, '\n')
			} else {
				out = append(out, ' ')
			}
		}
	}
	return out
}

// render produces the input for the case; unordered is set when struct field order may differ.
func (k *ReadCase) render() (data []byte, unordered bool, feats map[string]int, err error) {
	ch := choice.New(rand.New(rand.NewSource(k.CaseSeed^0x5bd1e995)), k.P)
	ch.Off = k.Off
	if k.Literal != "" {
		return []byte(k.Literal), false, map[string]int{"literal": 2}, nil
	}
	if k.Binary {
		enc, err := refbin.Encode(k.Vals, ch)
		if err != nil {
			return nil, false, nil, err
		}
		if k.Pad > 0 && len(enc.Bytes) >= 4 {
			d := append([]byte{}, enc.Bytes[:4]...)
			d = append(d, filler(true, k.Pad, k.CaseSeed)...)
			return append(d, enc.Bytes[4:]...), enc.UnorderedStructs, ch.Feat, nil
		}
		return enc.Bytes, enc.UnorderedStructs, ch.Feat, nil
	}
	s, err := reftext.Print(k.Vals, ch)
	if err != nil {
		return nil, false, nil, err
	}
	if k.Pad > 0 {
		return append(filler(false, k.Pad, k.CaseSeed), s...), false, ch.Feat, nil
	}
	return []byte(s), false, ch.Feat, nil
}

// selfCheck feeds the rendering to the other half of the same reference.
func (k *ReadCase) selfCheck(data []byte, unordered bool) string {
	var got []*model.Value
	var err error
	if k.Binary {
		got, err = refbin.Decode(data, nil)
	} else {
		got, err = reftext.Parse(string(data), nil)
	}
	if err != nil {
		return "reference rejects its own rendering: " + err.Error()
	}
	return model.DiffOpt(k.Vals, got, model.EqOpts{UnorderedStructs: unordered})
}

func judgeRead(k *ReadCase, data []byte, unordered bool) string {
	obs := ionx.ReadAll(data)
	if obs.Panic != "" {
		return "reader panic: " + obs.Panic
	}
	if obs.Err != nil {
		return "reader error: " + obs.ErrString()
	}
	if d := model.DiffOpt(k.Vals, obs.Vals, model.EqOpts{UnorderedStructs: unordered}); d != "" {
		return "decoded values differ: " + d
	}
	if len(obs.Soft) > 0 {
		return "accessor inconsistency: " + obs.Soft[0]
	}
	return judgeDecodeAll(k.Vals, data)
}

// judgeDecodeAll reads the same input through Decoder.Decode and looks at the Go values only after
// the whole stream has been decoded: what the library handed out for an earlier value (big ints,
// timestamps, lobs, strings inside lists and structs) must not change when it reads on. Streams
// with symbols of unknown text or repeated field names have no faithful map image and are skipped.
func judgeDecodeAll(vals []*model.Value, data []byte) (verdict string) {
	ok := true
	model.Walk(vals, func(v *model.Value, _ int) {
		if v.Kind == model.Symbol && !v.IsNull && !v.Sy.HasText {
			ok = false
		}
		if v.Kind == model.Struct {
			seen := map[string]bool{}
			for _, k := range v.Kids {
				if k.Field == nil || !k.Field.HasText || seen[k.Field.Text] {
					ok = false
				} else {
					seen[k.Field.Text] = true
				}
			}
		}
	})
	if !ok || len(vals) == 0 {
		return ""
	}
	defer func() {
		if rec := recover(); rec != nil {
			verdict = "Decoder panic: " + ionx.PanicSite(rec)
		}
	}()
	d := ion.NewDecoder(ion.NewReader(bytes.NewReader(data)))
	xs := make([]interface{}, len(vals))
	for i := range vals {
		x, err := d.Decode()
		if err != nil {
			return fmt.Sprintf("Decoder.Decode of value %d of %d: %v", i, len(vals), err)
		}
		xs[i] = x
	}
	var normEmpty func(v *model.Value)
	normEmpty = func(v *model.Value) { // an empty list or sexp comes back as a nil slice
		if (v.Kind == model.List || v.Kind == model.Sexp) && len(v.Kids) == 0 {
			v.Kind, v.IsNull = model.Null, true
		}
		for _, k := range v.Kids {
			normEmpty(k)
		}
	}
	for i := range vals {
		img, ok := imageOf(reflect.ValueOf(&xs[i]).Elem(), "", true)
		if !ok {
			continue
		}
		want := vals[i].Clone()
		want.Ann, want.Field = nil, nil
		norm(want)
		norm(img)
		normEmpty(want)
		normEmpty(img)
		if df := model.DiffOpt([]*model.Value{want}, []*model.Value{img}, model.EqOpts{UnorderedStructs: true}); df != "" {
			return fmt.Sprintf("Decoder.Decode: value %d of %d, looked at after the whole stream was decoded: %s", i, len(vals), df)
		}
	}
	return ""
}

func showInput(binary bool, data []byte) string {
	if binary {
		s := hex.EncodeToString(data)
		if len(s) > 600 {
			s = s[:600] + "…"
		}
		return s
	}
	s := fmt.Sprintf("%q", string(data))
	if len(s) > 600 {
		s = s[:600] + "…"
	}
	return s
}

// runReadCase returns (ran, nonCanonicalChoices).
func runReadCase(c *Ctx, sub string, k ReadCase) (bool, int) {
	if k.Literal != "" {
		vals, err := reftext.Parse(k.Literal, nil)
		if err != nil {
			c.Obs("harness_render_failed", 1)
			c.Feat1("render_failed:literal:" + Class(err.Error()))
			return false, 0
		}
		k.Vals = vals
	}
	data, unordered, feats, err := k.render()
	if err != nil {
		c.Obs("harness_render_failed", 1)
		c.Feat1("render_failed:" + Class(err.Error()))
		return false, 0
	}
	if d := k.selfCheck(data, unordered); d != "" {
		c.Obs("harness_inconsistent", 1)
		c.Sample(map[string]interface{}{"harness_inconsistent": d, "input": showInput(k.Binary, data), "values": model.FmtAll(k.Vals)})
		return false, 0
	}
	c.Eval(1)
	c.Feat(feats)
	nchoices := 0
	for _, n := range feats {
		nchoices += n
	}
	verdict := judgeRead(&k, data, unordered)
	c.Obs("values_compared", int64(model.Count(k.Vals)))
	if verdict == "" {
		return true, nchoices
	}
	// minimise: first the values, then the features
	fails := func(kk ReadCase) bool {
		d2, u2, _, e2 := kk.render()
		if e2 != nil || kk.selfCheck(d2, u2) != "" {
			return false
		}
		return judgeRead(&kk, d2, u2) != ""
	}
	kk := k
	kk.Vals = ShrinkVals(k.Vals, func(cand []*model.Value) bool {
		t := kk
		t.Vals = cand
		return fails(t)
	})
	if !fails(kk) {
		kk = k
	}
	// switch features off one at a time
	_, _, f2, _ := kk.render()
	off := map[string]bool{}
	for f := range k.Off {
		off[f] = true
	}
	for f := range f2 {
		t := kk
		t.Off = map[string]bool{}
		for x := range off {
			t.Off[x] = true
		}
		t.Off[f] = true
		if fails(t) {
			off[f] = true
		}
	}
	kk.Off = off
	if !fails(kk) {
		kk.Off = k.Off
	}
	d2, u2, f3, _ := kk.render()
	v2 := judgeRead(&kk, d2, u2)
	if v2 == "" {
		kk, d2, v2 = k, data, verdict
		f3 = feats
	}
	if kk.Binary {
		kk.InputHex = hex.EncodeToString(d2)
	} else {
		kk.Input = string(d2)
	}
	left := featList(f3)
	sortStrings(left)
	fp := fmt.Sprintf("%v:%s:%s", left, Shape(kk.Vals), Class(v2))
	c.Violate(sub, fp, fmt.Sprintf("values=%s input=%s features=%v :: %s", model.FmtAll(kk.Vals), showInput(kk.Binary, d2), left, v2), kk, left)
	return true, nchoices
}

func sortStrings(a []string) {
	for i := 1; i < len(a); i++ {
		for j := i; j > 0 && a[j] < a[j-1]; j-- {
			a[j], a[j-1] = a[j-1], a[j]
		}
	}
}

func runReadMonitor(c *Ctx, sub string, binary bool) {
	n := c.N(6000, 400000)
	c.Parallel(n, func(w, i int) {
		cs := c.Seed*2_000_003 + int64(i)
		g := gen.New(cs)
		if i%40 == 0 {
			g.MaxDepth = 10
		}
		if c.Thorough() && i%100 == 0 {
			g.MaxLen = 17000
		}
		vals := g.Stream()
		p := []float64{0.05, 0.15, 0.3, 0.5}[i%4]
		k := ReadCase{CaseSeed: cs, Binary: binary, P: p, Vals: vals}
		c.JournalCase(w, fmt.Sprintf("%s case_seed=%d", sub, cs))
		ran, nch := runReadCase(c, sub, k)
		if ran {
			nonnull := false
			model.Walk(vals, func(v *model.Value, _ int) {
				if !v.IsNull {
					nonnull = true
				}
			})
			if nch >= 2 && nonnull {
				data, _, _, _ := k.render()
				c.NonTrivial(string(data))
			}
			if i < 4 {
				data, _, f, _ := k.render()
				c.Sample(map[string]interface{}{"values": model.FmtAll(vals), "input": showInput(binary, data), "features": featList(f)})
			}
		}
	})
	// buffer-boundary sweep: short documents shifted by filler so that every sampled offset of the
	// document in turn coincides with a multiple of 4096 (the readers buffer their input)
	nb := c.N(120, 4000)
	c.Parallel(nb, func(w, i int) {
		cs := c.Seed*2_000_003 + 7_000_000 + int64(i)
		g := gen.New(cs)
		g.MaxLen = 24
		g.MaxDepth = 3
		vals := g.Stream()
		k := ReadCase{CaseSeed: cs, Binary: binary, P: []float64{0.1, 0.3}[i%2], Vals: vals}
		base, _, _, err := k.render()
		if err != nil {
			return
		}
		L := len(base)
		if binary {
			L -= 4
		}
		r := rand.New(rand.NewSource(cs))
		step := 1
		if L > 48 {
			step = L / 48
		}
		for o := 1; o < L; o += step {
			kk := k
			kk.Pad = []int{4096, 8192, 4096, 12288}[r.Intn(4)] - o
			if binary {
				kk.Pad -= 4
			}
			c.JournalCase(w, fmt.Sprintf("%s-boundary case_seed=%d pad=%d", sub, cs, kk.Pad))
			if ran, _ := runReadCase(c, sub+"-buffer-boundary", kk); ran {
				c.NonTrivial(fmt.Sprintf("b|%d|%d", cs, kk.Pad))
				c.Obs("buffer_boundary_positions", 1)
			}
		}
	})
	// token-length sweep (text): every literal kind at every length 1..140 and around 256, 1024, 4096
	if !binary {
		var lens []int
		for n := 1; n <= 140; n++ {
			lens = append(lens, n)
		}
		lens = append(lens, 255, 256, 257, 1023, 1024, 1025, 4095, 4096, 4097)
		type lit struct{ name, text string }
		var lits []lit
		rep := func(s string, n int) string {
			if n <= 0 {
				return ""
			}
			return strings.Repeat(s, n/len(s)+1)[:n]
		}
		for _, n := range lens {
			add := func(name, text string) {
				if len(text) == n {
					lits = append(lits, lit{name, text})
				}
			}
			add("int", "1"+rep("7402", n-1))
			add("negative-int", "-"+"9"+rep("0123456789", n-2))
			add("grouped-int", "1"+rep("_2", n-1))
			add("hex", "0x"+rep("fA07", n-2))
			add("negative-hex", "-0X"+rep("1b", n-3))
			add("binary", "0b"+rep("1011", n-2))
			add("decimal-fraction", "1."+rep("50", n-2))
			add("decimal-trailing-point", "3"+rep("14", n-2)+".")
			add("decimal-exponent", "9"+rep("12", n-4)+"d-7")
			add("negative-decimal", "-0."+rep("07", n-3))
			add("float", "2"+rep("71", n-3)+"e0")
			add("float-fraction", "6."+rep("02", n-5)+"e+2")
			add("float-long-exponent", "1e"+rep("0", n-3)+"5")
			add("symbol", "s"+rep("ymb_ol9$", n-1))
			add("quoted-symbol", "'"+rep("q s", n-2)+"'")
			add("string", "\""+rep("str ing", n-2)+"\"")
			add("long-string", "'''"+rep("lo ng", n-6)+"'''")
			add("string-escapes", "\""+rep("\\n", n-2)+"\"")
			add("blob", "{{"+rep("QUJD", (n-4)/4*4)+rep(" ", (n-4)%4)+"}}")
			add("clob", "{{\""+rep("cl ob", n-6)+"\"}}")
			add("timestamp-fraction", "2001-02-03T04:05:06."+rep("123456789", n-21)+"Z")
			add("annotation", rep("an_", n-3)+"::1")
			add("operator-in-sexp", "("+rep("+-*", n-2)+")")
		}
		c.Parallel(len(lits), func(w, i int) {
			for vi, text := range []string{lits[i].text, "[" + lits[i].text + ", 2]", "{f:" + lits[i].text + "} 3", "(" + lits[i].text + " x)"} {
				if lits[i].name == "operator-in-sexp" && vi == 3 {
					continue
				}
				k := ReadCase{CaseSeed: int64(i*4 + vi), Literal: text + " "}
				c.JournalCase(w, fmt.Sprintf("%s-literal %d %s", sub, len(lits[i].text), lits[i].name))
				if ran, _ := runReadCase(c, sub+"-token-length", k); ran {
					c.NonTrivial("lit|" + text)
					c.Feat1("literal:" + lits[i].name)
				}
			}
		})
		c.Exhaustive(fmt.Sprintf("token-length sweep: %d literal kinds at every length 1..140 and 255..257, 1023..1025, 4095..4097 bytes, at top level, in a list, in a struct and in an s-expression", 23))
		// line-ending sweep: raw CR, LF and CR LF runs inside long strings and clobs (where they are
		// data, normalised to LF), an escaped line end, comments ended by each; shifted byte by byte
		// across the 4096- and 8192-byte marks so that every CR is once the last byte of a buffer
		body := "'''a\r\n\r\nb\r\r\nc\n\r\n\rd''' {{'''e\r\n\r\nf\r'''}} '''g\\\r\n\r\nh''' // c\r\n 1 /* \r\n\r */ '''i\r''' '''\nj'''\r\n[\r\n'''k\r\n''',\r2]"
		var pads []int
		for _, mark := range []int{4096, 8192} {
			for p := mark - len(body) - 2; p <= mark+1; p++ {
				pads = append(pads, p)
			}
		}
		c.Parallel(len(pads), func(w, i int) {
			k := ReadCase{CaseSeed: int64(i), Literal: strings.Repeat(" ", pads[i]) + body + " "}
			c.JournalCase(w, fmt.Sprintf("%s-line-endings pad=%d", sub, pads[i]))
			if ran, _ := runReadCase(c, sub+"-line-endings", k); ran {
				c.NonTrivial(fmt.Sprintf("crlf|%d", pads[i]))
				c.Obs("line_ending_positions", 1)
			}
		})
	}
	if !binary {
		// operators glued to the value behind them: an operator ends at the first character that is not an
		// operator character, so (+2007T) is the symbol + followed by a timestamp
		ops := []string{"+", "-+", "*", "<=", "&&+", "."}
		nexts := []string{"2007-02-23T12:14:33.079-08:00", "2000-01-01T", "2001T", "0x1F", "0b101", "12", "1.5", "2.5e0", "7d-2", "1_000", "abc", "'q s'", "\"str\"", "'''long'''", "{{aGk=}}", "{{\"clob\"}}", "[1, 2]", "(x)", "{a: 1}", "a::3", "null.int", "true", "$4", "nan", "information"}
		var glued []string
		for _, op := range ops {
			for _, nx := range nexts {
				if !reftext.OperatorGlueOK(op, nx) {
					continue
				}
				glued = append(glued, "("+op+nx+")", "(a "+op+nx+" 1)", "[("+op+nx+" "+op+nx+")]")
			}
		}
		c.Parallel(len(glued), func(w, i int) {
			k := ReadCase{CaseSeed: int64(i), Literal: glued[i] + " "}
			c.JournalCase(w, fmt.Sprintf("%s-operator-glue %s", sub, glued[i]))
			if ran, _ := runReadCase(c, sub+"-operator-glue", k); ran {
				c.NonTrivial("glue|" + glued[i])
				c.Obs("operator_glued_documents", 1)
			}
		})
	}
	// per-kind pass: every kind x typed null x annotated, with heavy spelling variation
	g := gen.New(c.Seed + 99)
	var grid []ReadCase
	reps := c.N(30, 300)
	for _, kind := range gen.AllKinds {
		for rep := 0; rep < reps; rep++ {
			v := g.OfKind(kind, 2)
			variants := [][]*model.Value{
				{v.Clone()},
				{v.Clone().WithAnn(model.T("a"))},
				{model.ListV(v.Clone(), v.Clone().WithAnn(model.T("b"), model.T("c")))},
				{model.SexpV(v.Clone(), model.SymV(model.T("+")), v.Clone())},
				{model.StructV(v.Clone().WithField(model.T("f")), v.Clone().WithField(model.T("f")).WithAnn(model.T("a")))},
				{v.Clone(), v.Clone()},
			}
			for vi, vs := range variants {
				ok := true
				for _, x := range vs {
					if !gen.TopLevelOK(x) {
						ok = false
					}
				}
				if !ok {
					continue
				}
				grid = append(grid, ReadCase{CaseSeed: c.Seed*31 + int64(len(grid)), Binary: binary, P: []float64{0.2, 0.5, 0.8}[(rep+vi)%3], Vals: vs})
			}
		}
	}
	for li, vs := range LookalikeStreams() {
		for rep := 0; rep < c.N(12, 60); rep++ {
			grid = append(grid, ReadCase{CaseSeed: c.Seed*37 + int64(li*1000+rep), Binary: binary, P: []float64{0.1, 0.3, 0.6}[rep%3], Vals: vs})
		}
	}
	c.Parallel(len(grid), func(w, i int) {
		c.JournalCase(w, fmt.Sprintf("%s-grid %d", sub, i))
		if ran, nch := runReadCase(c, sub+"-grid", grid[i]); ran && nch >= 2 {
			data, _, _, _ := grid[i].render()
			c.NonTrivial(string(data))
		}
	})
	c.Obs("per_kind_grid_cases", int64(len(grid)))
	c.mu.Lock()
	inc := c.obs["harness_inconsistent"]
	c.mu.Unlock()
	if inc > 0 {
		c.Inconclusive(fmt.Sprintf("reference producer and reference consumer disagreed on %d cases (dropped; harness defect, see samples)", inc))
	}
}

func replayRead(c *Ctx, v *Violation) string {
	var k ReadCase
	if err := json.Unmarshal(v.Case, &k); err != nil {
		return "cannot decode case: " + err.Error()
	}
	var data []byte
	unordered := true
	if k.InputHex != "" {
		data, _ = hex.DecodeString(k.InputHex)
	} else if k.Input != "" {
		data = []byte(k.Input)
	} else {
		var err error
		data, unordered, _, err = k.render()
		if err != nil {
			return "cannot render: " + err.Error()
		}
	}
	verdict := judgeRead(&k, data, unordered)
	if verdict == "" {
		return "HELD on replay"
	}
	return "VIOLATED on replay: " + verdict
}

func init() {
	Register(&Monitor{ID: "C02", Run: func(c *Ctx) {
		c.Rule = "seeded value streams rendered by the independent text printer with a random spelling choice at every token (whitespace, comments, radix/underscore/exponent forms, escapes, long-string segmentation, quoted/operator/$n symbols, lob layout, trailing commas, local symbol tables); each rendering must first parse back to the model under the reference parser, then ion-go's Reader must yield the model; a buffer-boundary sweep shifts short documents by whitespace/comment filler so that every sampled offset of the document falls on a multiple of 4096 bytes of input; a token-length sweep (23 literal kinds at every length 1..140 and around 256, 1024, 4096); a line-ending sweep (CR, LF, CR LF runs inside long strings, clobs and comments shifted byte by byte across the 4096 and 8192 marks); comments directly behind every kind of token, operators included; streams that resemble symbol tables and version markers without being any. Non-trivial: >=2 non-canonical spelling choices and >=1 non-null value; distinct by rendered text."
		c.Assume("reftext implements the Ion 1.0 text grammar (DESIGN.md appendix A); doubtful spellings are not generated (DESIGN.md section 5)")
		runReadMonitor(c, "text-read", false)
	}, Replay: replayRead})
	Register(&Monitor{ID: "C03", Run: func(c *Ctx) {
		c.Rule = "seeded value streams encoded by the independent binary encoder with random representation choices (inline vs VarUInt lengths, padded VarUInt/VarInt/int/SID, float32/64, decimal/timestamp sub-field forms, NOP pads at top level, in sequences and in structs, sorted-field structs, repeated version markers, multi-segment symbol tables incl. append, duplicate/gap symbols, annotation wrappers around every kind); each encoding must first decode to the model under the reference decoder, then ion-go's Reader must yield the model; a buffer-boundary sweep shifts short documents by NOP pads so that every sampled offset of the document falls on a multiple of 4096 bytes of input; streams that resemble symbol tables and version markers without being any. Non-trivial: >=2 non-canonical choices and >=1 non-null value; distinct by encoded bytes."
		c.Assume("refbin implements the Ion 1.0 binary format (DESIGN.md appendix A)")
		runReadMonitor(c, "binary-read", true)
	}, Replay: replayRead})
}
