package mon

import (
	"fmt"

	"github.com/amzn/ion-go/ion"
)

// c17FailingSource: a Decoder whose source fails (in every way a real source fails) in the middle of a
// document must report that: it must neither hand out the part of a value that had arrived as if it were
// the value, nor say that the input ended (ErrNoInput). Values decoded before the failure are values of
// the complete document.
func c17FailingSource(c *Ctx) {
	docs := []string{"123", "1 2 3 ", "12345 67890", "abc def", "1.5 2.5e0 3d1", "2020-01-02T 2021T", "[1, 2, 3] 4", "{a: 1, b: 2} 5", "\"string\" 'quoted' 7", "null.int true 9", "{{aGVsbG8=}} 1"}
	for di, doc := range docs {
		data := []byte(doc)
		// what the complete document decodes to
		var full []string
		d := ion.NewTextDecoder(&chunkReader{data: data, failAt: -1})
		for {
			x, err := d.Decode()
			if err != nil {
				break
			}
			full = append(full, showOrdAny(x))
		}
		for fa := 1; fa < len(data); fa++ {
			for ek := range failKinds {
				for _, via := range []int{0, 1, 2} {
					c.Eval(1)
					c.NonTrivial(fmt.Sprintf("decoder-fault|%d|%d|%d|%d", di, fa, ek, via))
					src := &chunkReader{data: data, failAt: fa, failErr: failKinds[ek]}
					if via == 2 {
						src.chunks = []int{1}
					}
					verdict := func() (v string) {
						defer func() {
							if rec := recover(); rec != nil {
								v = fmt.Sprintf("panic: %v", rec)
							}
						}()
						var dec *ion.Decoder
						if via == 0 {
							dec = ion.NewTextDecoder(src)
						} else {
							dec = ion.NewDecoder(ion.NewReader(src))
						}
						for i := 0; i <= len(full)+1; i++ {
							x, err := dec.Decode()
							if err == ion.ErrNoInput {
								return fmt.Sprintf("after %d values the Decoder reported the end of input (ErrNoInput), but the source had failed with %q at byte %d of %d", i, failKinds[ek], fa, len(data))
							}
							if err != nil {
								return ""
							}
							if i >= len(full) || showOrdAny(x) != full[i] {
								return fmt.Sprintf("value %d decoded as %s although the source failed with %q at byte %d of %d (the complete document gives %v)", i, showOrdAny(x), failKinds[ek], fa, len(data), full)
							}
						}
						return "the Decoder never reported the failure of its source"
					}()
					if verdict != "" {
						c.Violate("decoder-failing-source", Class(verdict), fmt.Sprintf("document %q :: %s", doc, verdict), UnCase{Text: doc, Via: fmt.Sprintf("Decoder over a source failing at byte %d with error kind %d", fa, ek)}, nil)
					}
				}
			}
		}
	}
	c.Obs("decoder_documents_with_a_failing_source", int64(len(docs)))
}

func showOrdAny(x interface{}) string {
	switch t := x.(type) {
	case *string:
		if t != nil {
			return "*" + *t
		}
	case *float64:
		if t != nil {
			return fmt.Sprintf("*%v", *t)
		}
	case *ion.Decimal:
		if t != nil {
			return "*" + t.String()
		}
	case *ion.Timestamp:
		if t != nil {
			return "*" + t.String()
		}
	case *ion.SymbolToken:
		if t != nil {
			return "*" + t.String()
		}
	}
	return fmt.Sprintf("%v", x)
}
