//go:build !verif

package mon

import (
	"errors"
	"math/big"

	"github.com/amzn/ion-go/ion"
)

// Built without the repository's verif hooks (they did not compile against the tree under test):
// hook-dependent sub-checks report inconclusive.
const HooksBuilt = false

var errNoHooks = errors.New("hooks not built")

type Codecs struct{}

func (Codecs) UintLen(v uint64) uint64                            { return 0 }
func (Codecs) AppendUint(v uint64) []byte                         { return nil }
func (Codecs) IntLen(v int64) uint64                              { return 0 }
func (Codecs) AppendInt(v int64) []byte                           { return nil }
func (Codecs) BigIntLen(v *big.Int) uint64                        { return 0 }
func (Codecs) AppendBigInt(v *big.Int) []byte                     { return nil }
func (Codecs) VarUintLen(v uint64) uint64                         { return 0 }
func (Codecs) AppendVarUint(v uint64) []byte                      { return nil }
func (Codecs) VarIntLen(v int64) uint64                           { return 0 }
func (Codecs) AppendVarInt(v int64) []byte                        { return nil }
func (Codecs) TagLen(l uint64) uint64                             { return 0 }
func (Codecs) AppendTag(code byte, l uint64) []byte               { return nil }
func (Codecs) TimestampBody(t ion.Timestamp) (uint64, []byte)     { return 0, nil }
func (Codecs) ReadVarUint(bs []byte) (uint64, uint64, error)      { return 0, 0, errNoHooks }
func (Codecs) ReadVarInt(bs []byte) (int64, int64, uint64, error) { return 0, 0, 0, errNoHooks }
func (Codecs) ReadInt(bs []byte, neg bool) (interface{}, error)   { return nil, errNoHooks }
func (Codecs) ReadDecimal(bs []byte) (*ion.Decimal, error)        { return nil, errNoHooks }

type WriterState struct {
	Depth         int
	Err           error
	PendingField  bool
	PendingAnnots int
	Known         bool
}
type ReaderState struct {
	Depth int
	EOF   bool
	Err   error
	Pos   uint64
	Known bool
}

func ProbeWriter(w ion.Writer) WriterState { return WriterState{} }
func ProbeReader(r ion.Reader) ReaderState { return ReaderState{} }
func IsNegZero(d *ion.Decimal) bool {
	c, _ := d.CoEx()
	s := d.String()
	return c.Sign() == 0 && len(s) > 0 && s[0] == '-'
}
