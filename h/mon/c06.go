package mon

import (
	"bufio"
	"bytes"
	"encoding/binary"
	"encoding/hex"
	"encoding/json"
	"fmt"
	"io"
	"math/big"
	"math/rand"
	"os"
	"os/exec"
	"path/filepath"
	"runtime"
	"strconv"
	"strings"
	"sync"
	"sync/atomic"
	"syscall"
	"time"

	"github.com/amzn/ion-go/ion"

	"verifh/gen"
	"verifh/ionx"
	"verifh/model"
	"verifh/refbin"
)

// ---------------------------------------------------------------------------------------------
// worker side: runs the public API on each input of a batch file inside an rlimited process
// ---------------------------------------------------------------------------------------------

type hostileResult struct {
	I      int      `json:"i"`
	Panics []string `json:"panics,omitempty"`
	Alloc  uint64   `json:"alloc"`  // largest TotalAlloc delta of one API run
	Values int      `json:"values"` // largest number of values returned by one traversal
	CPUms  int64    `json:"cpu_ms"`
	Calls  int      `json:"calls"`
	Where  string   `json:"where,omitempty"` // API run with the largest allocation
}

func cpuMillis() int64 {
	var ru syscall.Rusage
	syscall.Getrusage(syscall.RUSAGE_SELF, &ru)
	return ru.Utime.Sec*1000 + int64(ru.Utime.Usec)/1000 + ru.Stime.Sec*1000 + int64(ru.Stime.Usec)/1000
}

type apiRun struct {
	name string
	f    func(data []byte, rnd *rand.Rand) (values int, calls int)
}

type c06Struct struct {
	A int    `ion:"a"`
	B string `ion:"b"`
	C []int  `ion:"c"`
	D *c06Struct
}

type c06Annot struct {
	V   interface{}       `ion:"v"`
	Ann []ion.SymbolToken `ion:",annotations"`
}

func unmarshalTargets() []func() interface{} {
	return []func() interface{}{
		func() interface{} { var v interface{}; return &v },
		func() interface{} { var v int; return &v },
		func() interface{} { var v int8; return &v },
		func() interface{} { var v uint16; return &v },
		func() interface{} { var v uint64; return &v },
		func() interface{} { var v float32; return &v },
		func() interface{} { var v float64; return &v },
		func() interface{} { var v string; return &v },
		func() interface{} { var v bool; return &v },
		func() interface{} { var v []byte; return &v },
		func() interface{} { var v [4]byte; return &v },
		func() interface{} { var v []int; return &v },
		func() interface{} { var v [2]int; return &v },
		func() interface{} { var v []interface{}; return &v },
		func() interface{} { var v map[string]interface{}; return &v },
		func() interface{} { var v map[string]int; return &v },
		func() interface{} { var v c06Struct; return &v },
		func() interface{} { var v *c06Struct; return &v },
		func() interface{} { var v c06Annot; return &v },
		func() interface{} { var v ion.Timestamp; return &v },
		func() interface{} { var v time.Time; return &v },
		func() interface{} { var v ion.Decimal; return &v },
		func() interface{} { var v *ion.Decimal; return &v },
		func() interface{} { var v big.Int; return &v },
		func() interface{} { var v ion.SymbolToken; return &v },
		func() interface{} { var v *string; return &v },
		func() interface{} { var v []string; return &v },
		func() interface{} { var v interface{}; v = &v; return v },                 // an interface holding a pointer to itself
		func() interface{} { type node struct{ Next interface{} }; n := &node{}; n.Next = n; return n }, // a target that contains itself
		func() interface{} { var v [4]NamedU8; return &v },
		func() interface{} { var v []NamedU8; return &v },
		func() interface{} { var v map[NamedKey]int; return &v },
		func() interface{} { var v NamedMix; return &v },
		func() interface{} { var v []NamedMap; return &v },
		func() interface{} { var v [2][]NamedKey; return &v },
		func() interface{} { var v TagMix; return &v },
		func() interface{} { var v DeepOuter; return &v },
	}
}

var apiRuns = []apiRun{
	{"traversal", func(data []byte, _ *rand.Rand) (int, int) {
		obs := ionx.ReadAll(data)
		if obs.Panic != "" {
			panic(obs.Panic)
		}
		return model.Count(obs.Vals), obs.Calls
	}},
	{"traversal+catalog", func(data []byte, _ *rand.Rand) (int, int) {
		cat := ion.NewCatalog(ion.NewSharedSymbolTable("a", 1, []string{"x", "y"}), ion.NewSharedSymbolTable("a", 3, []string{"x", "y", "z", "w"}), ion.NewSharedSymbolTable("big", 1, nil))
		obs := ionx.ReadAllCat(data, cat)
		if obs.Panic != "" {
			panic(obs.Panic)
		}
		return model.Count(obs.Vals), obs.Calls
	}},
	{"random-calls", func(data []byte, rnd *rand.Rand) (int, int) {
		r := ion.NewReaderBytes(data)
		vals := 0
		n := 16 + rnd.Intn(49)
		for i := 0; i < n; i++ {
			switch rnd.Intn(22) {
			case 0, 1, 2, 3, 4, 5:
				if r.Next() {
					vals++
				}
			case 6, 7:
				r.StepIn()
			case 8:
				r.StepOut()
			case 9:
				r.Type()
				r.IsNull()
				r.IsInStruct()
			case 10:
				r.FieldName()
				r.Annotations()
			case 11:
				r.BoolValue()
			case 12:
				r.IntSize()
				r.IntValue()
				r.Int64Value()
				r.BigIntValue()
			case 13:
				r.FloatValue()
			case 14:
				r.DecimalValue()
			case 15:
				r.TimestampValue()
			case 16:
				r.StringValue()
			case 17:
				r.SymbolValue()
			case 18:
				r.ByteValue()
			case 19:
				if st := r.SymbolTable(); st != nil {
					st.MaxID()
					st.FindByID(10)
					st.FindByName("x")
				}
			case 20:
				r.Err()
			case 21:
				// own accessor of whatever is current
				switch r.Type() {
				case ion.IntType:
					r.IntValue()
				case ion.StringType:
					r.StringValue()
				case ion.SymbolType:
					r.SymbolValue()
				case ion.TimestampType:
					if ts, _ := r.TimestampValue(); ts != nil {
						_ = ts.String()
					}
				case ion.DecimalType:
					if d, _ := r.DecimalValue(); d != nil {
						_ = d.String()
					}
				}
			}
		}
		return vals, n
	}},
	{"decoder", func(data []byte, _ *rand.Rand) (int, int) {
		d := ion.NewDecoder(ion.NewReaderBytes(data))
		vals := 0
		for i := 0; i <= len(data)+2; i++ {
			_, err := d.Decode()
			if err != nil {
				break
			}
			vals++
		}
		return vals, vals + 1
	}},
	{"unmarshal", func(data []byte, rnd *rand.Rand) (int, int) {
		ts := unmarshalTargets()
		// three targets per input, rotating, each through another way in (every one of them has to
		// withstand the input on its own)
		for k := 0; k < 3; k++ {
			t := ts[rnd.Intn(len(ts))]()
			switch k {
			case 0:
				ion.Unmarshal(data, t)
			case 1:
				ion.UnmarshalFrom(ion.NewReaderBytes(data), t)
			default:
				ion.NewDecoder(ion.NewReader(bytes.NewReader(data))).DecodeTo(t)
			}
		}
		// the untyped ways in, which are the ones that recurse on the input's own shape
		var x interface{}
		ion.UnmarshalFrom(ion.NewReaderBytes(data), &x)
		var y interface{}
		ion.UnmarshalString(string(data), &y)
		return 0, 5
	}},
	{"unmarshal-all-targets", func(data []byte, rnd *rand.Rand) (int, int) {
		if len(data) > 64 && rnd.Intn(8) != 0 {
			return 0, 0
		}
		for _, mk := range unmarshalTargets() {
			ion.Unmarshal(data, mk())
		}
		return 0, len(unmarshalTargets())
	}},
}

func runHostile(i int, data []byte) hostileResult {
	res := hostileResult{I: i}
	seed := int64(Hash(string(data)))
	cpu0 := cpuMillis()
	var ms runtime.MemStats
	for _, ar := range apiRuns {
		runtime.ReadMemStats(&ms)
		before := ms.TotalAlloc
		func() {
			defer func() {
				if rec := recover(); rec != nil {
					s := fmt.Sprint(rec)
					if !strings.Contains(s, " @ ") {
						s = ionx.PanicSite(rec)
					}
					res.Panics = append(res.Panics, ar.name+": "+s)
				}
			}()
			v, calls := ar.f(data, rand.New(rand.NewSource(seed)))
			if v > res.Values {
				res.Values = v
			}
			res.Calls += calls
		}()
		runtime.ReadMemStats(&ms)
		if d := ms.TotalAlloc - before; d > res.Alloc {
			res.Alloc = d
			res.Where = ar.name
		}
	}
	res.CPUms = cpuMillis() - cpu0
	return res
}

func readBatch(path string) ([][]byte, error) {
	data, err := os.ReadFile(path)
	if err != nil {
		return nil, err
	}
	var out [][]byte
	for p := 0; p+4 <= len(data); {
		n := int(binary.LittleEndian.Uint32(data[p:]))
		p += 4
		if p+n > len(data) {
			break
		}
		out = append(out, data[p:p+n])
		p += n
	}
	return out, nil
}

func writeBatch(path string, inputs [][]byte) error {
	var buf bytes.Buffer
	for _, in := range inputs {
		var l [4]byte
		binary.LittleEndian.PutUint32(l[:], uint32(len(in)))
		buf.Write(l[:])
		buf.Write(in)
	}
	return os.WriteFile(path, buf.Bytes(), 0o644)
}

func c06Worker(args []string) int {
	if len(args) < 2 {
		return 2
	}
	start, _ := strconv.Atoi(args[1])
	inputs, err := readBatch(args[0])
	if err != nil {
		return 2
	}
	lim := syscall.Rlimit{Cur: 4 << 30, Max: 4 << 30}
	syscall.Setrlimit(syscall.RLIMIT_AS, &lim)
	runtime.GOMAXPROCS(1)
	out := bufio.NewWriter(os.Stdout)
	for i := start; i < len(inputs); i++ {
		fmt.Fprintf(out, "S %d\n", i)
		out.Flush()
		res := runHostile(i, inputs[i])
		js, _ := json.Marshal(res)
		fmt.Fprintf(out, "E %s\n", js)
		out.Flush()
	}
	return 0
}

func init() { workerKinds["c06"] = c06Worker }

// ---------------------------------------------------------------------------------------------
// parent side
// ---------------------------------------------------------------------------------------------

type HostileCase struct {
	InputHex string `json:"input_hex"`
	Shown    string `json:"input_shown"`
	Class    string `json:"input_class"`
	Stderr   string `json:"stderr_tail,omitempty"`
}

type hostileInput struct {
	data  []byte
	class string
}

func c06Judge(c *Ctx, in hostileInput, res hostileResult) {
	c.Eval(len(apiRuns))
	c.Obs("api_calls", int64(res.Calls))
	if res.Calls >= 3 && len(in.data) > 4 {
		c.NonTrivial(string(in.data))
	}
	k := HostileCase{InputHex: hex.EncodeToString(in.data), Shown: showInput(len(in.data) >= 4 && in.data[0] == 0xE0 && in.data[3] == 0xEA, in.data), Class: in.class}
	for _, p := range res.Panics {
		site := p
		if i := strings.LastIndex(p, " @ "); i >= 0 {
			site = p[i+3:]
		}
		msg := strings.SplitN(p, " @ ", 2)[0]
		if j := strings.Index(msg, ": "); j >= 0 {
			msg = msg[j+2:] // drop the name of the API program
		}
		c.Violate("no-panic", "panic@"+site+":"+Class(msg), fmt.Sprintf("class=%s input=%s :: %s", in.class, k.Shown, p), k, nil)
	}
	if res.Values > len(in.data)+1 {
		c.Violate("progress", "more-values-than-bytes", fmt.Sprintf("class=%s input=%s :: %d values from %d bytes", in.class, k.Shown, res.Values, len(in.data)), k, nil)
	}
	lim := uint64(1<<20 + 1024*len(in.data))
	switch res.Where { // these programs make several independent API calls
	case "unmarshal":
		lim *= 6
	case "unmarshal-all-targets":
		lim *= uint64(len(unmarshalTargets()))
	}
	if res.Alloc > lim {
		c.Violate("allocation", "alloc-out-of-proportion:"+in.class+":"+res.Where, fmt.Sprintf("class=%s input=%s (%d bytes) :: %s allocated %d bytes (bound %d)", in.class, k.Shown, len(in.data), res.Where, res.Alloc, lim), k, nil)
	}
	// CPU: 10 s plus 4 microseconds per input byte for all API programs together (they read the input
	// about ten times over, byte by byte)
	if budget := int64(10000 + len(in.data)/250); res.CPUms > budget {
		c.Violate("cpu", "cpu-budget:"+in.class, fmt.Sprintf("class=%s input=%s :: %d ms CPU for %d bytes (budget %d ms)", in.class, k.Shown, res.CPUms, len(in.data), budget), k, nil)
	}
	c.mu.Lock()
	if int64(res.Alloc) > c.obs["max_alloc_bytes_one_run"] {
		c.obs["max_alloc_bytes_one_run"] = int64(res.Alloc)
	}
	if res.CPUms > c.obs["max_cpu_ms_one_input"] {
		c.obs["max_cpu_ms_one_input"] = res.CPUms
	}
	c.mu.Unlock()
}

func procCPUSeconds(pid int) float64 {
	data, err := os.ReadFile(fmt.Sprintf("/proc/%d/stat", pid))
	if err != nil {
		return -1
	}
	s := string(data)
	if i := strings.LastIndex(s, ")"); i >= 0 {
		f := strings.Fields(s[i+1:])
		if len(f) > 13 {
			ut, _ := strconv.ParseFloat(f[11], 64)
			st, _ := strconv.ParseFloat(f[12], 64)
			return (ut + st) / 100
		}
	}
	return -1
}

var c06Hangs int32

// runBatch runs one batch in child workers, restarting after a death; calls judge for each input.
func c06RunBatch(c *Ctx, id int, inputs []hostileInput) {
	dir := filepath.Join(c.Root, "out", "c06")
	os.MkdirAll(dir, 0o755)
	path := filepath.Join(dir, fmt.Sprintf("batch-%d.bin", id))
	raw := make([][]byte, len(inputs))
	for i := range inputs {
		raw[i] = inputs[i].data
	}
	if err := writeBatch(path, raw); err != nil {
		c.Inconclusive("cannot write batch file: " + err.Error())
		return
	}
	defer os.Remove(path)
	start := 0
	for start < len(inputs) {
		if atomic.LoadInt32(&c06Hangs) >= 6 {
			// every further hang costs 30 s of CPU: six recorded ones decide the run
			c.Obs("inputs_abandoned_after_six_hangs", int64(len(inputs)-start))
			return
		}
		errPath := filepath.Join(dir, fmt.Sprintf("batch-%d.stderr", id))
		ef, _ := os.Create(errPath)
		cmd := exec.Command(os.Args[0], "worker", "c06", path, strconv.Itoa(start))
		cmd.Env = append(os.Environ(), "GOTRACEBACK=single")
		cmd.Stderr = ef
		pipe, _ := cmd.StdoutPipe()
		if err := cmd.Start(); err != nil {
			c.Inconclusive("cannot start worker: " + err.Error())
			ef.Close()
			return
		}
		current := -1
		cpuAtStart := 0.0
		lastLine := time.Now()
		var mu sync.Mutex
		done := make(chan struct{})
		hung := false
		go func() { // watchdog: CPU time of the child while one input is in flight
			for {
				select {
				case <-done:
					return
				case <-time.After(500 * time.Millisecond):
				}
				mu.Lock()
				idle := time.Since(lastLine)
				mu.Unlock()
				if idle > 20*time.Second {
					// in-flight input is slow: decide on the CPU seconds it has had, not on wall clock
					// (30 s plus 12 microseconds per input byte: six API programs read a multi-megabyte
					// document several times over)
					mu.Lock()
					cur, since := current, cpuAtStart
					mu.Unlock()
					limit := 30.0
					if cur >= 0 && cur < len(inputs) {
						limit += float64(len(inputs[cur].data)) * 12e-6
					}
					if cpu := procCPUSeconds(cmd.Process.Pid) - since; cpu > limit || idle > 15*time.Minute {
						hung = cpu > limit
						cmd.Process.Kill()
						return
					}
				}
			}
		}()
		sc := bufio.NewScanner(pipe)
		sc.Buffer(make([]byte, 1<<20), 1<<24)
		finished := start
		for sc.Scan() {
			line := sc.Text()
			mu.Lock()
			lastLine = time.Now()
			mu.Unlock()
			if strings.HasPrefix(line, "S ") {
				n, _ := strconv.Atoi(line[2:])
				at := procCPUSeconds(cmd.Process.Pid)
				mu.Lock()
				current, cpuAtStart = n, at
				mu.Unlock()
			} else if strings.HasPrefix(line, "E ") {
				var res hostileResult
				if json.Unmarshal([]byte(line[2:]), &res) == nil && res.I >= 0 && res.I < len(inputs) {
					c06Judge(c, inputs[res.I], res)
					finished = res.I + 1
				}
				current = -1
			}
		}
		io.Copy(io.Discard, pipe)
		werr := cmd.Wait()
		close(done)
		ef.Close()
		if werr == nil && finished >= len(inputs) {
			os.Remove(errPath)
			return
		}
		// the worker died while input `current` was in flight
		if current < 0 {
			current = finished
		}
		if current >= len(inputs) {
			return
		}
		tail := tailOf(errPath, 3000)
		in := inputs[current]
		k := HostileCase{InputHex: hex.EncodeToString(in.data), Shown: showInput(len(in.data) >= 4 && in.data[0] == 0xE0 && in.data[3] == 0xEA, in.data), Class: in.class, Stderr: tail}
		c.Eval(1)
		switch {
		case hung:
			atomic.AddInt32(&c06Hangs, 1)
			c.Violate("termination", "cpu-budget-exceeded:"+in.class, fmt.Sprintf("class=%s input=%s :: more than 30 s of CPU on %d bytes without finishing", in.class, k.Shown, len(in.data)), k, nil)
		case strings.Contains(tail, "fatal error:") || strings.Contains(tail, "stack exceeds") || strings.Contains(tail, "out of memory"):
			msg := "fatal runtime error"
			for _, l := range strings.Split(tail, "\n") {
				if strings.Contains(l, "fatal error:") || strings.Contains(l, "stack exceeds") {
					msg = strings.TrimSpace(l)
					break
				}
			}
			site := ""
			for _, l := range strings.Split(tail, "\n") {
				if strings.Contains(l, "github.com/amzn/ion-go/ion.") {
					site = strings.TrimSpace(l)
					if j := strings.LastIndex(site, "("); j > 0 {
						site = site[:j]
					}
					site = strings.TrimPrefix(site, "github.com/amzn/ion-go/")
					break
				}
			}
			c.Violate("no-fatal", "fatal@"+site+":"+Class(msg), fmt.Sprintf("class=%s input=%s :: worker died: %s", in.class, k.Shown, msg), k, nil)
		default:
			c.Inconclusive(fmt.Sprintf("worker died (%v) without a runtime report on input %d of batch %d", werr, current, id))
		}
		start = current + 1
	}
}

func tailOf(path string, n int) string {
	data, err := os.ReadFile(path)
	if err != nil {
		return ""
	}
	if len(data) > n {
		// the head holds the fatal message, the tail the goroutine
		return string(data[:n])
	}
	return string(data)
}

// ---- input generation ----

func vu(v uint64) []byte { return refVarUInt(v) }

func hostileDocs(r *rand.Rand) []hostileInput {
	var out []hostileInput
	add := func(class string, b []byte) { out = append(out, hostileInput{b, class}) }
	bin := func(parts ...[]byte) []byte {
		d := append([]byte{}, refbin.IVM...)
		for _, p := range parts {
			d = append(d, p...)
		}
		return d
	}
	bin0 := func(parts ...[]byte) []byte { // concatenation without the version marker
		var d []byte
		for _, p := range parts {
			d = append(d, p...)
		}
		return d
	}
	// --- symbol-table slots filled with every typed null / wrong type / duplicate / extreme number ---
	fillers := []string{"null", "null.null", "null.bool", "null.int", "null.float", "null.decimal", "null.timestamp", "null.symbol", "null.string",
		"null.clob", "null.blob", "null.list", "null.sexp", "null.struct", "true", "0", "-1", "1e0", "1.5", "2000T", "sym", "\"str\"", "{{aGk=}}", "{{\"c\"}}",
		"[]", "()", "{}", "[null.string]", "[1,2]", "{name:null.string}", "$ion_symbol_table", "$3", "$0", "18446744073709551616", "-9223372036854775809",
		"9223372036854775807", "2147483648", "4294967296", "99999999999999999999999999999999", "[{}]", "[null]", "[[[]]]", "a::null.list", "[{name:\"a\",version:null.int,max_id:null.int}]"}
	for _, f := range fillers {
		add("lst-slot", []byte("$ion_symbol_table::{imports:"+f+"} $10 a"))
		add("lst-slot", []byte("$ion_symbol_table::{symbols:"+f+"} $10 $11"))
		add("lst-slot", []byte("$ion_symbol_table::{imports:[{name:"+f+",version:1,max_id:1}],symbols:[\"s\"]} $10 $11"))
		add("lst-slot", []byte("$ion_symbol_table::{imports:[{name:\"a\",version:"+f+",max_id:2}]} $10 $11 $12"))
		add("lst-slot", []byte("$ion_symbol_table::{imports:[{name:\"a\",version:1,max_id:"+f+"}]} $10 $11 $12"))
		add("lst-slot", []byte("$ion_symbol_table::{imports:[{name:\"big\",version:1,max_id:"+f+"}],symbols:[\"x\"]} $10 $11 $12"))
		add("lst-slot", []byte("$ion_symbol_table::{imports:["+f+"],symbols:["+f+"]} $10"))
		add("lst-slot", []byte("$ion_symbol_table::{symbols:[\"a\"],symbols:"+f+",imports:"+f+",imports:[]} $10"))
		add("lst-slot", []byte("$ion_symbol_table::"+f+" $10 1"))
		add("lst-slot", []byte("$ion_shared_symbol_table::{name:"+f+",version:"+f+",symbols:"+f+"} x"))
		add("lst-slot", []byte("{imports:"+f+", symbols:"+f+"} "+f+"::"+f))
	}
	// the same shapes in binary through the reference encoder (values are encoded, not interpreted)
	g := gen.New(r.Int63())
	anyVals := func() *model.Value {
		v := g.Value(3)
		return v
	}
	for i := 0; i < 400; i++ {
		lst := model.StructV()
		lst.Ann = []model.Sym{model.T("$ion_symbol_table")}
		for _, fld := range []string{"imports", "symbols", "name", "version", "max_id"} {
			if r.Intn(2) == 0 {
				continue
			}
			var v *model.Value
			switch r.Intn(5) {
			case 0:
				v = model.NullV(gen.AllKinds[r.Intn(13)])
			case 1:
				v = anyVals()
			case 2:
				imp := model.StructV()
				for _, f2 := range []string{"name", "version", "max_id", "name"} {
					if r.Intn(3) == 0 {
						continue
					}
					var x *model.Value
					switch r.Intn(4) {
					case 0:
						x = model.NullV(gen.AllKinds[r.Intn(13)])
					case 1:
						x = model.IntV(g.Int())
					case 2:
						x = model.StrV([]string{"a", "big", "$ion", ""}[r.Intn(4)])
					default:
						x = anyVals()
					}
					x.Ann = nil
					imp.Kids = append(imp.Kids, x.WithField(model.T(f2)))
				}
				v = model.ListV(imp, model.NullV(model.Struct), imp.Clone())
			case 3:
				l := model.ListV()
				for j := r.Intn(5); j >= 0; j-- {
					x := anyVals()
					l.Kids = append(l.Kids, x)
				}
				v = l
			default:
				v = model.SymV(model.T("$ion_symbol_table"))
			}
			f := model.T(fld)
			v.Field = &f
			lst.Kids = append(lst.Kids, v)
		}
		e := refbin.NewEncoder(nil, nil)
		e.AppendValue(lst)
		e.AppendValue(model.SymV(model.SID(int64(r.Intn(14)))))
		e.AppendValue(model.StructV(model.Int64V(1).WithField(model.SID(int64(r.Intn(12))))))
		if e.Err == nil {
			add("lst-slot-binary", e.Out)
		}
	}
	// --- extreme magnitudes ---
	bigs := []uint64{1 << 20, 1 << 31, 1<<32 - 1, 1 << 32, 1 << 40, 1 << 48, 1<<56 - 1, 1 << 62, 1<<63 - 1, 1 << 63, 1<<64 - 1}
	for _, n := range bigs {
		for _, t := range []byte{0x0E, 0x2E, 0x3E, 0x5E, 0x6E, 0x7E, 0x8E, 0x9E, 0xAE, 0xBE, 0xCE, 0xDE, 0xEE} {
			add("extreme-length", bin([]byte{t}, vu(n)))
			add("extreme-length", bin([]byte{t}, vu(n), []byte{0x81, 0x83, 0x20, 0x20}))
			add("extreme-length", bin([]byte{0xBE}, vu(20), []byte{t}, vu(n), bytes.Repeat([]byte{0x20}, 18)))
			add("extreme-length", bin([]byte{0xD1}, vu(n), []byte{0x84, 0x20}))
		}
		// two cooperating lengths: a container that claims n bytes and, inside it, a scalar that claims
		// almost as much (so it "fits"), followed by a few real bytes
		if n > 64 && n < 1<<62 {
			for _, ct := range [][]byte{{0xBE}, {0xCE}, {0xDE}} {
				for _, st := range []byte{0x2E, 0x3E, 0x5E, 0x6E, 0x7E, 0x8E, 0x9E, 0xAE} {
					fld := []byte{}
					if ct[0] == 0xDE {
						fld = []byte{0x84}
					}
					add("nested-extreme-length", bin(ct, vu(n), fld, []byte{st}, vu(n-16), []byte{0x01, 0x02, 0x03}))
					add("nested-extreme-length", bin([]byte{0xEE}, vu(n), []byte{0x81, 0x84}, []byte{st}, vu(n-16), []byte{0x01, 0x02, 0x03}))
					add("nested-extreme-length", bin(ct, vu(n), fld, []byte{0xBE}, vu(n-8), []byte{st}, vu(n-32), []byte{0x01}))
				}
			}
		}
		add("extreme-sid", bin([]byte{0x78},[]byte{byte(n >> 56), byte(n >> 48), byte(n >> 40), byte(n >> 32), byte(n >> 24), byte(n >> 16), byte(n >> 8), byte(n)}))
		add("extreme-sid", bin([]byte{0xD9}, vu(n), []byte{0x20}))
		add("extreme-sid", bin([]byte{0xEE}, vu(14), vu(10), vu(n), []byte{0x20, 0x20}))
		add("extreme-sid", []byte(fmt.Sprintf("$%d a::$%d {$%d:1}", n, n, n)))
		add("extreme-import", []byte(fmt.Sprintf("$ion_symbol_table::{imports:[{name:\"big\",version:1,max_id:%d}],symbols:[\"q\"]} $%d $10 q $ion_symbol_table::{imports:$ion_symbol_table,symbols:[\"w\"]} $%d w", n>>1, n>>1, n>>1)))
		add("extreme-import", []byte(fmt.Sprintf("$ion_symbol_table::{imports:[{name:\"a\",version:%d,max_id:%d},{name:\"a\",version:3,max_id:%d}]} $10 $11", n, n>>2, n>>2)))
	}
	// annotation wrappers whose annotation-length field says more than the wrapper holds, followed by a
	// value with an enormous declared length (unsigned length arithmetic)
	for _, wl := range []byte{3, 4, 5, 9, 13} {
		for _, al := range []uint64{uint64(wl), uint64(wl) + 1, 15, 127, 1 << 14, 1 << 35, 1<<63 - 1, 1 << 63, ^uint64(0) - 30, ^uint64(0)} {
			for _, follow := range [][]byte{bin0([]byte{0x2E}, vu(^uint64(0)-23)), bin0([]byte{0x8E}, vu(1<<62)), {0x21, 0x01}, bin0([]byte{0xBE}, vu(^uint64(0)))} {
				body := append(vu(al), bytes.Repeat([]byte{0x80}, 15)...)
				w := append([]byte{0xE0 | wl}, body...)
				junk := bytes.Repeat([]byte{1, 2, 3, 4, 5}, 6)
				if al <= 64 {
					// the annotation ids run on past the end the wrapper declares
					full := append(append([]byte{0xE0 | wl}, vu(al)...), bytes.Repeat([]byte{0x80}, int(al))...)
					add("annotation-length-vs-wrapper", bin([]byte{0xB0 | (wl + 1)}, full, follow, junk))
					add("annotation-length-vs-wrapper", bin(full, follow, junk))
					add("annotation-length-vs-wrapper", bin([]byte{0xD0 | (wl + 2)}, []byte{0x84}, full, follow, junk))
					add("annotation-length-vs-wrapper", bin([]byte{0xC0 | (wl + 1)}, full[:1+int(wl)], full[1+int(wl):], follow, junk))
				}
				add("annotation-length-vs-wrapper", bin([]byte{0xB0 | (wl + 1)}, w[:1+int(wl)], follow, junk))
				add("annotation-length-vs-wrapper", bin(w[:1+int(wl)], follow, junk))
				add("annotation-length-vs-wrapper", bin([]byte{0xD0 | (wl + 2)}, []byte{0x84}, w[:1+int(wl)], follow, junk))
			}
		}
	}
	// very many tiny tokens of one value or one run: work and memory must stay proportional
	add("many-long-string-segments", []byte(strings.Repeat("'''a''' ", 60000)+" 1"))
	add("many-long-string-segments", []byte("[ "+strings.Repeat("'''bc'''\n", 40000)+", {{ "+strings.Repeat("'''d''' ", 40000)+"}} ]"))
	add("nop-run", bin(bytes.Repeat([]byte{0x00}, 9_000_000), []byte{0x21, 0x01}))
	add("nop-run", bin([]byte{0xBE}, vu(9_000_002), bytes.Repeat([]byte{0x00}, 9_000_000), []byte{0x21, 0x01}, []byte{0x20}))
	add("nop-run", bin(bytes.Repeat([]byte{0x01, 0xFF}, 1_000_000), []byte{0xC3, 0x00, 0x00, 0x20}))
	// long chains of appending symbol tables (every table imports the one before it)
	for _, n := range []int{50, 1500} {
		var sb strings.Builder
		sb.WriteString("$ion_symbol_table::{symbols:[\"s0\"]} $10 ")
		for i := 1; i <= n; i++ {
			fmt.Fprintf(&sb, "$ion_symbol_table::{imports:$ion_symbol_table,symbols:[\"s%d\"]} ", i)
		}
		fmt.Fprintf(&sb, "$10 $%d", 10+n)
		if n < 1000 {
			add("lst-append-chain", []byte(sb.String()))
		}
		e := refbin.NewEncoder(nil, nil)
		e.AppendIVM()
		T := model.T
		e.Out = append(e.Out, e.Value(model.StructV(model.ListV(model.StrV("s0")).WithField(T("symbols"))).WithAnn(T("$ion_symbol_table")))...)
		for i := 1; i <= n; i++ {
			e.Out = append(e.Out, e.Value(model.StructV(model.SymV(T("$ion_symbol_table")).WithField(T("imports")), model.ListV(model.StrV(fmt.Sprintf("s%d", i))).WithField(T("symbols"))).WithAnn(T("$ion_symbol_table")))...)
		}
		e.Out = append(e.Out, 0x71, 0x0A)
		if e.Err == nil {
			add("lst-append-chain", e.Out)
		}
	}
	// ids high inside a range that an import merely reserves, in every position an id can occur:
	// legal, and nothing may be sized by the numeric value of an id
	for _, n := range []int64{70000, 5_000_000, 40_000_000, 1 << 31, 1 << 40} {
		add("high-reserved-id", []byte(fmt.Sprintf("$ion_symbol_table::{imports:[{name:\"x\",version:1,max_id:%d}]} {$%d:0} $%d $%d::$%d::1 [{$%d:{$%d:$%d}}] {$%d:1,$%d:2}", n+5, n, n, n, n-1, n, n-2, n-3, n, n+1)))
		T := model.T
		lst := model.StructV(model.ListV(model.StructV(model.StrV("x").WithField(T("name")), model.Int64V(1).WithField(T("version")), model.Int64V(n+5).WithField(T("max_id")))).WithField(T("imports"))).WithAnn(T("$ion_symbol_table"))
		user := []*model.Value{
			model.StructV(model.Int64V(0).WithField(model.SID(n))),
			model.SymV(model.SID(n)),
			model.Int64V(1).WithAnn(model.SID(n), model.SID(n-1)),
			model.ListV(model.StructV(model.StructV(model.SymV(model.SID(n-3)).WithField(model.SID(n-2))).WithField(model.SID(n)))),
		}
		_ = user
		tlv := func(t byte, body ...[]byte) []byte {
			var b []byte
			for _, x := range body {
				b = append(b, x...)
			}
			if len(b) < 14 {
				return append([]byte{t<<4 | byte(len(b))}, b...)
			}
			return append(append([]byte{t<<4 | 0x0E}, vu(uint64(len(b)))...), b...)
		}
		uintBytes := func(v uint64) []byte {
			var b []byte
			for ; v > 0; v >>= 8 {
				b = append([]byte{byte(v)}, b...)
			}
			return b
		}
		e := refbin.NewEncoder(nil, nil)
		e.AppendIVM()
		e.Out = append(e.Out, e.Value(lst)...)
		un := uint64(n)
		e.Out = append(e.Out, tlv(0xD, vu(un), []byte{0x20})...)                                                   // {$n:0}
		e.Out = append(e.Out, tlv(0x7, uintBytes(un))...)                                                         // $n
		e.Out = append(e.Out, tlv(0xE, vu(uint64(len(vu(un))+len(vu(un-1)))), vu(un), vu(un-1), []byte{0x21, 1})...) // $n::$(n-1)::1
		e.Out = append(e.Out, tlv(0xB, tlv(0xD, vu(un), tlv(0xD, vu(un-2), tlv(0x7, uintBytes(un-3)))))...)          // [{$n:{$(n-2):$(n-3)}}]
		e.Out = append(e.Out, tlv(0xD, vu(un), []byte{0x21, 1}, vu(un+1), []byte{0x21, 2})...)                       // {$n:1,$(n+1):2}
		if e.Err == nil {
			add("high-reserved-id", e.Out)
		}
	}
	// a child that declares 1 or 2 bytes more than its parent has left, in every length form (inline
	// nibble, VarUInt, the sorted-struct form D1), under every kind of parent, followed by more input:
	// the reader's position must never get past the end of a container
	for _, over := range []int{1, 2} {
		body := []byte{0x84, 0x20, 0x85, 0x20} // two struct fields / four bytes of anything
		children := [][]byte{}
		for _, t := range []byte{0x20, 0x30, 0x40, 0x50, 0x60, 0x70, 0x80, 0x90, 0xA0, 0xB0, 0xC0, 0xD0} {
			children = append(children, append([]byte{t | byte(len(body)+over)}, body...))
			children = append(children, append(append([]byte{t | 0x0E}, vu(uint64(len(body)+over))...), body...))
		}
		children = append(children, append(append([]byte{0xD1}, vu(uint64(len(body)+over))...), body...))
		children = append(children, append([]byte{0xE0 | byte(len(body)+over), 0x81, 0x84}, 0x21, 0x01))
		for _, ch := range children {
			tail := []byte{0x21, 0x01, 0x20}
			add("child-overruns-parent", bin([]byte{0xB0 | byte(len(ch))}, ch, tail))
			add("child-overruns-parent", bin([]byte{0xC0 | byte(len(ch))}, ch, tail))
			add("child-overruns-parent", bin([]byte{0xD0 | byte(len(ch)+1)}, []byte{0x84}, ch, tail))
			add("child-overruns-parent", bin([]byte{0xDE}, vu(uint64(len(ch)+1)), []byte{0x84}, ch, tail))
			add("child-overruns-parent", bin([]byte{0xE0 | byte(len(ch)+2)}, []byte{0x81, 0x84}, ch, tail))
			add("child-overruns-parent", bin([]byte{0xB0 | byte(len(ch)+2)}, []byte{0xB0 | byte(len(ch))}, ch, []byte{0x20}, tail))
		}
	}
	// decimal / timestamp exponents
	for _, e := range []string{"2147483647", "-2147483648", "2147483648", "-2147483649", "9223372036854775807", "-9223372036854775808", "99999999999999999999", "1000000", "-1000000"} {
		add("extreme-exponent", []byte("1d"+e+" -1.5d"+e+" 0d"+e))
		add("extreme-exponent", []byte("1e"+e+" 12345678901234567890e"+e))
		add("extreme-exponent", []byte("[1d"+e+"] {a:1.d"+e+"}"))
	}
	varInts := [][]byte{{0x3F, 0x7F, 0x7F, 0x7F, 0xFF}, {0x7F, 0x7F, 0x7F, 0x7F, 0xFF}, {0x07, 0x7F, 0x7F, 0x7F, 0xFF}, {0x47, 0x7F, 0x7F, 0x7F, 0xFF},
		{0x08, 0x00, 0x00, 0x00, 0x80}, {0x48, 0x00, 0x00, 0x00, 0x80}, {0x01, 0x7F, 0x7F, 0x7F, 0x7F, 0x7F, 0x7F, 0x7F, 0x7F, 0xFF}, {0x41, 0x7F, 0x7F, 0x7F, 0x7F, 0x7F, 0x7F, 0x7F, 0x7F, 0xFF}, {0xC0}, {0x80}}
	// every exponent within 40 of the int32 limits (the library does arithmetic on exponents)
	varInt := func(v int64) []byte {
		neg := v < 0
		m := uint64(v)
		if neg {
			m = uint64(-v)
		}
		var groups []byte
		for {
			groups = append([]byte{byte(m & 0x7F)}, groups...)
			m >>= 7
			if m == 0 {
				break
			}
		}
		if groups[0]&0x40 != 0 {
			groups = append([]byte{0}, groups...)
		}
		if neg {
			groups[0] |= 0x40
		}
		groups[len(groups)-1] |= 0x80
		return groups
	}
	for k := int64(0); k <= 40; k++ {
		for _, v := range []int64{1<<31 - 1 - k, -(1 << 31) + k, 1<<31 + k, -(1 << 31) - 1 - k} {
			varInts = append(varInts, varInt(v))
			if k%3 == 0 {
				add("extreme-exponent", []byte(fmt.Sprintf("1d%d -15d%d 0d%d -0d%d 1.5d%d", v, v, v, v, v)))
			}
		}
	}
	for _, vi := range varInts {
		for _, coef := range [][]byte{nil, {0x01}, {0x80}, {0xFF, 0xFF, 0xFF, 0xFF, 0xFF, 0xFF, 0xFF, 0xFF, 0xFF}, {0x7F, 0xFF, 0xFF, 0xFF, 0xFF, 0xFF, 0xFF, 0xFF}} {
			body := append(append([]byte{}, vi...), coef...)
			add("extreme-exponent-binary", bin([]byte{0x5E}, vu(uint64(len(body))), body))
			ts := append([]byte{0x80, 0x0F, 0xD0, 0x81, 0x81, 0x80, 0x80, 0x80}, body...)
			add("extreme-fraction-binary", bin([]byte{0x6E}, vu(uint64(len(ts))), ts))
			ts2 := append(append([]byte{}, vi...), 0x0F, 0xD0, 0x81, 0x81, 0x80, 0x80)
			add("extreme-offset-binary", bin([]byte{0x6E}, vu(uint64(len(ts2))), ts2))
		}
	}
	for _, y := range []uint64{0, 9999, 10000, 1 << 31, 1 << 62} {
		ts := append([]byte{0x80}, vu(y)...)
		add("extreme-year", bin([]byte{0x6E}, vu(uint64(len(ts))), ts))
		ts = append(ts, 0x81, 0x81, 0x97, 0xBB, 0xBB)
		add("extreme-year", bin([]byte{0x6E}, vu(uint64(len(ts))), ts))
		add("extreme-year", bin([]byte{0x6E}, vu(uint64(len(ts)+1)), []byte{0xC0}, ts[1:], []byte{0x80}))
	}
	add("long-timestamp-fraction", []byte("2000-01-01T00:00:00."+strings.Repeat("9", 5000)+"Z"))
	add("long-timestamp-fraction", []byte("2000-01-01T00:00:00."+strings.Repeat("0", 60000)+"1-00:00"))
	add("long-number", []byte(strings.Repeat("9", 60000)))
	add("long-number", []byte("0x"+strings.Repeat("f", 60000)))
	add("long-number", []byte("1."+strings.Repeat("3", 60000)+"d5"))
	add("long-number", []byte("1."+strings.Repeat("3", 30000)+"e5"))
	add("long-number", []byte(strings.Repeat("1_", 30000)+"1"))
	// --- nesting deep enough that one stack frame per level would exceed the runtime's stack limit
	// (a fatal error that cannot be recovered from): a few megabytes of input
	// (with a null in front of every level: a depth count that a null disturbs would let the nesting
	// through; 2.6 million levels are more than the default stack limit allows for any recursion)
	add("extreme-nesting", []byte(strings.Repeat("[null,", 2_600_000)))
	add("extreme-nesting", []byte(strings.Repeat("{a:null.int,b:", 2_600_000)+"1"))
	for _, ch := range []string{"[", "(", "{a:", "a::[", "[(", "{a:[b::(", "(null ", "[null.int,null,["} {
		n := 7_000_000 / len(ch)
		add("extreme-nesting", []byte(strings.Repeat(ch, n)))
		add("extreme-nesting", []byte(strings.Repeat(ch, n)+"1"))
	}
	add("extreme-nesting", []byte(strings.Repeat("[", 4_000_000)+strings.Repeat("]", 4_000_000)+" 1"))
	add("extreme-nesting", []byte("["+strings.Repeat("(", 3_000_000)+strings.Repeat(")", 3_000_000)+", 2] 3"))
	for _, code := range []byte{0xB, 0xC, 0xD} {
		// well-formed binary nesting: lengths computed from the inside out, headers emitted outside in
		const levels = 1_500_000
		totals := make([]uint64, levels)
		hdrs := make([][]byte, levels)
		inner := uint64(1) // the innermost value: 0x20
		for k := 0; k < levels; k++ {
			body := inner
			var h []byte
			if code == 0xD {
				body++ // one field id byte in front of the child
			}
			if body < 14 {
				h = []byte{code<<4 | byte(body)}
			} else {
				h = append([]byte{code<<4 | 0x0E}, vu(body)...)
			}
			if code == 0xD {
				h = append(h, 0x84)
			}
			hdrs[k] = h
			totals[k] = uint64(len(h)) + inner
			inner = totals[k]
		}
		doc := append([]byte{}, refbin.IVM...)
		for k := levels - 1; k >= 0; k-- {
			doc = append(doc, hdrs[k]...)
		}
		doc = append(doc, 0x20)
		add("extreme-nesting", doc)
	}
	// --- deep nesting ---
	for _, depth := range []int{1000, 65000} {
		for _, ch := range []string{"[", "(", "{a:", "a::[", "{{"} {
			add("deep-nesting", []byte(strings.Repeat(ch, depth)))
			add("deep-nesting", []byte(strings.Repeat(ch, depth/2)+"1"))
		}
		add("deep-nesting", []byte(strings.Repeat("[", depth)+strings.Repeat("]", depth)))
		add("deep-nesting", []byte(strings.Repeat("(", depth)+strings.Repeat(")", depth)))
		add("deep-nesting", []byte(strings.Repeat("a::", depth)+"1"))
		add("deep-nesting", []byte(strings.Repeat("/*", depth)))
		add("deep-nesting", []byte(strings.Repeat("'''a''' ", depth/4)))
	}
	for _, depth := range []int{500, 20000} {
		// binary nesting: each list wraps the next (lengths consistent)
		inner := []byte{0x20}
		for d := 0; d < depth; d++ {
			hdr := []byte{0xBE}
			hdr = append(hdr, vu(uint64(len(inner)))...)
			inner = append(hdr, inner...)
			if len(inner) > 60000 {
				break
			}
		}
		add("deep-nesting-binary", bin(inner))
		// unbounded nesting by headers only
		add("deep-nesting-binary", bin(bytes.Repeat([]byte{0xBE, 0x8F}, depth/10)))
		add("deep-nesting-binary", bin(bytes.Repeat([]byte{0xE4, 0x81, 0x84}, depth/10)))
		add("deep-nesting-binary", bin(bytes.Repeat([]byte{0xDE, 0x8F, 0x84}, depth/10)))
	}
	return out
}

func mutateBytes(r *rand.Rand, data []byte) []byte {
	d := append([]byte{}, data...)
	n := 1 + r.Intn(3)
	for i := 0; i < n; i++ {
		if len(d) == 0 {
			d = append(d, byte(r.Intn(256)))
			continue
		}
		p := r.Intn(len(d))
		switch r.Intn(7) {
		case 0:
			d[p] ^= 1 << uint(r.Intn(8))
		case 1:
			d[p] = byte(r.Intn(256))
		case 2:
			d = append(d[:p], append([]byte{byte(r.Intn(256))}, d[p:]...)...)
		case 3:
			d = append(d[:p], d[p+1:]...)
		case 4:
			q := r.Intn(len(d))
			if q < p {
				p, q = q, p
			}
			d = append(d[:p], d[q:]...)
		case 5:
			d = d[:p]
		default:
			interesting := []byte{0x00, 0x0E, 0x0F, 0x7F, 0x80, 0xFF, 0xE0, 0xEA, 0xD1, 0xBE, 0x8E, 0x6E, 0x5E, '"', '\'', '{', '}', '[', ']', '(', ')', ':', ',', '.', '\\', '/', '*', '$', '-', '+', '_', 'e', 'd', 'T', 'Z'}
			d[p] = interesting[r.Intn(len(interesting))]
		}
	}
	return d
}

func runC06(c *Ctx) {
	r := rand.New(rand.NewSource(c.Seed + 6))
	var inputs []hostileInput
	inputs = append(inputs, hostileDocs(r)...)
	c.Obs("grammar_aware_hostile_documents", int64(len(inputs)))
	// byte-level mutations of valid documents
	nmut := c.N(12000, 600000)
	for i := 0; i < nmut/8; i++ {
		cs := c.Seed*6_100_003 + int64(i)
		g := gen.New(cs)
		g.MaxDepth = 3
		g.MaxLen = 50
		vals := g.Stream()
		for _, binary := range []bool{false, true} {
			rk := ReadCase{CaseSeed: cs, Binary: binary, P: 0.2, Vals: vals}
			data, _, _, err := rk.render()
			if err != nil {
				continue
			}
			cls := "mutated-text"
			if binary {
				cls = "mutated-binary"
			}
			for m := 0; m < 4; m++ {
				inputs = append(inputs, hostileInput{mutateBytes(r, data), cls})
			}
		}
	}
	// exhaustive short inputs
	for a := 0; a < 256; a++ {
		inputs = append(inputs, hostileInput{append(append([]byte{}, refbin.IVM...), byte(a)), "short-binary"})
	}
	stride := c.N(5, 1)
	k := 0
	for a := 0; a < 256; a++ {
		for b := 0; b < 256; b++ {
			k++
			if k%stride == int(c.Seed)%stride {
				inputs = append(inputs, hostileInput{append(append([]byte{}, refbin.IVM...), byte(a), byte(b)), "short-binary"})
			}
		}
	}
	tags := []byte{0x00, 0x01, 0x0E, 0x0F, 0x10, 0x11, 0x1F, 0x20, 0x21, 0x2E, 0x31, 0x40, 0x44, 0x48, 0x50, 0x51, 0x5E, 0x60, 0x61, 0x6E, 0x70, 0x71, 0x7E, 0x80, 0x81, 0x8E,
		0x90, 0xA1, 0xB0, 0xB1, 0xBE, 0xC1, 0xD0, 0xD1, 0xD2, 0xDE, 0xE0, 0xE3, 0xE4, 0xEE, 0xEA, 0xF0, 0xFF, 0x7F, 0xC0, 0x84}
	for _, a := range tags {
		for _, b := range tags {
			for _, cc := range tags {
				k++
				if k%stride == int(c.Seed)%stride {
					inputs = append(inputs, hostileInput{append(append([]byte{}, refbin.IVM...), a, b, cc), "short-binary"})
				}
			}
		}
	}
	alpha := []byte("{}[]()\"':,.$_-+/*\\ \n0123eEdDTZxXbnutalsif")
	for _, a := range alpha {
		inputs = append(inputs, hostileInput{[]byte{a}, "short-text"})
		for _, b := range alpha {
			inputs = append(inputs, hostileInput{[]byte{a, b}, "short-text"})
			for _, cc := range alpha {
				k++
				if k%stride == int(c.Seed)%stride {
					inputs = append(inputs, hostileInput{[]byte{a, b, cc}, "short-text"})
				}
			}
		}
	}
	c.Exhaustive(fmt.Sprintf("short inputs: version marker + every 1-byte tail, every %d-th 2-byte tail and 3-byte tail over a %d-byte tag alphabet; every text of length 1-2 and every %d-th of length 3 over a %d-character alphabet (stride 1 on the thorough tier)", stride, len(tags), stride, len(alpha)))
	classCount := map[string]int{}
	for _, in := range inputs {
		classCount[in.class]++
	}
	c.Feat(classCount)
	// run in batches on parallel workers
	bs := 1500
	nb := (len(inputs) + bs - 1) / bs
	c.Parallel(nb, func(w, b int) {
		lo, hi := b*bs, (b+1)*bs
		if hi > len(inputs) {
			hi = len(inputs)
		}
		c06RunBatch(c, b, inputs[lo:hi])
	})
	c.Obs("inputs", int64(len(inputs)))
	c.Sample(map[string]interface{}{"classes": classCount, "api_runs_per_input": []string{"traversal", "traversal+catalog", "random-calls", "decoder", "unmarshal (3 targets)", "unmarshal (33 targets, short inputs)"}})
	c.Sample(map[string]interface{}{"example": "e00100ea8e" + hex.EncodeToString(vu(1<<48)), "class": "extreme-length"})
}

func init() {
	Register(&Monitor{ID: "C06", Run: func(c *Ctx) {
		c.Rule = "hostile inputs (grammar-aware: every slot of symbol-table/import structs filled with every typed null, wrong type, duplicate, extreme number; extreme lengths/ids/exponents/years; nesting of 1000, 65000 and 1.5 to 7 million levels in text and binary; runs of 9,000,000 NOP pads; annotation lengths that disagree with their wrapper, children that overrun their parent, ids in the reserved high range, chains of appended symbol tables, thousands of long-string segments; byte-level mutations of valid documents in both formats; exhaustive short inputs) run in rlimited child processes through 6 API programs (full traversal with/without catalog, random call sequences continuing after errors, Decoder.Decode loop, Unmarshal into 33 target types). Oracle: no recovered panic, no fatal runtime error, values returned <= input bytes, TotalAlloc of one API run <= 1 MiB + 1 KiB/input byte, CPU of all API programs on one input <= 10 s + 4 us per input byte (hang: the input in flight has had more than 30 s + 12 us per byte of CPU, decided on CPU seconds of the child, never on wall clock). Non-trivial: >= 3 API calls and > 4 input bytes; distinct by input bytes."
		c.Assume("inputs are at most ~9 MB (most are below 130 KiB); the allocation bound (1 MiB + 1 KiB per input byte for each API call) is orders of magnitude above ordinary cost")
		runC06(c)
	}, Replay: func(c *Ctx, v *Violation) string {
		var k HostileCase
		if err := json.Unmarshal(v.Case, &k); err != nil {
			return "cannot decode case: " + err.Error()
		}
		data, _ := hex.DecodeString(k.InputHex)
		res := runHostile(0, data)
		js, _ := json.Marshal(res)
		if len(res.Panics) > 0 || res.Alloc > uint64(1<<20+1024*len(data)) || res.Values > len(data)+1 {
			return "VIOLATED on replay: " + string(js)
		}
		return "HELD on replay: " + string(js)
	}})
}
