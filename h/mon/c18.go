package mon

import (
	"bytes"
	"fmt"
	"math/big"
	"math/rand"
	"os"
	"path/filepath"
	"reflect"
	"regexp"
	"runtime"
	"strings"
	"sync"
	"sync/atomic"

	"github.com/amzn/ion-go/ion"

	"verifh/ionx"
	"verifh/model"
)

// shared state of one C18 round (deliberately shared between all goroutines)
type sharedWorld struct {
	ssts    []ion.SharedSymbolTable
	cat     ion.Catalog
	lst     ion.SymbolTable
	freshT  reflect.Type  // a struct type nobody has marshalled before this round
	freshV  reflect.Value // a value of that type
	docs    [][]byte      // private-bytes documents that import the shared tables with various max_id
	yielder bool
	list3, list2 []ion.SharedSymbolTable
	// deepDepth: nesting of the value of op 14, chosen so that the goroutines of a round together are
	// more than 65536 levels deep
	deepDepth int
}

type yieldWriter struct {
	b bytes.Buffer
	y bool
}

func (w *yieldWriter) Write(p []byte) (int, error) {
	if w.y {
		runtime.Gosched()
	}
	return w.b.Write(p)
}

type yieldReader struct {
	r *bytes.Reader
	y bool
}

func (r *yieldReader) Read(p []byte) (int, error) {
	if r.y {
		runtime.Gosched()
		if len(p) > 7 {
			p = p[:7]
		}
	}
	return r.r.Read(p)
}

func newWorld(round int, r *rand.Rand) *sharedWorld {
	w := &sharedWorld{yielder: round%2 == 1}
	big := make([]string, 1200)
	for i := range big {
		big[i] = fmt.Sprintf("s%d", i)
	}
	w.ssts = []ion.SharedSymbolTable{
		ion.NewSharedSymbolTable("S", 1, []string{"alpha", "beta", "gamma", "delta", "eps"}),
		ion.NewSharedSymbolTable("S", 2, []string{"alpha", "beta", "gamma", "delta", "eps", "zeta", "eta"}),
		ion.NewSharedSymbolTable("T", 1, []string{"x", "y", "z", "alpha"}),
		ion.NewSharedSymbolTable("Big", 1, big),
	}
	// many versions of one table, registered oldest first; documents ask for a version that is not there
	all := append([]ion.SharedSymbolTable{}, w.ssts...)
	for v := 1; v <= 14; v++ {
		all = append(all, ion.NewSharedSymbolTable("V", v, []string{fmt.Sprintf("v%d_a", v), fmt.Sprintf("v%d_b", v), fmt.Sprintf("v%d_c", v)}))
	}
	w.cat = ion.NewCatalog(all...)
	for _, ver := range []int{99, 15, 100} {
		w.docs = append(w.docs, []byte(fmt.Sprintf("$ion_symbol_table::{imports:[{name:\"V\",version:%d,max_id:3},{name:\"S\",version:7,max_id:4}]} $10 $11 $12 [$13, $16]", ver)))
	}
	w.lst = ion.NewLocalSymbolTable(append([]ion.SharedSymbolTable{}, w.ssts[:3]...), []string{"l1", "l2", "F0", "F1", "F2", "a", "b"})
	// lists of tables that all goroutines pass to constructors; they have spare capacity, as a list
	// grown with append has, and nobody has used them before the goroutines start
	w.list3 = append(make([]ion.SharedSymbolTable, 0, 8), w.ssts[:3]...)
	w.list2 = append(make([]ion.SharedSymbolTable, 0, 5), w.ssts[:2]...)
	// a fresh struct type per round: first use happens concurrently
	var fs []reflect.StructField
	n := 20 + r.Intn(30)
	for i := 0; i < n; i++ {
		ft := []reflect.Type{reflect.TypeOf(0), reflect.TypeOf(""), reflect.TypeOf(false), reflect.TypeOf([]int(nil)), reflect.TypeOf(1.5)}[r.Intn(5)]
		fs = append(fs, reflect.StructField{Name: fmt.Sprintf("R%dF%d", round, i), Type: ft, Tag: reflect.StructTag(fmt.Sprintf(`ion:"r%d_f%d"`, round, i))})
	}
	w.freshT = reflect.StructOf(fs)
	w.freshV = reflect.New(w.freshT).Elem()
	fillValue(r, w.freshV, 2, false)
	// documents importing the same shared tables with different max_ids (Adjust on a shared object)
	for _, m := range []int{2, 3, 5, 7, 10, 900, 1500} {
		for _, name := range []string{"S", "Big"} {
			doc := fmt.Sprintf("$ion_symbol_table::{imports:[{name:%q,version:1,max_id:%d}],symbols:[\"loc%d\"]} $10 $11 $%d [$10,{$11:$%d}] $%d::1", name, m, m, 9+m, 9+m, 10+m)
			w.docs = append(w.docs, []byte(doc))
		}
	}
	return w
}

// opResult is the deterministic output of one operation.
type opResult string

// runOp executes operation `op` (0..nOps-1) for goroutine-private seed; every op touches shared state.
const nOps = 15

func runOp(w *sharedWorld, op int, seed int64) (res opResult) {
	defer func() {
		if rec := recover(); rec != nil {
			res = opResult("PANIC: " + ionx.PanicSite(rec))
		}
	}()
	r := rand.New(rand.NewSource(seed))
	switch op {
	case 0: // marshal/unmarshal over shared static types
		v := reflect.New(reflect.TypeOf(TagMix{})).Elem()
		fillValue(r, v, 2, false)
		bs, err := ion.MarshalText(v.Interface())
		back := reflect.New(v.Type())
		uerr := ion.Unmarshal(bs, back.Interface())
		return opResult(fmt.Sprintf("%s|%v|%v", bs, err, uerr))
	case 1: // the fresh type of this round
		bs, err := ion.MarshalBinary(w.freshV.Interface())
		back := reflect.New(w.freshT)
		uerr := ion.Unmarshal(bs, back.Interface())
		d := ""
		if uerr == nil {
			d = equalGo(w.freshV, back.Elem(), "v", false)
		}
		ts, terr := ion.MarshalText(w.freshV.Interface())
		return opResult(fmt.Sprintf("%x|%v|%v|%s|%s|%v", bs, err, uerr, d, ts, terr))
	case 2: // reader over private bytes, shared catalog (Adjust with varying max_id)
		doc := w.docs[r.Intn(len(w.docs))]
		obs := ionx.Observe(ion.NewReaderCat(&yieldReader{bytes.NewReader(doc), w.yielder}, w.cat))
		return opResult(model.FmtAll(obs.Vals) + "|" + obs.ErrString())
	case 3: // shared table methods
		s := w.ssts[r.Intn(len(w.ssts))]
		a := s.Adjust(uint64(r.Intn(12)))
		id, ok := a.FindByName("gamma")
		txt, ok2 := a.FindByID(uint64(1 + r.Intn(8)))
		return opResult(fmt.Sprintf("%d %v %s %v %d %d %s", id, ok, txt, ok2, a.MaxID(), len(a.Symbols()), s.String()[:20]))
	case 4: // binary writer created with the shared tables
		yw := &yieldWriter{y: w.yielder}
		bw := ion.NewBinaryWriter(yw, w.list3...)
		bw.Annotation(ion.NewSymbolTokenFromString("alpha"))
		bw.BeginStruct()
		bw.FieldName(ion.NewSymbolTokenFromString("x"))
		bw.WriteSymbol(ion.NewSymbolTokenFromString(fmt.Sprintf("local%d", r.Intn(3))))
		bw.FieldName(ion.NewSymbolTokenFromString("zeta"))
		bw.WriteInt(r.Int63())
		bw.EndStruct()
		err := bw.Finish()
		return opResult(fmt.Sprintf("%x|%v", yw.b.Bytes(), err))
	case 5: // writers sharing one immutable local symbol table
		yw := &yieldWriter{y: w.yielder}
		bw := ion.NewBinaryWriterLST(yw, w.lst)
		bw.WriteSymbol(ion.NewSymbolTokenFromString("l2"))
		bw.WriteSymbol(ion.NewSymbolTokenFromString("beta"))
		e1 := bw.WriteSymbolFromString("not_in_table")
		e2 := bw.Finish()
		return opResult(fmt.Sprintf("%x|%v|%v", yw.b.Bytes(), e1 != nil, e2 != nil))
	case 6: // system table and token constructors
		t1, e1 := ion.NewSymbolToken(ion.V1SystemSymbolTable, "symbols")
		t2, e2 := ion.NewSymbolTokenBySID(w.lst, int64(10+r.Intn(12)))
		t3, _ := ion.NewSymbolTokens(w.lst, []string{"alpha", "x", "l1", "nope"})
		id, _ := ion.V1SystemSymbolTable.FindByName("max_id")
		return opResult(fmt.Sprintf("%v %v %v %v %v %d %d", t1.String(), e1, t2.String(), e2, len(t3), id, w.lst.MaxID()))
	case 7: // encoder / decoder streams
		var buf bytes.Buffer
		enc := ion.NewBinaryEncoder(&buf, w.ssts[0])
		for i := 0; i < 3; i++ {
			enc.Encode(CaseFields{Count: i, Total: r.Intn(100), Name: "alpha", NAME: []string{"beta"}})
		}
		enc.Finish()
		dec := ion.NewDecoder(ion.NewReaderCat(bytes.NewReader(buf.Bytes()), w.cat))
		out := ""
		for {
			var cf CaseFields
			if err := dec.DecodeTo(&cf); err != nil {
				out += err.Error()
				break
			}
			out += fmt.Sprintf("%+v;", cf)
		}
		return opResult(out)
	case 8: // text writer with shared tables + pretty
		var buf bytes.Buffer
		tw := ion.NewTextWriterOpts(&buf, ion.TextWriterPretty, w.list2...)
		tw.BeginList()
		tw.WriteSymbol(ion.NewSymbolTokenFromString("gamma"))
		tw.WriteTimestamp(ionx.ToTS(genTS(r), 0))
		tw.WriteDecimal(ionx.ToDec(genDec(r)))
		tw.WriteBigInt(new(big.Int).Lsh(big.NewInt(int64(r.Intn(99))), 70))
		tw.EndList()
		err := tw.Finish()
		return opResult(buf.String() + fmt.Sprint(err))
	case 9: // deep embedding type (field discovery)
		v := DeepOuter{}
		v.X, v.Y, v.Z, v.M, v.I, v.O = r.Intn(100), "y", true, 3, 4, 1.5
		bs, err := ion.MarshalText(v)
		var back DeepOuter
		uerr := ion.UnmarshalString(string(bs), &back)
		return opResult(fmt.Sprintf("%s|%v|%v|%+v", bs, err, uerr, back))
	case 10: // catalog lookups and WriteTo of a shared table
		s := w.cat.FindLatest("S")
		if lv := w.cat.FindLatest("V"); lv == nil || lv.Version() != 14 {
			return opResult(fmt.Sprintf("FindLatest(V) = %v", lv))
		}
		e := w.cat.FindExact("T", 1)
		var buf bytes.Buffer
		tw := ion.NewTextWriter(&buf)
		err := e.WriteTo(tw)
		tw.Finish()
		return opResult(fmt.Sprintf("%d %s %v", s.Version(), buf.String(), err))
	case 12: // binary timestamps with a different known offset per call (zone construction), read back
		var buf bytes.Buffer
		bw := ion.NewBinaryWriter(&buf)
		var want []string
		for i := 0; i < 6; i++ {
			t := genTS(r)
			t.Prec, t.OffKnown, t.OffMin = model.PSecond, true, int(seed%1400)-700+i
			if t.OffMin == 0 {
				t.OffMin = 61
			}
			t = t.Normalize()
			if !t.Valid() {
				continue
			}
			bw.WriteTimestamp(ionx.ToTS(t, 0))
			want = append(want, t.String())
		}
		err := bw.Finish()
		obs := ionx.Observe(ion.NewReader(&yieldReader{bytes.NewReader(buf.Bytes()), w.yielder}))
		return opResult(fmt.Sprintf("%v|%v|%s|%s", want, err, model.FmtAll(obs.Vals), obs.ErrString()))
	case 13: // calls that fail (malformed input, type mismatch) followed by calls that succeed
		out := ""
		for i := 0; i < 3; i++ {
			var x struct{ A int }
			e1 := ion.UnmarshalString("{A:1", &x)
			e2 := ion.UnmarshalString("\"not an int\"", &x.A)
			e3 := ion.Unmarshal([]byte{0xE0, 0x01, 0x00, 0xEA, 0x30}, &x.A)
			out += fmt.Sprint(e1 != nil, e2 != nil, e3 != nil)
		}
		for i := 0; i < 3; i++ {
			var cf CaseFields
			doc := fmt.Sprintf("{n:%d,N:%d,name:\"%s\",NAME:[\"a\",\"%d\"],Label:\"%s\"}", r.Intn(1000), i, strings.Repeat("x", 1+r.Intn(40)), seed, strings.Repeat("y", r.Intn(300)))
			err := ion.UnmarshalString(doc, &cf)
			var m map[string]interface{}
			err2 := ion.Unmarshal([]byte(doc), &m)
			out += fmt.Sprintf("|%d %d %d %v %d %v %d %v", cf.Count, cf.Total, len(cf.Name), cf.NAME, len(cf.Label), err, len(m), err2)
		}
		return opResult(out)
	case 14: // deeply nested (but finite) values marshalled at the same time
		depth := w.deepDepth + r.Intn(50)
		var v interface{} = []interface{}{seed}
		for i := 0; i < depth; i++ {
			v = []interface{}{v}
		}
		bs, err := ion.MarshalText(v)
		bb, err2 := ion.MarshalBinary(struct {
			Deep interface{} `ion:"deep"`
			N    int         `ion:"n"`
		}{v, depth})
		return opResult(fmt.Sprintf("%d %d %v %d %v %x", depth, len(bs), err, len(bb), err2, Hash(string(bs)+string(bb))))
	default: // timestamps / decimals (package-level tables in textutils, consts)
		ts := ionx.ToTS(genTS(r), r.Intn(6))
		s := ts.String()
		back, err := ion.ParseTimestamp(s)
		d := ionx.ToDec(genDec(r))
		pd, derr := ion.ParseDecimal(d.String())
		return opResult(fmt.Sprintf("%s %v %v %v %v", s, back.Equal(ts), err, pd.Equal(d), derr))
	}
}

var raceBlockRe = regexp.MustCompile(`(?s)WARNING: DATA RACE.*?==================`)

// collectRaces parses the race detector's log files; returns deduplicated ion-go races.
func collectRaces(prefix string) (total int, ionRaces map[string]string) {
	ionRaces = map[string]string{}
	files, _ := filepath.Glob(prefix + "*")
	for _, f := range files {
		data, err := os.ReadFile(f)
		if err != nil {
			continue
		}
		for _, blk := range raceBlockRe.FindAllString(string(data), -1) {
			total++
			if !strings.Contains(blk, "github.com/amzn/ion-go/") {
				continue
			}
			// key: the first ion-go function of each stack
			var fns []string
			for _, part := range strings.Split(blk, "\n\n") {
				for _, l := range strings.Split(part, "\n") {
					l = strings.TrimSpace(l)
					if strings.HasPrefix(l, "github.com/amzn/ion-go/") {
						if i := strings.LastIndex(l, "("); i > 0 {
							l = l[:i]
						}
						fns = append(fns, strings.TrimPrefix(l, "github.com/amzn/ion-go/"))
						break
					}
				}
			}
			key := strings.Join(fns, " <-> ")
			if _, ok := ionRaces[key]; !ok {
				if len(blk) > 2500 {
					blk = blk[:2500]
				}
				ionRaces[key] = blk
			}
		}
	}
	return
}

func runC18(c *Ctx) {
	logPrefix := os.Getenv("VERIF_RACE_LOG")
	if !RaceBuilt {
		c.Inconclusive("the checking binary was not built with -race: only output equality is decided")
	}
	runC18Order(c)
	rounds := c.N(6, 40)
	var clock int64
	overlaps, ops := int64(0), int64(0)
	orderings := map[string]bool{}
	for round := 0; round < rounds; round++ {
		procs := []int{1, 2, 4, 16}[round%4]
		ngo := []int{2, 4, 16, 64}[(round/4)%4]
		if !c.Thorough() {
			ngo = []int{16, 4, 64, 2, 16, 8}[round%6]
		}
		old := runtime.GOMAXPROCS(procs)
		r := rand.New(rand.NewSource(c.Seed*18_000_041 + int64(round)))
		w := newWorld(round, r)
		perG := c.N(120, 200)
		// plan: (goroutine, step) -> (op, seed)
		type step struct {
			op   int
			seed int64
		}
		plan := make([][]step, ngo)
		for g := range plan {
			for s := 0; s < perG; s++ {
				plan[g] = append(plan[g], step{(g + s) % (nOps - 1), r.Int63()})
			}
			// every goroutine starts with the fresh type and with an Adjust-heavy read; in every other
			// round with the deep value, so that all goroutines are deep inside Marshal at the same time
			plan[g][0].op, plan[g][1].op = 1, 2
			if ngo >= 16 && round%4 != 1 {
				plan[g][0].op, plan[g][1].op, plan[g][2].op = 14, 1, 2
			}
			if round%4 == 1 || round%4 == 3 {
				// all goroutines make the first lookups in the round's fresh catalog at the same time
				plan[g][0].op = []int{10, 2, 10, 7}[g%4]
			}
		}
		w.deepDepth = 300
		if ngo >= 16 {
			w.deepDepth = 70000/ngo + 300
		}
		// concurrent run first (so that first uses really are concurrent), sequential reference after
		got := make([][]opResult, ngo)
		type span struct{ b, e int64 }
		spans := make([][]span, ngo)
		var wg sync.WaitGroup
		start := make(chan struct{})
		for g := 0; g < ngo; g++ {
			wg.Add(1)
			go func(g int) {
				defer wg.Done()
				<-start
				for _, st := range plan[g] {
					b := atomic.AddInt64(&clock, 1)
					res := runOp(w, st.op, st.seed)
					e := atomic.AddInt64(&clock, 1)
					got[g] = append(got[g], res)
					spans[g] = append(spans[g], span{b, e})
				}
			}(g)
		}
		close(start)
		wg.Wait()
		runtime.GOMAXPROCS(old)
		// the lists of tables the goroutines passed to constructors belong to the caller
		for li, lst := range [][]ion.SharedSymbolTable{w.list3, w.list2} {
			for j, s := range lst {
				if s != w.ssts[j] {
					nm := "nil"
					if s != nil {
						nm = fmt.Sprintf("%s/%d", s.Name(), s.Version())
					}
					c.Violate("shared-argument", "table-list-modified", fmt.Sprintf("round %d: element %d of the table list %d passed to writer constructors is now %s (was %s/%d)", round, j, li, nm, w.ssts[j].Name(), w.ssts[j].Version()),
						map[string]interface{}{"round": round, "list": li, "element": j}, nil)
				}
			}
		}
		// sequential reference on a fresh world built from the same seed
		r2 := rand.New(rand.NewSource(c.Seed*18_000_041 + int64(round)))
		w2 := newWorld(round, r2)
		w2.freshT, w2.freshV = w.freshT, w.freshV // the same type identity
		w2.deepDepth = w.deepDepth
		for g := 0; g < ngo; g++ {
			for s, st := range plan[g] {
				want := runOp(w2, st.op, st.seed)
				c.Eval(1)
				ops++
				if want != got[g][s] {
					c.Violate("output-equality", fmt.Sprintf("op%d:%s", st.op, Class(firstDiff(string(want), string(got[g][s])))), fmt.Sprintf("round %d goroutine %d step %d op %d (GOMAXPROCS=%d, %d goroutines): alone %q, concurrently %q", round, g, s, st.op, procs, ngo, trunc200(string(want)), trunc200(string(got[g][s]))),
						map[string]interface{}{"round": round, "goroutine": g, "step": s, "op": st.op, "seed": st.seed}, nil)
				}
				if strings.HasPrefix(string(got[g][s]), "PANIC") {
					c.Violate("output-equality", "panic:"+Class(string(got[g][s])), fmt.Sprintf("round %d op %d panicked under concurrency: %s", round, st.op, got[g][s]), map[string]interface{}{"round": round, "op": st.op}, nil)
				}
			}
		}
		// measured overlap: pairs of operations from different goroutines whose spans intersect
		for g := 0; g < ngo; g++ {
			for h := g + 1; h < ngo && h < g+4; h++ {
				i, j := 0, 0
				for i < len(spans[g]) && j < len(spans[h]) {
					a, b := spans[g][i], spans[h][j]
					if a.b < b.e && b.b < a.e {
						overlaps++
						if len(orderings) < 100000 {
							orderings[fmt.Sprintf("%d|%d|%v", plan[g][i].op, plan[h][j].op, a.b < b.b)] = true
						}
					}
					if a.e < b.e {
						i++
					} else {
						j++
					}
				}
			}
		}
		if overlaps > 0 && ngo >= 2 {
			c.NonTrivial(fmt.Sprintf("round%d|%d|%d", round, procs, ngo))
		}
	}
	c.Obs("operations", ops)
	c.Obs("overlapping_operation_pairs", overlaps)
	c.Obs("distinct_overlap_orderings", int64(len(orderings)))
	c.Obs("rounds", int64(rounds))
	if RaceBuilt && logPrefix != "" {
		total, races := collectRaces(logPrefix)
		c.Obs("race_reports_total", int64(total))
		c.Obs("race_reports_involving_ion_go", int64(len(races)))
		for key, blk := range races {
			c.Violate("data-race", key, "race detector report:\n"+blk, map[string]interface{}{"stacks": key, "report": blk}, nil)
		}
		if total > len(races) && len(races) == 0 {
			c.Inconclusive(fmt.Sprintf("%d race reports do not involve ion-go frames (harness races?)", total))
		}
	} else if RaceBuilt {
		c.Inconclusive("VERIF_RACE_LOG not set: race reports go to stderr and are not counted")
	}
	if overlaps == 0 {
		c.Inconclusive("no overlapping operations were observed")
	}
	c.Sample(map[string]interface{}{"operations": []string{"Marshal/Unmarshal shared struct types", "first use of a fresh struct type by all goroutines", "Reader over private bytes with a shared Catalog (imports with differing max_id -> Adjust on shared tables)", "SharedSymbolTable.Adjust/FindByName/FindByID/Symbols/String", "binary writer with shared tables", "binary writers sharing one local symbol table", "V1SystemSymbolTable and NewSymbolToken*", "Encoder/Decoder streams", "pretty text writer with shared tables", "deeply embedded struct type", "Catalog lookups and WriteTo", "Timestamp/Decimal formatting and parsing"}})
	c.Sample(map[string]interface{}{"schedules": "GOMAXPROCS in {1,2,4,16} x goroutines in {2,4,16,64}, start barrier, Gosched inside the io.Reader/io.Writer wrappers on odd rounds"})
}

func firstDiff(a, b string) string {
	n := len(a)
	if len(b) < n {
		n = len(b)
	}
	i := 0
	for i < n && a[i] == b[i] {
		i++
	}
	lo := i - 20
	if lo < 0 {
		lo = 0
	}
	ha, hb := i+40, i+40
	if ha > len(a) {
		ha = len(a)
	}
	if hb > len(b) {
		hb = len(b)
	}
	return fmt.Sprintf("…%s vs …%s", a[lo:ha], b[lo:hb])
}

func init() {
	Register(&Monitor{ID: "C18", Run: func(c *Ctx) {
		c.Rule = "rounds of N goroutines released by a barrier, each running an independent mix of 15 operation kinds over deliberately shared objects (struct types incl. a fresh type first used concurrently, SharedSymbolTables, a Catalog, one local symbol table, the system table) and over package-level state reached from private objects (binary timestamps with per-call offsets, Unmarshal calls that fail followed by calls that succeed, deeply nested values marshalled at the same time) under GOMAXPROCS 1/2/4/16, with yields inside the harness's io wrappers; binary built with -race. Before the rounds, first-use-order trials: two calls on a Go type nobody has used (annotation wrappers and structs made with reflect.StructOf, declared twin types with a pointer-receiver MarshalIon), made by two goroutines strictly one after the other, in both orders on twin types; each call has to give what it gives as the first call on its type. Oracles: zero race-detector reports with ion-go frames (counted from the log files), and every operation's output byte-equal to the same operation run alone. Non-trivial: a round with >= 2 goroutines and measured overlap on shared objects; distinct by round configuration."
		c.Assume("the race detector only sees races that the executed schedule makes adjacent: held on the rounds executed is what is claimed")
		runC18(c)
	}})
}
