package mon

import (
	"bytes"
	"encoding/hex"
	"encoding/json"
	"fmt"
	"math"
	"math/big"
	"math/rand"

	"github.com/amzn/ion-go/ion"

	"verifh/gen"
	"verifh/ionx"
	"verifh/model"
	"verifh/reftext"
)

// NavCase is a replayable navigation case: a document, its model, and a decision script.
type NavCase struct {
	Binary   bool           `json:"binary"`
	InputHex string         `json:"input_hex"`
	Shown    string         `json:"input_shown,omitempty"`
	Vals     []*model.Value `json:"vals"`
	Script   []int          `json:"script"`
	Trace    []string       `json:"trace,omitempty"`
}

// decider supplies navigation decisions: replayed from a script (then 0), or random.
type decider struct {
	script  []int
	arities []int
	taken   []int
	rnd     *rand.Rand
}

func (d *decider) choose(n int) int {
	c := 0
	if d.rnd != nil {
		c = d.rnd.Intn(n)
	} else if len(d.taken) < len(d.script) {
		c = d.script[len(d.taken)]
		if c >= n {
			c = n - 1
		}
	}
	d.arities = append(d.arities, n)
	d.taken = append(d.taken, c)
	return c
}

// next advances the script like an odometer; false when the space is exhausted.
func (d *decider) nextScript() ([]int, bool) {
	for i := len(d.taken) - 1; i >= 0; i-- {
		if d.taken[i]+1 < d.arities[i] {
			s := append([]int{}, d.taken[:i]...)
			return append(s, d.taken[i]+1), true
		}
	}
	return nil, false
}

type navigator struct {
	r     ion.Reader
	d     *decider
	trace []string
	fail  string
	steps int
	nontr bool // program contains a skip/early step-out over a non-empty container or a refused call
}

func (n *navigator) log(f string, a ...interface{}) {
	if len(n.trace) < 400 {
		n.trace = append(n.trace, fmt.Sprintf(f, a...))
	}
}

func (n *navigator) bad(f string, a ...interface{}) bool {
	if n.fail == "" {
		n.fail = fmt.Sprintf(f, a...)
	}
	return false
}

// noCurrent checks the observations when the reader is not positioned on a value.
func (n *navigator) noCurrent(where string) bool {
	if t := n.r.Type(); t != ion.NoType {
		return n.bad("%s: Type() = %v, expected no current value", where, t)
	}
	if n.r.IsNull() {
		return n.bad("%s: IsNull() true without a current value", where)
	}
	// FieldName/Annotations without a current value are not compared: a plain traversal never
	// looks at them there (the binary reader leaves the field id of a trailing NOP pad visible).
	if _, err := n.r.FieldName(); err != nil {
		return n.bad("%s: FieldName() error %v", where, err)
	}
	return true
}

func symEq(t *ion.SymbolToken, s model.Sym) bool {
	if t == nil {
		return false
	}
	if s.HasText {
		return t.Text != nil && *t.Text == s.Text
	}
	return t.Text == nil && t.LocalSID == s.SID
}

// head compares Type/IsNull/FieldName/Annotations with the model value.
func (n *navigator) head(v *model.Value, inStruct bool) bool {
	if t := n.r.Type(); t != ionx.KindTypes[v.Kind] {
		return n.bad("Type() = %v, model %v (%s)", t, v.Kind, model.Fmt(v))
	}
	if n.r.IsNull() != v.IsNull {
		return n.bad("IsNull() = %v, model %v (%s)", n.r.IsNull(), v.IsNull, model.Fmt(v))
	}
	fn, err := n.r.FieldName()
	if err != nil {
		return n.bad("FieldName() error %v", err)
	}
	if inStruct {
		if v.Field == nil || !symEq(fn, *v.Field) {
			return n.bad("FieldName() = %v, model %v", fn, v.Field)
		}
	} else if fn != nil {
		return n.bad("FieldName() = %v outside a struct", fn)
	}
	if n.r.IsInStruct() != inStruct {
		return n.bad("IsInStruct() = %v, model %v", n.r.IsInStruct(), inStruct)
	}
	as, err := n.r.Annotations()
	if err != nil {
		return n.bad("Annotations() error %v", err)
	}
	if len(as) != len(v.Ann) {
		return n.bad("Annotations() has %d entries, model %v", len(as), v.Ann)
	}
	for i := range as {
		if !symEq(&as[i], v.Ann[i]) {
			return n.bad("Annotations()[%d] = %v, model %v", i, as[i], v.Ann[i])
		}
	}
	return true
}

// readOwn reads the scalar with its own accessor and compares.
func (n *navigator) readOwn(v *model.Value) bool {
	got := &model.Value{Kind: v.Kind, IsNull: v.IsNull}
	if v.IsNull {
		// typed null: the own accessor returns nil, nil
		for _, acc := range accessors {
			for _, k := range acc.own {
				if k == v.Kind && v.Kind != model.Null {
					isNil, err := acc.call(n.r)
					if err != nil || !isNil {
						return n.bad("%s on null.%v returned nil=%v err=%v", acc.name, v.Kind, isNil, err)
					}
				}
			}
		}
		return true
	}
	switch v.Kind {
	case model.Bool:
		b, err := n.r.BoolValue()
		if err != nil || b == nil {
			return n.bad("BoolValue: %v %v", b, err)
		}
		got.B = *b
	case model.Int:
		// what one accessor answers must not depend on which accessors were called before it
		sz1, e1 := n.r.IntSize()
		bi, err := n.r.BigIntValue()
		if err != nil || bi == nil {
			return n.bad("BigIntValue: %v %v", bi, err)
		}
		got.I = new(big.Int).Set(bi)
		sz2, e2 := n.r.IntSize()
		n.r.Int64Value()
		n.r.IntValue()
		sz3, e3 := n.r.IntSize()
		if sz1 != sz2 || sz1 != sz3 || (e1 == nil) != (e2 == nil) || (e1 == nil) != (e3 == nil) {
			return n.bad("IntSize of %v: %v (err %v) at first, %v (err %v) after BigIntValue, %v (err %v) after Int64Value and IntValue", bi, sz1, e1, sz2, e2, sz3, e3)
		}
		if bi2, err := n.r.BigIntValue(); err != nil || bi2 == nil || bi2.Cmp(got.I) != 0 {
			return n.bad("BigIntValue called again: %v %v, first %v", bi2, err, got.I)
		}
	case model.Float:
		f, err := n.r.FloatValue()
		if err != nil || f == nil {
			return n.bad("FloatValue: %v %v", f, err)
		}
		got.F = math.Float64bits(*f)
	case model.Decimal:
		d, err := n.r.DecimalValue()
		if err != nil || d == nil {
			return n.bad("DecimalValue: %v %v", d, err)
		}
		got.D = ionx.DecOf(d)
	case model.Timestamp:
		ts, err := n.r.TimestampValue()
		if err != nil || ts == nil {
			return n.bad("TimestampValue: %v %v", ts, err)
		}
		got.T, _ = ionx.TSOf(*ts)
	case model.Symbol:
		st, err := n.r.SymbolValue()
		if err != nil || st == nil {
			return n.bad("SymbolValue: %v %v", st, err)
		}
		if st.Text != nil {
			got.Sy = model.T(*st.Text)
		} else {
			got.Sy = model.SID(st.LocalSID)
		}
	case model.String:
		s, err := n.r.StringValue()
		if err != nil || s == nil {
			return n.bad("StringValue: %v %v", s, err)
		}
		got.S = *s
	case model.Clob, model.Blob:
		bs, err := n.r.ByteValue()
		if err != nil || bs == nil {
			return n.bad("ByteValue: %v %v", bs, err)
		}
		got.Bytes = bs
	default:
		return true
	}
	want := *v
	want.Ann, want.Field, want.Kids = nil, nil, nil
	if d := model.Diff([]*model.Value{&want}, []*model.Value{got}); d != "" {
		return n.bad("value differs: %s", d)
	}
	return true
}

// wrong calls an accessor of another type; it must be refused.
func (n *navigator) wrong(v *model.Value) bool {
	acc := accessors[n.d.choose(len(accessors))]
	for _, k := range acc.own {
		if k == v.Kind {
			return true
		}
	}
	n.log("wrong accessor %s on %v", acc.name, v.Kind)
	n.nontr = true
	if _, err := acc.call(n.r); err == nil {
		return n.bad("%s on a %v returned no error", acc.name, v.Kind)
	}
	return true
}

const (
	actSkip = iota
	actRead
	actWrongThenRead
	actRefusedStepIn
	actLeave
	nActs
)

// walk drives one sequence; returns false on failure. leave=true means the caller must StepOut now.
func (n *navigator) walk(seq []*model.Value, inStruct bool, depth int) (ok bool) {
	i := 0
	for {
		n.steps++
		has := n.r.Next()
		if has != (i < len(seq)) {
			return n.bad("Next() = %v at child %d of %d (depth %d), Err()=%v", has, i, len(seq), depth, n.r.Err())
		}
		if !has {
			if err := n.r.Err(); err != nil {
				return n.bad("Err() = %v at the end of a sequence", err)
			}
			if !n.noCurrent("after the end of a sequence") {
				return false
			}
			if n.d.choose(2) == 1 {
				n.log("Next again after end")
				if n.r.Next() {
					return n.bad("Next() returned true after the end of the sequence")
				}
			}
			if depth == 0 && n.d.choose(3) == 1 {
				n.log("StepOut at top level")
				n.nontr = true
				if err := n.r.StepOut(); err == nil {
					return n.bad("StepOut at top level returned no error")
				}
				if n.r.Next() {
					return n.bad("Next() true after refused top-level StepOut at end")
				}
			}
			return true
		}
		v := seq[i]
		i++
		if !n.head(v, inStruct) {
			return false
		}
		act := n.d.choose(nActs)
		container := v.Kind.IsContainer() && !v.IsNull
		if depth == 0 && act == actLeave {
			// there is nothing to leave at top level: StepOut must be refused and change nothing,
			// whatever the current value is (scalar, null, container not yet entered)
			n.log("StepOut at top level on %v (must be refused)", v.Kind)
			n.nontr = true
			if err := n.r.StepOut(); err == nil {
				return n.bad("StepOut at top level on a %s returned no error", model.Fmt(v))
			}
			if !n.head(v, inStruct) {
				return false
			}
			act = []int{actRead, actSkip}[n.d.choose(2)]
		}
		switch act {
		case actSkip:
			n.log("skip %v", v.Kind)
			if container && len(v.Kids) > 0 {
				n.nontr = true
			}
		case actRead, actWrongThenRead:
			if act == actWrongThenRead {
				if !n.wrong(v) {
					return false
				}
				if !n.head(v, inStruct) {
					return false
				}
			}
			if container {
				n.log("StepIn %v", v.Kind)
				if err := n.r.StepIn(); err != nil {
					return n.bad("StepIn on a %v failed: %v", v.Kind, err)
				}
				if !n.noCurrent("right after StepIn") {
					return false
				}
				if !n.walk(v.Kids, v.Kind == model.Struct, depth+1) {
					return false
				}
				n.log("StepOut")
				if err := n.r.StepOut(); err != nil {
					return n.bad("StepOut failed: %v", err)
				}
				if !n.noCurrent("right after StepOut") {
					return false
				}
			} else {
				n.log("read %v", v.Kind)
				if !n.readOwn(v) {
					return false
				}
				if n.d.choose(4) == 1 && !n.readOwn(v) { // reading twice gives the same
					return false
				}
			}
		case actRefusedStepIn:
			if container {
				n.log("skip %v", v.Kind)
				if len(v.Kids) > 0 {
					n.nontr = true
				}
				break
			}
			n.log("StepIn on %v (must be refused)", v.Kind)
			n.nontr = true
			if err := n.r.StepIn(); err == nil {
				return n.bad("StepIn on a %s returned no error", model.Fmt(v))
			}
			if !n.head(v, inStruct) || !n.readOwn(v) {
				return false
			}
		case actLeave:
			n.log("leave container after %d of %d children", i, len(seq))
			if i < len(seq) {
				n.nontr = true
			}
			return true
		}
	}
}

// runNav executes the case; returns the failure description or "".
func runNav(k *NavCase, rnd *rand.Rand) (verdict string, d *decider, nontrivial bool, steps int) {
	d = &decider{script: k.Script, rnd: rnd}
	data, _ := hex.DecodeString(k.InputHex)
	nav := &navigator{r: ion.NewReader(bytes.NewReader(data)), d: d}
	defer func() {
		if rec := recover(); rec != nil {
			verdict = "panic: " + ionx.PanicSite(rec)
		}
		k.Trace = nav.trace
	}()
	if !nav.noCurrent("before the first Next") {
		return nav.fail, d, nav.nontr, nav.steps
	}
	nav.walk(k.Vals, false, 0)
	return nav.fail, d, nav.nontr, nav.steps
}

func runC08(c *Ctx) {
	ndocs := c.N(1500, 60000)
	c.Parallel(ndocs, func(w, i int) {
		cs := c.Seed*8_000_009 + int64(i)
		g := gen.New(cs)
		g.MaxDepth = 4
		if i%10 == 0 {
			g.MaxDepth = 8
		}
		vals := g.Stream()
		binary := i%2 == 1
		if dd := navDirectedDocs(); i/2 < len(dd) {
			vals = dd[i/2]
		}
		rk := ReadCase{CaseSeed: cs, Binary: binary, P: []float64{0.1, 0.3, 0.5}[i%3], Vals: vals}
		if j := i/2 - len(navDirectedDocs()); j >= 0 && j < len(navLiteralDocs) && !binary {
			// spellings the printer does not produce on purpose, verbatim
			if lv, err := reftext.Parse(navLiteralDocs[j], nil); err == nil {
				rk.Literal, rk.Vals, vals = navLiteralDocs[j], lv, lv
			}
		}
		data, unordered, feats, err := rk.render()
		if err != nil {
			return
		}
		if unordered || rk.selfCheck(data, false) != "" {
			// sorted-field structs change child order: not usable with an ordered cursor
			c.Obs("documents_dropped", 1)
			return
		}
		c.Feat(feats)
		k := NavCase{Binary: binary, InputHex: hex.EncodeToString(data), Vals: vals}
		report := func(k NavCase, verdict string) {
			k.Shown = showInput(binary, data)
			tail := k.Trace
			if len(tail) > 12 {
				tail = tail[len(tail)-12:]
			}
			fam := "text"
			if binary {
				fam = "binary"
			}
			c.Violate("navigation", fam+":"+Class(verdict), fmt.Sprintf("input=%s script=%v last steps=%v :: %s", k.Shown, k.Script, tail, verdict), k, featList(feats))
		}
		c.JournalCase(w, fmt.Sprintf("nav case_seed=%d", cs))
		total := model.Count(vals)
		if total <= 8 {
			// exhaustive over all decision scripts (capped)
			script := []int{}
			for n := 0; n < 3000; n++ {
				kk := k
				kk.Script = script
				verdict, d, nt, steps := runNav(&kk, nil)
				c.Eval(1)
				c.Obs("navigation_steps", int64(steps))
				if nt {
					c.NonTrivial(fmt.Sprintf("%s|%v", k.InputHex, d.taken))
				}
				if verdict != "" {
					kk.Script = d.taken
					report(kk, verdict)
					break
				}
				var more bool
				script, more = d.nextScript()
				if !more {
					c.Obs("documents_enumerated_exhaustively", 1)
					break
				}
			}
		} else {
			// first the program that reads everything (every container entered in order), then random ones
			ones := make([]int, 6*total+200)
			for x := range ones {
				ones[x] = actRead
			}
			kf := k
			kf.Script = ones
			if verdict, d, _, steps := runNav(&kf, nil); verdict != "" {
				c.Eval(1)
				c.Obs("navigation_steps", int64(steps))
				kf.Script = d.taken
				report(kf, verdict)
			}
			for n := 0; n < 50; n++ {
				kk := k
				rnd := rand.New(rand.NewSource(cs*131 + int64(n)))
				verdict, d, nt, steps := runNav(&kk, rnd)
				c.Eval(1)
				c.Obs("navigation_steps", int64(steps))
				if nt {
					c.NonTrivial(fmt.Sprintf("%s|%v", k.InputHex, d.taken))
				}
				if verdict != "" {
					kk.Script = d.taken
					report(kk, verdict)
					break
				}
			}
		}
		if i < 3 {
			c.Sample(map[string]interface{}{"document": showInput(binary, data), "values": model.FmtAll(vals), "programs": "all decision scripts over {skip, read, wrong accessor then read, refused StepIn, leave container early, Next after end, StepOut at top level}"})
		}
	})
	c.Exhaustive("for every generated document with <= 8 values: every navigation program over the decision alphabet (capped at 3000 programs per document)")
}

func init() {
	Register(&Monitor{ID: "C08", Run: func(c *Ctx) {
		c.Rule = "documents from both reference producers (all spellings/encodings, so skipped regions hold comments, long strings, lobs with delimiters, NOP pads) navigated by scripted programs over {skip, read with own accessor (twice), wrong accessor, StepIn (legal and refused), StepOut after k children, StepOut at top level (after the end, and on a current value of any kind, then read or skipped), Next after end}; every observation (Next result, Type, IsNull, FieldName, Annotations, value, refusals) compared with a reference cursor over the model tree; on integers IntSize is asked before and after BigIntValue, Int64Value and IntValue and has to stay what it was (directed documents hold every integer within 1 of ±2^{7,8,15,16,31,32,63,64}). Non-trivial: the program skips or leaves early a container with children, or contains a refused call; distinct by (document, decision script)."
		c.Assume("reference cursor implements the contract in reader.go's doc comment: after StepIn/StepOut/end there is no current value; refused calls change nothing")
		runC08(c)
	}, Replay: func(c *Ctx, v *Violation) string {
		var k NavCase
		if err := json.Unmarshal(v.Case, &k); err != nil {
			return "cannot decode case: " + err.Error()
		}
		verdict, _, _, _ := runNav(&k, nil)
		if verdict != "" {
			return "VIOLATED on replay: " + verdict
		}
		return "HELD on replay"
	}})
}
