package mon

import (
	"fmt"
	"math/big"
	"strings"

	"verifh/gen"
	"verifh/model"
)

// LookalikeStreams are value streams that resemble system values without being any: a struct whose
// $ion_symbol_table annotation is not the first, symbol-table-shaped structs below top level, other
// types annotated $ion_symbol_table, $ion_1_0 where it is an ordinary symbol. Each stream also holds
// ordinary symbols, so a reader that wrongly installs a table resolves them differently.
func LookalikeStreams() [][]*model.Value {
	T := model.T
	f := func(name string, v *model.Value) *model.Value { return v.WithField(T(name)) }
	tbl := func() *model.Value {
		return model.StructV(f("symbols", model.ListV(model.StrV("zz"), model.StrV("yy"))))
	}
	foo := func() *model.Value { return model.SymV(T("foo")) }
	bar := func() *model.Value {
		return model.StructV(f("bar", model.SymV(T("foo")).WithAnn(T("baz"))))
	}
	all := [][]*model.Value{
		{foo(), tbl().WithAnn(T("a"), T("$ion_symbol_table")), foo(), bar()},
		{tbl().WithAnn(T("foo"), T("$ion_symbol_table"), T("$ion_symbol_table")), bar(), foo()},
		{foo(), model.ListV(tbl().WithAnn(T("$ion_symbol_table"))), bar()},
		{foo(), model.SexpV(tbl().WithAnn(T("$ion_symbol_table")), model.SymV(T("$ion_1_0"))), bar(), foo()},
		{bar(), model.StructV(f("x", tbl().WithAnn(T("$ion_symbol_table")))), foo()},
		{foo(), model.ListV(model.StrV("zz")).WithAnn(T("$ion_symbol_table")), bar()},
		{foo(), model.StrV("str").WithAnn(T("$ion_symbol_table")), model.SymV(T("zz")).WithAnn(T("$ion_symbol_table")), model.Int64V(1).WithAnn(T("$ion_symbol_table")), bar()},
		{foo(), model.StructV(f("name", model.StrV("n")), f("version", model.Int64V(1)), f("symbols", model.ListV(model.StrV("zz")))).WithAnn(T("$ion_shared_symbol_table")), bar()},
		{foo(), model.StructV(f("$ion_symbol_table", tbl())), bar()},
		{foo(), model.SymV(T("$ion_symbol_table")), model.SymV(T("$ion_1_0")).WithAnn(T("a")), model.ListV(model.SymV(T("$ion_1_0"))), bar(), foo()},
		{bar(), model.StructV(f("symbols", model.ListV(model.StrV("q"))), f("imports", model.ListV(model.StructV(f("name", model.StrV("sa")), f("version", model.Int64V(1)), f("max_id", model.Int64V(2)))))).WithAnn(T("foo"), T("$ion_symbol_table")), foo(), bar()},
		{foo(), model.NullV(model.Struct).WithAnn(T("a"), T("$ion_symbol_table")), model.NullV(model.List).WithAnn(T("$ion_symbol_table")), bar()},
		{foo(), model.StructV(f("imports", model.SymV(T("$ion_symbol_table"))), f("symbols", model.ListV(model.StrV("zz")))).WithAnn(T("x"), T("$ion_symbol_table")), foo(), bar()},
	}
	all = append(all,
		[]*model.Value{foo(), model.SymV(T("$ion_1_0_1")), bar(), model.SymV(T("$ion_2_0x")), model.SymV(T("$ion_1_0a")), foo(), model.SymV(T("$ion_1_1_beta")), model.SymV(T("$ion_1_0$")), bar()},
		[]*model.Value{bar(), model.SymV(T("$ion_1_0_draft")), foo(), model.SymV(T("$ion_symbol_table2")), model.StructV(f("symbols", model.ListV(model.StrV("zz")))).WithAnn(T("$ion_symbol_table2")), foo(), bar()},
	)
	all = append(all, deepSiblingStreams()...)
	all = append(all, longTailStreams()...)
	all = append(all, bigTextStreams()...)
	var out [][]*model.Value
	for _, s := range all {
		ok := true
		for _, v := range s {
			if !gen.TopLevelOK(v) {
				ok = false
			}
		}
		if ok {
			out = append(out, s)
		}
	}
	return out
}

// deepSiblingStreams nest containers 7..13, 16, 17, 33 and 65 levels deep with several sibling
// containers and scalars at every level (a chain alone never makes a reader re-use a level of its stack).
func deepSiblingStreams() [][]*model.Value {
	var out [][]*model.Value
	for _, d := range []int{7, 8, 9, 10, 11, 12, 13, 16, 17, 33, 65} {
		for shape := 0; shape < 3; shape++ {
			var build func(lvl int) *model.Value
			build = func(lvl int) *model.Value {
				mk := func(kids ...*model.Value) *model.Value {
					switch (lvl + shape) % 3 {
					case 0:
						return model.ListV(kids...)
					case 1:
						return model.SexpV(kids...)
					}
					st := model.StructV()
					for i, k := range kids {
						st.Kids = append(st.Kids, k.WithField(model.T([]string{"a", "b", "c", "d"}[i%4])))
					}
					return st
				}
				if lvl == d {
					return mk(model.ListV(model.Int64V(1)), model.ListV(model.Int64V(2), model.StrV("two")), model.StructV(model.ListV(model.Int64V(3)).WithField(model.T("x"))), model.Int64V(4))
				}
				return mk(build(lvl+1), model.Int64V(int64(lvl)), model.ListV(model.SymV(model.T("sib")), model.ListV()), model.StrV("after"))
			}
			out = append(out, []*model.Value{build(1), model.Int64V(int64(d))})
		}
	}
	return out
}

// longTailStreams start with small lobs, strings, big ints and timestamps and go on for two or
// three more buffers' worth of data: whatever a reader hands out for the early values must survive
// its reading on (a refill of its input buffer, re-used scratch space).
func longTailStreams() [][]*model.Value {
	var out [][]*model.Value
	big1, _ := new(big.Int).SetString("36893488147419103232", 10)
	big2, _ := new(big.Int).SetString("-340282366920938463463374607431768211457", 10)
	for _, n := range []int{150, 400} {
		head := []*model.Value{
			model.BlobV([]byte("0123456789abcdef")), model.ClobV([]byte("clob bytes here")), model.StrV("an early string"),
			model.IntV(big1), model.IntV(big2), model.SymV(model.T("early_symbol")),
			model.StructV(model.BlobV([]byte("key-0001")).WithField(model.T("key")), model.IntV(big1).WithField(model.T("n")), model.ListV(model.BlobV([]byte{1, 2, 3}), model.ClobV([]byte("xyz"))).WithField(model.T("l"))),
		}
		tail := model.ListV()
		for i := 0; i < n; i++ {
			tail.Kids = append(tail.Kids, model.StrV(fmt.Sprintf("filler string number %04d ........................", i)), model.Int64V(int64(i)*1000003))
		}
		s := append(append([]*model.Value{}, head...), tail, model.BlobV([]byte("late blob")), model.IntV(big2))
		out = append(out, s)
		// the same with the tail as top-level values (Decoder streams)
		s2 := append([]*model.Value{}, model.CloneAll(head)...)
		s2 = append(s2, model.CloneAll(tail.Kids)...)
		out = append(out, append(s2, model.ClobV([]byte("late clob"))))
	}
	return out
}

// bigTextStreams hold strings, symbols and clobs a little longer than 64 KiB and 128 KiB whose
// multi-byte characters straddle every multiple of 65536 bytes (readers that take large payloads
// in pieces must not look at the pieces as if each were a whole).
func bigTextStreams() [][]*model.Value {
	var out [][]*model.Value
	for _, unit := range []string{"€", "😀", "é", "a€", "ab😀"} {
		for _, total := range []int{65534, 65536, 65539, 131073} {
			s := strings.Repeat(unit, total/len(unit)+2)
			out = append(out, []*model.Value{model.Int64V(1), model.StrV(s), model.Int64V(42), model.ListV(model.StrV("a" + s)), model.SymV(model.T("end"))})
		}
	}
	return out
}
