package mon

import (
	"bytes"
	"encoding/hex"
	"encoding/json"
	"fmt"
	"math"
	"math/big"
	"math/rand"
	"reflect"
	"strconv"
	"strings"

	"github.com/amzn/ion-go/ion"

	"verifh/gen"
	"verifh/ionx"
	"verifh/model"
	"verifh/refbin"
	"verifh/refsym"
	"verifh/reftext"
)

// NumCase is a replayable C13 case.
type NumCase struct {
	Sub   string `json:"sub"`
	Input string `json:"input_hex"`
	Want  string `json:"want"`
	Note  string `json:"note,omitempty"`
}

// intViaReader positions a reader on the single int in data and checks all four accessors.
func checkIntDoc(data []byte, want *big.Int, cat ion.Catalog) (verdict string) {
	defer func() {
		if rec := recover(); rec != nil {
			verdict = "panic: " + ionx.PanicSite(rec)
		}
	}()
	r := ion.NewReaderCat(bytes.NewReader(data), cat)
	if !r.Next() {
		return fmt.Sprintf("no value (err %v)", r.Err())
	}
	if r.Type() != ion.IntType {
		return fmt.Sprintf("type %v", r.Type())
	}
	bi, err := r.BigIntValue()
	if err != nil || bi == nil || bi.Cmp(want) != 0 {
		return fmt.Sprintf("BigIntValue = %v, %v; want %v", bi, err, want)
	}
	if s := ionx.CheckIntAccessors(r, want); s != "" {
		return s
	}
	if r.Next() {
		return "more than one value"
	}
	if r.Err() != nil {
		return "trailing error: " + r.Err().Error()
	}
	return ""
}

func numViolate(c *Ctx, sub, what string, data []byte, want, verdict string) {
	c.Violate(sub, what+":"+Class(verdict), fmt.Sprintf("%s input=%s want=%s :: %s", what, showHex(data), want, verdict),
		NumCase{Sub: sub, Input: hex.EncodeToString(data), Want: want, Note: what}, nil)
}

func showHex(b []byte) string {
	s := hex.EncodeToString(b)
	if len(s) > 200 {
		s = s[:200] + "…"
	}
	return s
}

func intBoundarySet(r *rand.Rand, nrand int, all16 bool) []*big.Int {
	var out []*big.Int
	seen := map[string]bool{}
	add := func(v *big.Int) {
		k := v.String()
		if !seen[k] {
			seen[k] = true
			out = append(out, v)
		}
	}
	for k := 0; k <= 80; k++ {
		if k%7 != 0 && k%8 != 0 && k != 31 && k != 32 && k != 63 && k != 64 && k != 15 && k != 6 {
			continue
		}
		for d := int64(-2); d <= 2; d++ {
			v := new(big.Int).Lsh(big.NewInt(1), uint(k))
			v.Add(v, big.NewInt(d))
			add(v)
			add(new(big.Int).Neg(v))
		}
	}
	// magnitudes of 63/64/65, 128 and 512 bytes (writers switch from copying to referencing, readers
	// from one buffer to several)
	for _, k := range []uint{496, 503, 504, 505, 512, 1024, 4096} {
		for d := int64(-2); d <= 2; d++ {
			v := new(big.Int).Lsh(big.NewInt(1), k)
			v.Add(v, big.NewInt(d))
			add(v)
			add(new(big.Int).Neg(v))
		}
	}
	if all16 {
		for i := int64(-65536); i <= 65536; i++ {
			add(big.NewInt(i))
		}
	}
	for i := 0; i < nrand; i++ {
		v := new(big.Int).Rand(r, new(big.Int).Lsh(big.NewInt(1), uint(1+r.Intn(256))))
		if r.Intn(2) == 0 {
			v.Neg(v)
		}
		add(v)
	}
	return out
}

func c13Ints(c *Ctx) {
	r := rand.New(rand.NewSource(c.Seed + 13))
	ints := intBoundarySet(r, c.N(20000, 100000), true)
	c.Parallel(len(ints), func(w, i int) {
		n := ints[i]
		boundary := i < 400
		// (1) every applicable writer entry point, text and binary
		for via := 1; via <= 3; via++ {
			if via == 1 && !n.IsInt64() || via == 2 && !n.IsUint64() {
				continue
			}
			for _, mode := range []int{ModeText, ModeBinary} {
				if !boundary && (via+mode+i)%3 != 0 {
					continue
				}
				k := WriteCase{CaseSeed: 1, Mode: mode, IntVia: via, Vals: []*model.Value{model.IntV(n)}}
				out, werr, pm := writeOnce(k)
				c.Eval(1)
				if pm != "" || werr != nil {
					numViolate(c, "int-accessors", fmt.Sprintf("writer via=%d mode=%s failed", via, ModeNames[mode]), nil, n.String(), pm+fmt.Sprint(werr))
					continue
				}
				if v := checkIntDoc(out, n, nil); v != "" {
					numViolate(c, "int-accessors", fmt.Sprintf("written via=%d mode=%s", via, ModeNames[mode]), out, n.String(), v)
				}
			}
		}
		// (2) reference encodings: canonical and padded binary; decimal/hex/binary text
		mag := new(big.Int).Abs(n).Bytes()
		tag := byte(0x20)
		if n.Sign() < 0 {
			tag = 0x30
		}
		for pad := 0; pad <= 2; pad++ {
			if !boundary && pad != i%3 {
				continue
			}
			body := append(make([]byte, pad), mag...)
			doc := append([]byte{}, refbin.IVM...)
			if len(body) < 14 {
				doc = append(doc, tag|byte(len(body)))
			} else {
				doc = append(append(doc, tag|0x0E), refVarUInt(uint64(len(body)))...)
			}
			doc = append(doc, body...)
			c.Eval(1)
			if v := checkIntDoc(doc, n, nil); v != "" {
				numViolate(c, "int-accessors", fmt.Sprintf("reference binary pad=%d", pad), doc, n.String(), v)
			}
		}
		a := new(big.Int).Abs(n)
		sign := ""
		if n.Sign() < 0 {
			sign = "-"
		}
		texts := []string{n.String(), sign + "0x" + a.Text(16), sign + "0X" + strings.ToUpper(a.Text(16)), sign + "0b" + a.Text(2)}
		for ti, t := range texts {
			if !boundary && ti != i%4 {
				continue
			}
			c.Eval(1)
			if v := checkIntDoc([]byte(t), n, nil); v != "" {
				numViolate(c, "int-accessors", "reference text", []byte(t), n.String(), v)
			}
		}
		if boundary || i%16 == 0 {
			c.NonTrivial("int|" + n.String())
		}
	})
	c.Obs("integers_checked", int64(len(ints)))
	c.Exhaustive("ints: ±(2^k+{-2..2}) for every k multiple of 7 or 8 up to 80 plus 6/15/31/32/63/64, all values in [-65536,65536], random up to 2^256; each through WriteInt/WriteUint/WriteBigInt (text+binary), canonical and zero-padded reference binary, decimal/hex/binary reference text -> IntSize/IntValue/Int64Value/BigIntValue")
}

// accessor matrix
type accessor struct {
	name string
	own  []model.Kind
	call func(r ion.Reader) (isNil bool, err error)
}

var accessors = []accessor{
	{"BoolValue", []model.Kind{model.Bool}, func(r ion.Reader) (bool, error) { v, e := r.BoolValue(); return v == nil, e }},
	{"IntSize", []model.Kind{model.Int}, func(r ion.Reader) (bool, error) { v, e := r.IntSize(); return v == ion.NullInt, e }},
	{"IntValue", []model.Kind{model.Int}, func(r ion.Reader) (bool, error) { v, e := r.IntValue(); return v == nil, e }},
	{"Int64Value", []model.Kind{model.Int}, func(r ion.Reader) (bool, error) { v, e := r.Int64Value(); return v == nil, e }},
	{"BigIntValue", []model.Kind{model.Int}, func(r ion.Reader) (bool, error) { v, e := r.BigIntValue(); return v == nil, e }},
	{"FloatValue", []model.Kind{model.Float}, func(r ion.Reader) (bool, error) { v, e := r.FloatValue(); return v == nil, e }},
	{"DecimalValue", []model.Kind{model.Decimal}, func(r ion.Reader) (bool, error) { v, e := r.DecimalValue(); return v == nil, e }},
	{"TimestampValue", []model.Kind{model.Timestamp}, func(r ion.Reader) (bool, error) { v, e := r.TimestampValue(); return v == nil, e }},
	{"StringValue", []model.Kind{model.String}, func(r ion.Reader) (bool, error) { v, e := r.StringValue(); return v == nil, e }},
	{"SymbolValue", []model.Kind{model.Symbol}, func(r ion.Reader) (bool, error) { v, e := r.SymbolValue(); return v == nil, e }},
	{"ByteValue", []model.Kind{model.Clob, model.Blob}, func(r ion.Reader) (bool, error) { v, e := r.ByteValue(); return v == nil, e }},
}

func c13Matrix(c *Ctx) {
	g := gen.New(c.Seed + 131)
	type cell struct {
		kind   model.Kind
		null   bool
		binary bool
		ann    bool
	}
	var cells []cell
	for _, k := range gen.AllKinds {
		for _, null := range []bool{false, true} {
			for _, bin := range []bool{false, true} {
				for _, ann := range []bool{false, true} {
					cells = append(cells, cell{k, null, bin, ann})
				}
			}
		}
	}
	reps := c.N(3, 40)
	for _, ce := range cells {
		for rep := 0; rep < reps; rep++ {
			var v *model.Value
			if ce.null || ce.kind == model.Null {
				v = model.NullV(ce.kind)
			} else if ce.kind == model.Int {
				// widths are c13Ints' business; the matrix uses ints every accessor can hold
				v = model.Int64V(int64(g.R.Intn(2001) - 1000))
			} else {
				for {
					v = g.OfKind(ce.kind, 4)
					if !v.IsNull {
						break
					}
				}
			}
			if ce.ann {
				v = v.WithAnn(model.T("a"))
			}
			mode := ModeText
			if ce.binary {
				mode = ModeBinary
			}
			out, werr, pm := writeOnce(WriteCase{CaseSeed: 1, Mode: mode, Vals: []*model.Value{v}})
			if werr != nil || pm != "" {
				continue
			}
			for _, acc := range accessors {
				c.Eval(1)
				own := false
				for _, k := range acc.own {
					if k == ce.kind {
						own = true
					}
				}
				verdict := func() (verdict string) {
					defer func() {
						if rec := recover(); rec != nil {
							verdict = "panic: " + ionx.PanicSite(rec)
						}
					}()
					r := ion.NewReaderBytes(out)
					if !r.Next() {
						return fmt.Sprintf("no value: %v", r.Err())
					}
					isNil, err := acc.call(r)
					switch {
					case own && v.IsNull && ce.kind != model.Null:
						if err != nil || !isNil {
							return fmt.Sprintf("%s on null.%v returned nil=%v err=%v; documented: nil, nil", acc.name, ce.kind, isNil, err)
						}
					case own:
						if err != nil || isNil {
							return fmt.Sprintf("%s on a %v returned nil=%v err=%v", acc.name, ce.kind, isNil, err)
						}
					default:
						if err == nil {
							return fmt.Sprintf("%s on a %v (null=%v) returned no error", acc.name, ce.kind, v.IsNull)
						}
					}
					// the refused/answered call must not disturb the cursor
					obs := ionx.Observe(ion.NewReaderBytes(out))
					_ = obs
					return ""
				}()
				key := fmt.Sprintf("%s|%v|%v|%v|%v", acc.name, ce.kind, ce.null, ce.binary, ce.ann)
				if !own || ce.null {
					c.NonTrivial(key)
				}
				if verdict != "" {
					c.Violate("accessor-matrix", key+":"+Class(verdict), fmt.Sprintf("value=%s mode=%s :: %s", model.Fmt(v), ModeNames[mode], verdict),
						NumCase{Sub: "accessor-matrix", Input: hex.EncodeToString(out), Note: acc.name}, nil)
				}
			}
		}
	}
	// no current value: no panic demanded only
	for _, doc := range [][]byte{[]byte(""), []byte("1"), append(append([]byte{}, refbin.IVM...), 0x21, 0x01)} {
		for _, acc := range accessors {
			c.Eval(1)
			func() {
				defer func() {
					if rec := recover(); rec != nil {
						c.Violate("accessor-matrix", acc.name+":no-current-value-panic", "panic: "+ionx.PanicSite(rec), NumCase{Sub: "no-current", Input: hex.EncodeToString(doc), Note: acc.name}, nil)
					}
				}()
				r := ion.NewReaderBytes(doc)
				acc.call(r) // before the first Next
				for r.Next() {
				}
				acc.call(r) // after the end
			}()
		}
	}
	c.Exhaustive("accessor matrix: 13 types x {null, non-null} x {text, binary} x {plain, annotated} x 11 accessors")
}

func c13Floats(c *Ctx) {
	r := rand.New(rand.NewSource(c.Seed + 1313))
	var fs []uint64
	for _, f := range gen.FloatSpecials {
		fs = append(fs, math.Float64bits(f))
	}
	// float32 boundary classes and their float64 neighbours
	for _, b32 := range []uint32{0x7f7fffff, 0x00800000, 0x00000001, 0x007fffff, 0x3f800000, 0x4b800000, 0x7f800000, 0x00000002, 0x33800000} {
		f := float64(math.Float32frombits(b32))
		for _, sg := range []float64{1, -1} {
			x := f * sg
			fs = append(fs, math.Float64bits(x), math.Float64bits(math.Nextafter(x, math.Inf(1))), math.Float64bits(math.Nextafter(x, math.Inf(-1))))
		}
	}
	// values below the float32 subnormal range with clean low mantissa bits, halfway cases
	for e := -160; e <= -120; e++ {
		fs = append(fs, math.Float64bits(math.Ldexp(1, e)), math.Float64bits(math.Ldexp(1.5, e)), math.Float64bits(-math.Ldexp(1.25, e)))
	}
	for e := 120; e <= 130; e++ {
		fs = append(fs, math.Float64bits(math.Ldexp(1, e)), math.Float64bits(math.Ldexp(1.9999999, e)))
	}
	fs = append(fs, math.Float64bits(math.Ldexp(1, -1022)), math.Float64bits(math.Ldexp(1, -1074)), math.Float64bits(1<<24+1), math.Float64bits(1<<25+2))
	n := c.N(100000, 2000000)
	for i := 0; i < n; i++ {
		switch i % 4 {
		case 0:
			fs = append(fs, r.Uint64())
		case 1:
			fs = append(fs, math.Float64bits(float64(math.Float32frombits(r.Uint32()))))
		case 2:
			// float32-exact value with a few low mantissa bits set
			b := math.Float64bits(float64(math.Float32frombits(r.Uint32())))
			fs = append(fs, b|uint64(1)<<uint(r.Intn(29)))
		default:
			// clean low 29 bits but exponent outside float32's normal range
			b := r.Uint64() &^ (1<<29 - 1)
			fs = append(fs, b)
		}
	}
	c.Parallel(len(fs), func(w, i int) {
		bits := fs[i]
		f := math.Float64frombits(bits)
		c.Eval(1)
		var buf bytes.Buffer
		bw := ion.NewBinaryWriter(&buf)
		verdict := ""
		func() {
			defer func() {
				if rec := recover(); rec != nil {
					verdict = "panic: " + ionx.PanicSite(rec)
				}
			}()
			if err := bw.WriteFloat(f); err != nil {
				verdict = "WriteFloat: " + err.Error()
				return
			}
			if err := bw.Finish(); err != nil {
				verdict = "Finish: " + err.Error()
				return
			}
			out := buf.Bytes()
			if len(out) < 5 {
				verdict = "short output"
				return
			}
			// the encoding of the (only) value: a writer may surround it with NOP padding
			body := firstBinaryValue(out)
			if body == nil {
				verdict = "no value found in the output"
				return
			}
			lossless := float64(float32(f)) == f
			switch {
			case body[0] == 0x40 && len(body) == 1:
				if bits != 0 {
					verdict = "0x40 used for a value other than +0"
				}
			case body[0] == 0x44 && len(body) == 5:
				if !lossless && !math.IsNaN(f) {
					verdict = fmt.Sprintf("stored in 32 bits although float64(float32(v)) != v")
				}
			case body[0] == 0x48 && len(body) == 9:
			default:
				verdict = "unexpected float encoding"
			}
			if verdict != "" {
				return
			}
			obs := ionx.ReadAll(out)
			if obs.Failed() || len(obs.Vals) != 1 {
				verdict = "read back failed: " + obs.ErrString()
				return
			}
			if d := model.Diff([]*model.Value{model.FloatBitsV(bits)}, obs.Vals); d != "" {
				verdict = "read back " + d
			}
		}()
		if verdict != "" {
			numViolate(c, "float-width", "binary WriteFloat", buf.Bytes(), fmt.Sprintf("%016x (%v)", bits, f), verdict)
		}
		// reference binary32 encoding read back exactly
		if float64(float32(f)) == f && !math.IsNaN(f) {
			b32 := math.Float32bits(float32(f))
			doc := append(append([]byte{}, refbin.IVM...), 0x44, byte(b32>>24), byte(b32>>16), byte(b32>>8), byte(b32))
			obs := ionx.ReadAll(doc)
			c.Eval(1)
			if obs.Failed() || len(obs.Vals) != 1 || model.Diff([]*model.Value{model.FloatBitsV(bits)}, obs.Vals) != "" {
				numViolate(c, "float-width", "reference binary32", doc, fmt.Sprintf("%016x", bits), "read back: "+obs.ErrString()+" "+model.FmtAll(obs.Vals))
			}
		}
		if i < 400 || i%8 == 0 {
			c.NonTrivial(fmt.Sprintf("float|%016x", bits))
		}
	})
	c.Obs("floats_checked", int64(len(fs)))
	c13FloatLiterals(c)
	c13GoIntegerKinds(c)
	c13FloatIntoDecimal(c)
}

// c13GoIntegerKinds marshals the extreme values of every Go integer kind (also as named types and
// struct fields): the Ion int written has to be that number.
func c13GoIntegerKinds(c *Ctx) {
	type namedUint uint
	type namedInt64 int64
	type holder struct {
		U   uint      `ion:"u"`
		P   uintptr   `ion:"p"`
		N   namedUint `ion:"n"`
		I   int       `ion:"i"`
		U64 uint64    `ion:"u64"`
	}
	var vals []interface{}
	for _, x := range []uint64{0, 1, 127, 128, 255, 256, 1<<31 - 1, 1 << 31, 1<<32 - 1, 1 << 32, 1<<63 - 1, 1 << 63, 1<<63 + 1, 1<<64 - 2, 1<<64 - 1} {
		vals = append(vals, uint(x), uintptr(x), uint64(x), namedUint(x), holder{U: uint(x), P: uintptr(x), N: namedUint(x), I: int(int64(x)), U64: x})
		if x <= math.MaxUint32 {
			vals = append(vals, uint32(x))
		}
		if x <= math.MaxUint16 {
			vals = append(vals, uint16(x))
		}
		if x <= math.MaxUint8 {
			vals = append(vals, uint8(x))
		}
	}
	for _, x := range []int64{math.MinInt64, math.MinInt64 + 1, -(1 << 31) - 1, -(1 << 31), -129, -128, -1, 0, 127, 128, 1<<31 - 1, 1 << 31, math.MaxInt64 - 1, math.MaxInt64} {
		vals = append(vals, int(x), x, namedInt64(x))
		if x >= math.MinInt32 && x <= math.MaxInt32 {
			vals = append(vals, int32(x))
		}
		if x >= math.MinInt16 && x <= math.MaxInt16 {
			vals = append(vals, int16(x))
		}
		if x >= math.MinInt8 && x <= math.MaxInt8 {
			vals = append(vals, int8(x))
		}
	}
	// and back: every boundary integer into every Go integer kind is either stored exactly or refused
	lits := []string{"0", "1", "-1", "-3", "127", "128", "-128", "-129", "255", "256", "32767", "32768", "-32768", "-32769", "65535", "65536", "2147483647", "2147483648", "-2147483648", "-2147483649",
		"4294967295", "4294967296", "9223372036854775807", "9223372036854775808", "-9223372036854775808", "-9223372036854775809", "18446744073709551615", "18446744073709551616", "-18446744073709551615", "-18446744073709551616"}
	targets := []reflect.Type{reflect.TypeOf(int(0)), reflect.TypeOf(int8(0)), reflect.TypeOf(int16(0)), reflect.TypeOf(int32(0)), reflect.TypeOf(int64(0)), reflect.TypeOf(uint(0)), reflect.TypeOf(uint8(0)),
		reflect.TypeOf(uint16(0)), reflect.TypeOf(uint32(0)), reflect.TypeOf(uint64(0)), reflect.TypeOf(uintptr(0)), reflect.TypeOf(namedUint(0)), reflect.TypeOf(namedInt64(0))}
	for _, lit := range lits {
		n, _ := new(big.Int).SetString(lit, 10)
		for _, t := range targets {
			for _, bin := range []bool{false, true} {
				data := []byte(lit)
				if bin {
					enc, err := refbin.Encode([]*model.Value{model.IntV(n)}, nil)
					if err != nil {
						continue
					}
					data = enc.Bytes
				}
				c.Eval(1)
				c.NonTrivial(fmt.Sprintf("gokind-un|%s|%v|%v", lit, t, bin))
				for shape := 0; shape < 2; shape++ {
					target := reflect.New(t)
					doc := data
					if shape == 1 { // as a list element into a slice of the kind
						target = reflect.New(reflect.SliceOf(t))
						if bin {
							enc, err := refbin.Encode([]*model.Value{model.ListV(model.Int64V(1), model.IntV(n), model.Int64V(2))}, nil)
							if err != nil {
								continue
							}
							doc = enc.Bytes
						} else {
							doc = []byte("[1, " + lit + ", 2]")
						}
					}
					verdict := func() (verdict string) {
						defer func() {
							if rec := recover(); rec != nil {
								verdict = "panic: " + ionx.PanicSite(rec)
							}
						}()
						err := ion.Unmarshal(doc, target.Interface())
						fits := false
						bits := t.Bits()
						switch t.Kind() {
						case reflect.Int, reflect.Int8, reflect.Int16, reflect.Int32, reflect.Int64:
							fits = fitsInt(n, bits)
						default:
							fits = fitsUint(n, bits)
						}
						if err != nil {
							if fits {
								return "refused although the number fits: " + err.Error()
							}
							return ""
						}
						got := target.Elem()
						if shape == 1 {
							if got.Len() != 3 {
								return fmt.Sprintf("slice of %d elements", got.Len())
							}
							got = got.Index(1)
						}
						var g *big.Int
						switch t.Kind() {
						case reflect.Int, reflect.Int8, reflect.Int16, reflect.Int32, reflect.Int64:
							g = big.NewInt(got.Int())
						default:
							g = new(big.Int).SetUint64(got.Uint())
						}
						if !fits {
							return fmt.Sprintf("no error although the number does not fit; stored %v", g)
						}
						if g.Cmp(n) != 0 {
							return fmt.Sprintf("stored %v", g)
						}
						return ""
					}()
					if verdict != "" {
						numViolate(c, "go-integer-kinds", fmt.Sprintf("Unmarshal(%s) into %v (shape %d, binary %v)", lit, t, shape, bin), doc, lit, verdict)
					}
				}
			}
		}
	}
	// several integers beyond int64 in one list: each element decoded keeps its own number
	{
		var bigs []*model.Value
		for _, s := range []string{"36893488147419103232", "-18446744073709551617", "340282366920938463463374607431768211456", "9223372036854775808", "-9223372036854775809", "18446744073709551615", "7"} {
			n, _ := new(big.Int).SetString(s, 10)
			bigs = append(bigs, model.IntV(n))
		}
		doc := []*model.Value{model.ListV(bigs...)}
		for _, bin := range []bool{false, true} {
			var data []byte
			if bin {
				enc, err := refbin.Encode(doc, nil)
				if err != nil {
					continue
				}
				data = enc.Bytes
			} else {
				s, err := reftext.Print(doc, nil)
				if err != nil {
					continue
				}
				data = []byte(s)
			}
			c.Eval(1)
			c.NonTrivial(fmt.Sprintf("biglist|%v", bin))
			verdict := func() (verdict string) {
				defer func() {
					if rec := recover(); rec != nil {
						verdict = "panic: " + ionx.PanicSite(rec)
					}
				}()
				var ptrs []*big.Int
				if err := ion.Unmarshal(data, &ptrs); err != nil {
					return "Unmarshal into []*big.Int: " + err.Error()
				}
				var vals []big.Int
				if err := ion.Unmarshal(data, &vals); err != nil {
					return "Unmarshal into []big.Int: " + err.Error()
				}
				var anys []interface{}
				if err := ion.Unmarshal(data, &anys); err != nil {
					return "Unmarshal into []interface{}: " + err.Error()
				}
				if len(ptrs) != len(bigs) || len(vals) != len(bigs) || len(anys) != len(bigs) {
					return fmt.Sprintf("lengths %d %d %d", len(ptrs), len(vals), len(anys))
				}
				for i, b := range bigs {
					if ptrs[i] == nil || ptrs[i].Cmp(b.I) != 0 {
						return fmt.Sprintf("[]*big.Int element %d is %v, the list says %v", i, ptrs[i], b.I)
					}
					if vals[i].Cmp(b.I) != 0 {
						return fmt.Sprintf("[]big.Int element %d is %v, the list says %v", i, &vals[i], b.I)
					}
					img, ok := imageOf(reflect.ValueOf(&anys[i]).Elem(), "", true)
					if !ok || img.Kind != model.Int || img.I.Cmp(b.I) != 0 {
						return fmt.Sprintf("[]interface{} element %d is %v, the list says %v", i, anys[i], b.I)
					}
				}
				return ""
			}()
			if verdict != "" {
				numViolate(c, "big-int-list", fmt.Sprintf("list of big ints (binary %v)", bin), data, model.FmtAll(doc), verdict)
			}
		}
	}
	for i, v := range vals {
		rv := reflect.ValueOf(v)
		want, ok := imageOf(rv, "", true)
		if !ok {
			continue
		}
		for _, bin := range []bool{false, true} {
			c.Eval(1)
			c.NonTrivial(fmt.Sprintf("gokind|%d|%v", i, bin))
			var out []byte
			var err error
			var got []*model.Value
			if bin {
				if out, err = ion.MarshalBinary(v); err == nil {
					got, err = refbin.Decode(out, nil)
				}
			} else {
				if out, err = ion.MarshalText(v); err == nil {
					got, err = reftext.Parse(string(out), nil)
				}
			}
			verdict := ""
			if err != nil {
				verdict = "Marshal/decode failed: " + err.Error()
			} else if d := model.DiffOpt([]*model.Value{want}, got, model.EqOpts{UnorderedStructs: true}); d != "" {
				verdict = "the Ion written is not the number: " + d
			}
			if verdict != "" {
				numViolate(c, "go-integer-kinds", fmt.Sprintf("Marshal(%T)", v), out, fmt.Sprintf("%v", v), verdict)
			}
		}
	}
}

// c13FloatLiterals reads decimal float literals of 1..19 significant digits over the whole exponent
// range through the text reader: the value has to be the correctly rounded binary64 (oracle:
// strconv.ParseFloat, a correctly-rounding implementation that is not part of the code under test).
func c13FloatLiterals(c *Ctx) {
	n := c.N(60000, 3000000)
	c.Parallel(n, func(w, i int) {
		r := rand.New(rand.NewSource(c.Seed*13_000_027 + int64(i)))
		nd := 1 + r.Intn(19)
		if i%4 == 0 {
			nd = 5 + r.Intn(5) // short literals: fast paths for few digits
		}
		var ds strings.Builder
		ds.WriteByte(byte('1' + r.Intn(9)))
		for j := 1; j < nd; j++ {
			ds.WriteByte(byte('0' + r.Intn(10)))
		}
		digits := ds.String()
		var exp int
		switch i % 5 {
		case 0:
			exp = r.Intn(61) - 30
		case 1:
			exp = 15 + r.Intn(30) // where one exact power of ten stops being enough
		case 2:
			exp = -(300 + r.Intn(45)) // subnormals and underflow
		case 3:
			exp = 280 + r.Intn(29) - nd // towards overflow
		default:
			exp = r.Intn(701) - 350
		}
		point := r.Intn(nd + 1)
		lit := digits[:point]
		if point == 0 {
			lit = "0"
		}
		if point < nd {
			lit += "." + digits[point:]
		}
		sign := ""
		if r.Intn(3) == 0 {
			sign = "-"
		}
		e := exp
		lit = sign + lit + []string{"e", "E"}[r.Intn(2)] + []string{"", "+"}[r.Intn(2)*b2i(e >= 0)] + fmt.Sprint(e)
		want, err := strconv.ParseFloat(lit, 64)
		if err != nil || math.IsInf(want, 0) {
			return // out of range: not a finite binary64
		}
		c.Eval(1)
		if nd >= 5 {
			c.NonTrivial("flit|" + lit)
		}
		obs := ionx.ReadAll([]byte(lit + " "))
		verdict := ""
		switch {
		case obs.Failed() || len(obs.Vals) != 1 || obs.Vals[0].Kind != model.Float:
			verdict = "not read as one float: " + obs.ErrString() + " " + model.FmtAll(obs.Vals)
		case obs.Vals[0].F != math.Float64bits(want):
			verdict = fmt.Sprintf("read as %016x (%v), the correctly rounded value is %016x (%v)", obs.Vals[0].F, math.Float64frombits(obs.Vals[0].F), math.Float64bits(want), want)
		}
		if verdict != "" {
			numViolate(c, "float-literal", "text float literal", []byte(lit), lit, verdict)
		}
	})
}

func c13Magnitudes(c *Ctx) {
	// payload lengths at every VarUInt step
	lens := []int{0, 1, 13, 14, 127, 128, 16383, 16384}
	if c.Thorough() {
		lens = append(lens, 2097151, 2097152, 2097153)
	} else {
		lens = append(lens, 2097151, 2097152)
	}
	for _, L := range lens {
		for _, v := range []*model.Value{model.StrV(strings.Repeat("z", L)), model.BlobV(bytes.Repeat([]byte{7}, L)), model.ClobV(bytes.Repeat([]byte{'q'}, L))} {
			// reference encoding -> ion-go, ion-go encoding -> ion-go
			enc, err := refbin.Encode([]*model.Value{v}, nil)
			if err != nil {
				continue
			}
			c.Eval(2)
			obs := ionx.ReadAll(enc.Bytes)
			if obs.Failed() || model.Diff([]*model.Value{v}, obs.Vals) != "" {
				numViolate(c, "magnitudes", fmt.Sprintf("length %d %v reference-encoded", L, v.Kind), enc.Bytes[:min(len(enc.Bytes), 64)], fmt.Sprint(L), obs.ErrString()+" "+model.Diff([]*model.Value{v}, obs.Vals))
			}
			out, werr, pm := writeOnce(WriteCase{CaseSeed: 1, Mode: ModeBinary, Vals: []*model.Value{v}})
			if werr == nil && pm == "" {
				got, derr := refbin.Decode(out, nil)
				if derr != nil || model.Diff([]*model.Value{v}, got) != "" {
					numViolate(c, "magnitudes", fmt.Sprintf("length %d %v written", L, v.Kind), out[:min(len(out), 64)], fmt.Sprint(L), fmt.Sprint(derr))
				}
			}
			c.NonTrivial(fmt.Sprintf("len|%d|%v", L, v.Kind))
		}
	}
	// decimal exponents at every VarInt step up to ±(2^31-1)
	var exps []int64
	for k := 0; k <= 31; k++ {
		for d := int64(-1); d <= 1; d++ {
			e := int64(1)<<uint(k) + d
			if e <= math.MaxInt32 {
				exps = append(exps, e, -e)
			}
		}
	}
	exps = append(exps, math.MinInt32)
	for _, e := range exps {
		for _, co := range []int64{0, 1, -7, 123456789} {
			d := model.Dec{Coef: big.NewInt(co), Exp: int32(e)}
			v := model.DecV(d)
			enc, err := refbin.Encode([]*model.Value{v}, nil)
			if err != nil {
				continue
			}
			c.Eval(3)
			obs := ionx.ReadAll(enc.Bytes)
			if obs.Failed() || model.Diff([]*model.Value{v}, obs.Vals) != "" {
				numViolate(c, "magnitudes", "decimal exponent reference-encoded", enc.Bytes, d.String(), obs.ErrString()+" "+model.Diff([]*model.Value{v}, obs.Vals))
			}
			for _, mode := range []int{ModeBinary, ModeText} {
				out, werr, pm := writeOnce(WriteCase{CaseSeed: 1, Mode: mode, Vals: []*model.Value{v}})
				if werr != nil || pm != "" {
					numViolate(c, "magnitudes", "decimal exponent write "+ModeNames[mode], nil, d.String(), pm+fmt.Sprint(werr))
					continue
				}
				obs := ionx.ReadAll(out)
				if obs.Failed() || model.Diff([]*model.Value{v}, obs.Vals) != "" {
					numViolate(c, "magnitudes", "decimal exponent written "+ModeNames[mode], out, d.String(), obs.ErrString()+" "+model.Diff([]*model.Value{v}, obs.Vals))
				}
			}
			c.NonTrivial(fmt.Sprintf("exp|%d|%d", e, co))
		}
	}
	// symbol IDs at every UInt step up to 2^40 through a placeholder import
	for k := 4; k <= 40; k++ {
		for d := int64(-1); d <= 1; d++ {
			id := int64(1)<<uint(k) + d
			maxID := id + 5 - 9
			e := refbin.NewEncoder(nil, nil)
			e.AppendLST(refsym.LSTSpec{Imports: []refsym.Import{{Name: "big", Version: 1, MaxID: maxID}}, Symbols: []refsym.Slot{{Text: "loc", Known: true}}}, nil)
			e.AppendValue(model.SymV(model.SID(id)))
			e.AppendValue(model.StructV(model.Int64V(1).WithField(model.SID(id))))
			e.AppendValue(model.Int64V(2).WithAnn(model.SID(id), model.T("loc")))
			if e.Err != nil {
				continue
			}
			c.Eval(1)
			want := []*model.Value{model.SymV(model.SID(id)), model.StructV(model.Int64V(1).WithField(model.SID(id))), model.Int64V(2).WithAnn(model.SID(id), model.T("loc"))}
			obs := ionx.ReadAll(e.Out)
			if obs.Failed() || model.Diff(want, obs.Vals) != "" {
				numViolate(c, "magnitudes", "symbol id through placeholder import", e.Out, fmt.Sprint(id), obs.ErrString()+" "+model.Diff(want, obs.Vals))
			}
			c.NonTrivial(fmt.Sprintf("sid|%d", id))
		}
	}
	c.Exhaustive("magnitudes: string/clob/blob lengths at every VarUInt step to 2^21; decimal exponents ±(2^k+{-1,0,1}) for k<=31; symbol ids 2^k+{-1,0,1} for k<=40 via placeholder imports (symbol value, field name, annotation)")
}

func c13Hooks(c *Ctx) {
	if !HooksBuilt {
		c.Inconclusive("reader-codec sub-check: hooks did not build")
		return
	}
	var k Codecs
	n := int64(0)
	// every 1-, 2- and 3-byte VarUInt / VarInt encoding (including padded ones)
	for a := 0; a < 256; a++ {
		for b := -1; b < 256; b++ {
			for cc := -1; cc < 256; cc += 1 {
				if b == -1 && cc != -1 {
					continue
				}
				if cc != -1 && (a%17 != 0) { // thin the 3-byte space: every 17th first byte
					continue
				}
				bs := []byte{byte(a)}
				if b >= 0 {
					bs = append(bs, byte(b))
				}
				if cc >= 0 {
					bs = append(bs, byte(cc))
				}
				// only encodings that terminate exactly at the end
				term := -1
				for i, x := range bs {
					if x&0x80 != 0 {
						term = i
						break
					}
				}
				if term != len(bs)-1 {
					continue
				}
				n++
				want, _, _ := refbin.PVarUInt(bs)
				got, used, err := k.ReadVarUint(bs)
				if err != nil || used != uint64(len(bs)) || new(big.Int).SetUint64(got).Cmp(want) != 0 {
					numViolate(c, "reader-codecs", "readVarUintLen", bs, want.String(), fmt.Sprintf("got %d used %d err %v", got, used, err))
				}
				wantI, _, _, _ := refbin.PVarInt(bs)
				gotI, _, usedI, errI := k.ReadVarInt(bs)
				if errI != nil || usedI != uint64(len(bs)) || big.NewInt(gotI).Cmp(wantI) != 0 {
					numViolate(c, "reader-codecs", "readVarIntLen", bs, wantI.String(), fmt.Sprintf("got %d used %d err %v", gotI, usedI, errI))
				}
			}
		}
	}
	// 8/9/10-byte boundary encodings
	for _, v := range []uint64{1<<56 - 1, 1 << 56, 1<<63 - 1, 1 << 63, math.MaxUint64, 1<<62 + 12345} {
		bs := k.AppendVarUint(v)
		n++
		got, used, err := k.ReadVarUint(bs)
		if err != nil || got != v || used != uint64(len(bs)) {
			numViolate(c, "reader-codecs", "readVarUintLen wide", bs, fmt.Sprint(v), fmt.Sprintf("got %d used %d err %v", got, used, err))
		}
	}
	c.Eval(int(n))
	c.Obs("reader_codec_encodings", n)
	c.NonTrivial("reader-codecs-1-2-byte")
	c.NonTrivial("reader-codecs-3-byte")
	c.Exhaustive("reader codecs: every terminating 1- and 2-byte VarUInt/VarInt encoding, every 17th first byte of the 3-byte space, 8/9/10-byte boundary values")
}

func min(a, b int) int {
	if a < b {
		return a
	}
	return b
}

func init() {
	Register(&Monitor{ID: "C13", Run: func(c *Ctx) {
		c.Rule = "integers from an exhaustive boundary set written by every writer entry point and reference-encoded, read through all four int accessors; exhaustive accessor x type x nullness matrix in both formats; float64 bit patterns through the binary writer with the encoded width judged at byte level; lengths/exponents/symbol ids at every encoding-width step. Non-trivial: number within 2 of a width boundary or an off-diagonal matrix cell; distinct by value / cell."
		c.Assume("oracle arithmetic is math/big and math.Float32bits/Float64bits")
		c13Ints(c)
		c13Matrix(c)
		c13Floats(c)
		c13Magnitudes(c)
		c13Hooks(c)
		c.Sample(map[string]interface{}{"int": "-9223372036854775809 via WriteBigInt/binary, padded reference binary, 0x… text", "matrix_cell": "IntValue on null.int (binary, annotated)", "float": "2^-150 through binary WriteFloat"})
	}, Replay: func(c *Ctx, v *Violation) string {
		var k NumCase
		if err := json.Unmarshal(v.Case, &k); err != nil {
			return "cannot decode case: " + err.Error()
		}
		data, _ := hex.DecodeString(k.Input)
		obs := ionx.ReadAll(data)
		return fmt.Sprintf("input %s reads as %s err=%s soft=%v (recorded expectation: %s)", showHex(data), model.FmtAll(obs.Vals), obs.ErrString(), obs.Soft, k.Want)
	}})
}
