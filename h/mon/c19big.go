package mon

import (
	"bytes"
	"encoding/hex"
	"fmt"
	"math/big"
	"strings"

	"verifh/model"
)

// runC19Directed: the part of C19 that needs particular sizes rather than many documents.
//
//   - scalars longer than every buffer the readers use (8 KiB .. 100 KB), in the middle and as the very
//     last bytes of the stream, delivered in large chunks, with reads that return nothing now and then
//     ((0, nil) is allowed by io.Reader), and with the final bytes arriving together with io.EOF;
//   - the same documents cut short, read through a source that can seek, one whose Seek fails and one
//     that cannot seek at all, by a traversal that skips: how the bytes arrive (or whether the source
//     could have been asked to seek) must not decide whether the truncation is noticed.
func runC19Directed(c *Ctx) {
	bigInt := new(big.Int).Lsh(big.NewInt(1), 8*9000)
	bigInt.Sub(bigInt, big.NewInt(12345))
	ints := model.ListV()
	for j := 0; j < 10000; j++ {
		ints.Kids = append(ints.Kids, model.Int64V(int64(j%100+1)))
	}
	docs := [][]*model.Value{
		{model.Int64V(42), model.StrV("hello"), model.BlobV(bytes.Repeat([]byte{0xB7}, 10000))},
		{model.Int64V(42), model.StrV(strings.Repeat("s", 20000))},
		{model.SymV(model.T("a")), model.IntV(bigInt)},
		{model.Int64V(1), model.ListV(model.Int64V(2), model.StrV(strings.Repeat("t", 100000)))},
		{model.BlobV(bytes.Repeat([]byte{0x5A}, 100000)), model.Int64V(7)},
		{model.ClobV(bytes.Repeat([]byte("c"), 70000)), model.StrV(strings.Repeat("u", 66000)), model.Int64V(7)},
		{ints, model.Int64V(7)},
		{model.StructV(ints.Clone().WithField(model.T("f")), model.StrV(strings.Repeat("v", 9000)).WithField(model.T("g"))), model.Int64V(7)},
	}
	chunkings := [][]int{nil, {8000, 0}, {1000, 0, 0, 1000}, {4096, 0, 1}, {65536, 0}, {1, 0, 100000}, {5000}, {4095, 0, 4097}}
	for di, vals := range docs {
		for _, binary := range []bool{true, false} {
			rk := ReadCase{CaseSeed: int64(di), Binary: binary, P: 0, Vals: vals}
			data, unordered, _, err := rk.render()
			if err != nil || rk.selfCheck(data, unordered) != "" {
				c.Inconclusive(fmt.Sprintf("C19 directed document %d: the reference renderer refused it", di))
				continue
			}
			fam := "text"
			if binary {
				fam = "binary"
			}
			hx := hex.EncodeToString(data)
			for ci, ch := range chunkings {
				for _, ew := range []bool{false, true} {
					k := IOCase{Kind: "read-chunk", InputHex: hx, Chunks: ch, EOFWith: ew, FailAt: -1}
					c.Eval(1)
					c.NonTrivial(fmt.Sprintf("bigchunk|%d|%v|%d|%v", di, binary, ci, ew))
					c.Obs("large_scalar_chunkings", 1)
					if v := runReadChunk(k); v != "" {
						ioViolate(c, k, fmt.Sprintf("%s:large-scalar:chunks%d", fam, ci), v)
					}
				}
			}
			// cut short: inside the last value, inside the first big value, one byte short
			for _, cut := range []int{len(data) - 1, len(data) * 3 / 4, len(data) / 2, len(data) / 4, 4200, 20} {
				if cut <= 4 || cut >= len(data) {
					continue
				}
				trunc := data[:cut]
				c.Eval(1)
				c.Obs("truncated_documents_over_seekable_and_other_sources", 1)
				base := skimFmt(&chunkReader{data: trunc, chunks: []int{1000}, failAt: -1})
				k := IOCase{Kind: "read-chunk", InputHex: hex.EncodeToString(trunc), FailAt: -1}
				for si, src := range []func() string{
					func() string { return skimFmt(bytes.NewReader(trunc)) },
					func() string { return skimFmt(seekFailReader{&chunkReader{data: trunc, failAt: -1}}) },
					func() string { return skimFmt(&chunkReader{data: trunc, failAt: -1}) },
					func() string { return skimFmt(&chunkReader{data: trunc, chunks: []int{1}, eofWith: true, failAt: -1}) },
				} {
					got, want := src(), base
					if si == 0 {
						// a source that can seek is not another chunking of the same delivery: the property
						// promises the same values and that the truncation is noticed, not the same position
						// or wording in the error (a reader that seeks over what it skips meets the end elsewhere)
						got, want = skimValuesAndErrPresence(got), skimValuesAndErrPresence(base)
					}
					if got != want {
						ioViolate(c, k, fmt.Sprintf("%s:truncated:source%d", fam, si), fmt.Sprintf("a skipping traversal of the document cut at byte %d of %d differs between sources (0 seekable, 1 Seek fails, 2 one piece, 3 byte-wise; reference: 1000-byte chunks): %s", cut, len(data), firstDiff(want, got)))
					}
				}
				if binary && !strings.Contains(base, "err: ") {
					// a binary document cut anywhere but between top-level values is not a clean end
					if _, rerr := firstBinaryValueEnd(data, cut); rerr {
						ioViolate(c, k, fam+":truncated:silent", fmt.Sprintf("the document cut at byte %d of %d (inside a value) is traversed without an error", cut, len(data)))
					}
				}
			}
		}
	}
}

// skimValuesAndErrPresence reduces the text of a skimming traversal to what it saw plus whether it ended
// in an error (the wording and position of the error are dropped).
func skimValuesAndErrPresence(s string) string {
	failed := false
	var out []string
	for _, l := range strings.Split(s, "\n") {
		if i := strings.Index(l, "err: "); i == 0 {
			failed = true
			continue
		}
		if i := strings.Index(l, " stepout:"); i >= 0 {
			failed = true
			l = l[:i]
		}
		if strings.HasPrefix(l, "PANIC") {
			return s
		}
		out = append(out, l)
	}
	return strings.Join(out, "\n") + fmt.Sprintf("\nfailed=%v", failed)
}

// firstBinaryValueEnd reports whether cut falls strictly inside a top-level value of the binary document
// (second result), walking the top-level type descriptors only.
func firstBinaryValueEnd(data []byte, cut int) (int, bool) {
	pos := 0
	for pos < len(data) {
		if pos+4 <= len(data) && data[pos] == 0xE0 && data[pos+1] == 0x01 && data[pos+2] == 0x00 && data[pos+3] == 0xEA {
			if cut > pos && cut < pos+4 {
				return pos, true
			}
			pos += 4
			continue
		}
		td := data[pos]
		l := int(td & 0x0F)
		hdr := 1
		typ := td >> 4
		switch {
		case l == 15, typ == 1:
			l = 0
		case l == 14 || (typ == 13 && l == 1):
			l = 0
			for {
				if pos+hdr >= len(data) {
					return pos, cut > pos
				}
				b := data[pos+hdr]
				hdr++
				l = l<<7 | int(b&0x7F)
				if b&0x80 != 0 {
					break
				}
			}
		}
		end := pos + hdr + l
		if cut > pos && cut < end {
			return pos, true
		}
		pos = end
	}
	return pos, false
}
