package mon

// WorkerMain is the entry point of isolated child workers (C06, C17, C20). Filled in by those monitors.
var workerKinds = map[string]func(args []string) int{}

func WorkerMain(args []string) int {
	if len(args) == 0 {
		return 2
	}
	f, ok := workerKinds[args[0]]
	if !ok {
		return 2
	}
	return f(args[1:])
}
