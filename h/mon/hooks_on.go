//go:build verif

package mon

import (
	"math/big"

	"github.com/amzn/ion-go/ion"
)

const HooksBuilt = true

type Codecs struct{}

func (Codecs) UintLen(v uint64) uint64                            { return ion.VerifUintLen(v) }
func (Codecs) AppendUint(v uint64) []byte                         { return ion.VerifAppendUint(nil, v) }
func (Codecs) IntLen(v int64) uint64                              { return ion.VerifIntLen(v) }
func (Codecs) AppendInt(v int64) []byte                           { return ion.VerifAppendInt(nil, v) }
func (Codecs) BigIntLen(v *big.Int) uint64                        { return ion.VerifBigIntLen(v) }
func (Codecs) AppendBigInt(v *big.Int) []byte                     { return ion.VerifAppendBigInt(nil, v) }
func (Codecs) VarUintLen(v uint64) uint64                         { return ion.VerifVarUintLen(v) }
func (Codecs) AppendVarUint(v uint64) []byte                      { return ion.VerifAppendVarUint(nil, v) }
func (Codecs) VarIntLen(v int64) uint64                           { return ion.VerifVarIntLen(v) }
func (Codecs) AppendVarInt(v int64) []byte                        { return ion.VerifAppendVarInt(nil, v) }
func (Codecs) TagLen(l uint64) uint64                             { return ion.VerifTagLen(l) }
func (Codecs) AppendTag(code byte, l uint64) []byte               { return ion.VerifAppendTag(nil, code, l) }
func (Codecs) TimestampBody(t ion.Timestamp) (uint64, []byte)     { return ion.VerifTimestampBody(t) }
func (Codecs) ReadVarUint(bs []byte) (uint64, uint64, error)      { return ion.VerifReadVarUint(bs) }
func (Codecs) ReadVarInt(bs []byte) (int64, int64, uint64, error) { return ion.VerifReadVarInt(bs) }
func (Codecs) ReadInt(bs []byte, neg bool) (interface{}, error)   { return ion.VerifReadInt(bs, neg) }
func (Codecs) ReadDecimal(bs []byte) (*ion.Decimal, error)        { return ion.VerifReadDecimal(bs) }

type WriterState = ion.VerifWriterState
type ReaderState = ion.VerifReaderState

func ProbeWriter(w ion.Writer) WriterState { return ion.VerifProbeWriter(w) }
func ProbeReader(r ion.Reader) ReaderState { return ion.VerifProbeReader(r) }
func IsNegZero(d *ion.Decimal) bool        { return ion.VerifIsNegZero(d) }
