package mon

import (
	"encoding/json"
	"fmt"
	"math"
	"math/big"
	"math/rand"
	"strings"

	"github.com/amzn/ion-go/ion"

	"verifh/ionx"
	"verifh/model"
	"verifh/reftext"
)

// DecCase is a replayable decimal operation.
type DecCase struct {
	Op   string    `json:"op"`
	A    model.Dec `json:"a"`
	B    model.Dec `json:"b"`
	Arg  int       `json:"arg,omitempty"`
	Note string    `json:"note,omitempty"`
}

var ten = big.NewInt(10)

// relRat returns coef * 10^(exp-base): values are compared relative to a base exponent so that
// exponents near the int32 edges never have to be materialised as powers of ten.
func relRat(coef *big.Int, exp, base int64) (*big.Rat, bool) {
	e := exp - base
	if e > 20000 || e < -20000 {
		return nil, false
	}
	return scaleRat(new(big.Rat).SetInt(coef), e), true
}

func scaleRat(r *big.Rat, e int64) *big.Rat {
	if e == 0 {
		return r
	}
	ae := e
	if ae < 0 {
		ae = -ae
	}
	p := new(big.Rat).SetInt(new(big.Int).Exp(ten, big.NewInt(ae), nil))
	if e > 0 {
		return r.Mul(r, p)
	}
	return r.Quo(r, p)
}

// sameValue compares d with want, both relative to base.
func sameValue(d *ion.Decimal, want *big.Rat, base int64) bool {
	if d == nil {
		return false
	}
	c, e := d.CoEx()
	got, ok := relRat(c, int64(e), base)
	return ok && got.Cmp(want) == 0
}

// runDecCase executes one operation against the big.Rat oracle; returns "" when it holds.
func runDecCase(k DecCase) (verdict string) {
	defer func() {
		if rec := recover(); rec != nil {
			verdict = "panic: " + ionx.PanicSite(rec)
		}
	}()
	a := ionx.ToDec(k.A)
	base := int64(k.A.Exp)
	var b *ion.Decimal
	var rb *big.Rat
	if k.B.Coef != nil {
		b = ionx.ToDec(k.B)
		if int64(k.B.Exp) < base {
			base = int64(k.B.Exp)
		}
		rb, _ = relRat(k.B.Coef, int64(k.B.Exp), base)
	}
	// an operation returns a new decimal: neither operand may have changed afterwards, nor give a
	// different answer when the operation is repeated
	ca0, ea0 := a.CoEx()
	ca0 = new(big.Int).Set(ca0)
	var cb0 *big.Int
	var eb0 int32
	if b != nil {
		cb0, eb0 = b.CoEx()
		cb0 = new(big.Int).Set(cb0)
	}
	defer func() {
		if verdict != "" {
			return
		}
		if c, e := a.CoEx(); c.Cmp(ca0) != 0 || e != ea0 {
			verdict = fmt.Sprintf("%s changed its receiver from %vd%d to %vd%d", k.Op, ca0, ea0, c, e)
		}
		if b != nil {
			if c, e := b.CoEx(); c.Cmp(cb0) != 0 || e != eb0 {
				verdict = fmt.Sprintf("%s changed its argument from %vd%d to %vd%d", k.Op, cb0, eb0, c, e)
			}
		}
	}()
	ra, _ := relRat(k.A.Coef, int64(k.A.Exp), base)
	if k.Op != "Mul" && (ra == nil || (b != nil && rb == nil)) {
		return "harness: operands too far apart for the oracle"
	}
	show := func(d *ion.Decimal) string {
		if d == nil {
			return "nil"
		}
		c, e := d.CoEx()
		s := c.String()
		if len(s) > 60 {
			s = s[:30] + "…" + s[len(s)-20:]
		}
		return fmt.Sprintf("%sd%d", s, e)
	}
	switch k.Op {
	case "Add":
		got := a.Add(b)
		if !sameValue(got, new(big.Rat).Add(ra, rb), base) {
			return "Add returned " + show(got)
		}
	case "Sub":
		got := a.Sub(b)
		if !sameValue(got, new(big.Rat).Sub(ra, rb), base) {
			return "Sub returned " + show(got)
		}
	case "Mul":
		got := a.Mul(b)
		if !sameValue(got, new(big.Rat).SetInt(new(big.Int).Mul(k.A.Coef, k.B.Coef)), int64(k.A.Exp)+int64(k.B.Exp)) {
			return "Mul returned " + show(got)
		}
	case "Neg":
		got := a.Neg()
		if !sameValue(got, new(big.Rat).Neg(ra), base) {
			return "Neg returned " + show(got)
		}
	case "Abs":
		got := a.Abs()
		if !sameValue(got, new(big.Rat).Abs(ra), base) {
			return "Abs returned " + show(got)
		}
	case "ShiftL":
		got := a.ShiftL(k.Arg)
		if !sameValue(got, new(big.Rat).SetInt(k.A.Coef), int64(k.A.Exp)+int64(k.Arg)) {
			return "ShiftL returned " + show(got)
		}
	case "ShiftR":
		got := a.ShiftR(k.Arg)
		if !sameValue(got, new(big.Rat).SetInt(k.A.Coef), int64(k.A.Exp)-int64(k.Arg)) {
			return "ShiftR returned " + show(got)
		}
	case "Cmp":
		want := ra.Cmp(rb)
		if got := a.Cmp(b); got != want {
			return fmt.Sprintf("Cmp returned %d, exact comparison %d", got, want)
		}
		if got := a.Equal(b); got != (want == 0) {
			return fmt.Sprintf("Equal returned %v, exact comparison %d", got, want)
		}
		// antisymmetry through the API itself
		if got := b.Cmp(a); got != -want {
			return fmt.Sprintf("reverse Cmp returned %d, exact comparison %d", got, -want)
		}
	case "Sign":
		if got := a.Sign(); got != ra.Sign() {
			return fmt.Sprintf("Sign returned %d, exact %d", got, ra.Sign())
		}
	case "Truncate":
		got := a.Truncate(k.Arg)
		digits := new(big.Int).Abs(k.A.Coef).String()
		want := new(big.Rat).Set(ra)
		if len(digits) > k.Arg {
			drop := len(digits) - k.Arg
			q := new(big.Int).Quo(new(big.Int).Abs(k.A.Coef), new(big.Int).Exp(ten, big.NewInt(int64(drop)), nil))
			if k.A.Coef.Sign() < 0 {
				q.Neg(q)
			}
			want = scaleRat(new(big.Rat).SetInt(q), int64(drop))
		}
		if !sameValue(got, want, base) {
			return fmt.Sprintf("Truncate(%d) returned %s, exact %s", k.Arg, show(got), want.FloatString(3))
		}
		gc, _ := got.CoEx()
		if n := len(new(big.Int).Abs(gc).String()); n > k.Arg && gc.Sign() != 0 {
			return fmt.Sprintf("Truncate(%d) kept %d significant digits: %s", k.Arg, n, show(got))
		}
	case "String":
		s := a.String()
		vals, err := reftext.Parse(s, nil)
		if err != nil || len(vals) != 1 || vals[0].Kind != model.Decimal || vals[0].IsNull || len(vals[0].Ann) != 0 {
			return fmt.Sprintf("String() = %q is not one Ion decimal literal (%v)", s, err)
		}
		if !vals[0].D.Equal(k.A) {
			return fmt.Sprintf("String() = %q denotes %v", s, vals[0].D)
		}
		back, err := ion.ParseDecimal(s)
		if err != nil {
			return fmt.Sprintf("ParseDecimal(String()) failed on %q: %v", s, err)
		}
		if got := ionx.DecOf(back); !got.Equal(k.A) {
			return fmt.Sprintf("ParseDecimal(%q) = %v", s, got)
		}
		if HooksBuilt && IsNegZero(back) != k.A.NegZero {
			return fmt.Sprintf("ParseDecimal(%q) negative-zero flag %v", s, IsNegZero(back))
		}
		if mp := ionx.DecOf(ion.MustParseDecimal(s)); !mp.Equal(k.A) {
			return fmt.Sprintf("MustParseDecimal(%q) = %v", s, mp)
		}
		if k.A.Exp == 0 && k.A.Coef.IsInt64() && !k.A.NegZero {
			if di := ionx.DecOf(ion.NewDecimalInt(k.A.Coef.Int64())); !di.Equal(k.A) {
				return fmt.Sprintf("NewDecimalInt(%v) = %v", k.A.Coef, di)
			}
		}
	case "FormatShiftFormat":
		// text asked for before and after a shift (and a negation): each is the text of its own value
		_ = a.String()
		for _, d2 := range []*ion.Decimal{a.ShiftL(k.Arg), a.ShiftR(k.Arg), a.Neg(), a.Abs()} {
			co, ex := d2.CoEx()
			s := d2.String()
			vals, err := reftext.Parse(s, nil)
			if err != nil || len(vals) != 1 || vals[0].Kind != model.Decimal {
				return fmt.Sprintf("String() after String()+shift = %q is not one decimal (%v)", s, err)
			}
			if got := vals[0].D; got.Coef.Cmp(co) != 0 || got.Exp != ex {
				return fmt.Sprintf("String() after String()+shift = %q, but CoEx says %vd%d", s, co, ex)
			}
			_ = d2.String()
			// comparing a value with one derived from it (the two may share storage)
			rd, ok := relRat(co, int64(ex), base)
			if !ok || rd == nil {
				continue
			}
			want := ra.Cmp(rd)
			if got := a.Cmp(d2); got != want {
				return fmt.Sprintf("Cmp with the derived value %s returned %d, exact comparison %d", show(d2), got, want)
			}
			if got := a.Equal(d2); got != (want == 0) {
				return fmt.Sprintf("Equal with the derived value %s returned %v, exact comparison %d", show(d2), got, want)
			}
			if got := d2.Equal(a); got != (want == 0) {
				return fmt.Sprintf("derived value %s Equal the original returned %v, exact comparison %d", show(d2), got, want)
			}
		}
		// two decimals built around one big.Int of the caller
		if !k.A.NegZero && int64(k.A.Exp) > math.MinInt32+10 {
			n := new(big.Int).Set(k.A.Coef)
			d1, d2 := ion.NewDecimal(n, k.A.Exp, false), ion.NewDecimal(n, k.A.Exp-3, false)
			want := 0
			if k.A.Coef.Sign() != 0 {
				want = k.A.Coef.Sign() // same digits, larger exponent: larger magnitude
			}
			if got := d1.Cmp(d2); got != want {
				return fmt.Sprintf("Cmp of %s and %s (one coefficient object) returned %d, exact %d", show(d1), show(d2), got, want)
			}
			if got := d1.Equal(d2); got != (want == 0) {
				return fmt.Sprintf("Equal of %s and %s (one coefficient object) returned %v, exact comparison %d", show(d1), show(d2), got, want)
			}
			cp := *d1
			if !cp.Equal(d1) || !d1.Equal(&cp) || cp.Cmp(d1) != 0 {
				return fmt.Sprintf("a copy of %s is not Equal to it", show(d1))
			}
		}
	case "Parse":
		// k.Note holds a literal produced by the reference printer denoting k.A
		back, err := ion.ParseDecimal(k.Note)
		if err != nil {
			return fmt.Sprintf("ParseDecimal(%q) failed: %v", k.Note, err)
		}
		if got := ionx.DecOf(back); !got.Equal(k.A) {
			return fmt.Sprintf("ParseDecimal(%q) = %v", k.Note, got)
		}
	default:
		return "unknown op " + k.Op
	}
	return ""
}

func decCheck(c *Ctx, k DecCase, nontrivial bool) {
	c.Eval(1)
	v := runDecCase(k)
	if nontrivial {
		c.NonTrivial(fmt.Sprintf("%s|%v|%v|%d|%s", k.Op, k.A, k.B, k.Arg, k.Note))
	}
	if v == "" {
		return
	}
	if strings.HasPrefix(v, "harness: ") {
		// the oracle cannot judge this case: never a violation
		c.Obs("oracle_cannot_judge", 1)
		return
	}
	c.Violate("decimal-"+k.Op, k.Op+":"+Class(v), fmt.Sprintf("%s a=%v b=%v arg=%d %s :: %s", k.Op, k.A, k.B, k.Arg, k.Note, v), k, nil)
}

func dec(coef int64, exp int32) model.Dec { return model.Dec{Coef: big.NewInt(coef), Exp: exp} }

func runC14(c *Ctx) {
	// ---- exhaustive small grid ----
	var coefs []int64
	for i := int64(-12); i <= 12; i++ {
		coefs = append(coefs, i)
	}
	for _, x := range []int64{99, 100, 101, 999, 1000, 1001, 1023, 1024, 9999, 10000} {
		coefs = append(coefs, x, -x)
	}
	var grid []model.Dec
	for _, co := range coefs {
		for e := int32(-6); e <= 6; e++ {
			grid = append(grid, dec(co, e))
		}
	}
	for e := int32(-6); e <= 6; e++ {
		grid = append(grid, model.Dec{Coef: new(big.Int), Exp: e, NegZero: true})
	}
	c.Parallel(len(grid), func(w, i int) {
		a := grid[i]
		for _, op := range []string{"Neg", "Abs", "Sign", "String"} {
			decCheck(c, DecCase{Op: op, A: a}, true)
		}
		for sh := -4; sh <= 4; sh++ {
			decCheck(c, DecCase{Op: "ShiftL", A: a, Arg: sh}, sh != 0)
			decCheck(c, DecCase{Op: "ShiftR", A: a, Arg: sh}, sh != 0)
		}
		for p := 1; p <= 6; p++ {
			decCheck(c, DecCase{Op: "Truncate", A: a, Arg: p}, true)
		}
		for _, b := range grid {
			nt := a.Exp != b.Exp
			for _, op := range []string{"Add", "Sub", "Mul", "Cmp"} {
				decCheck(c, DecCase{Op: op, A: a, B: b}, nt)
			}
		}
	})
	c.Exhaustive(fmt.Sprintf("decimal grid: %d decimals (coefficients -12..12, ±99..±10000 boundaries, negative zero) x exponents -6..6: all ordered pairs x {Add,Sub,Mul,Cmp,Equal}, shifts -4..4, precisions 1..6", len(grid)))

	// ---- exponent-gap sweep: every difference 0..80 (rescale/upscale table boundaries) ----
	for gap := int32(0); gap <= 80; gap++ {
		for _, pair := range [][2]int64{{1, 1}, {1, -1}, {7, 3}, {-123456789, 987654321}, {99999999999, 1}} {
			a, b := dec(pair[0], gap), dec(pair[1], 0)
			for _, op := range []string{"Add", "Sub", "Cmp", "Mul"} {
				decCheck(c, DecCase{Op: op, A: a, B: b}, true)
				decCheck(c, DecCase{Op: op, A: b, B: a}, true)
			}
			// the witness family x*10^gap versus the same number written out
			full := model.Dec{Coef: new(big.Int).Mul(big.NewInt(pair[0]), new(big.Int).Exp(ten, big.NewInt(int64(gap)), nil)), Exp: 0}
			decCheck(c, DecCase{Op: "Cmp", A: a, B: full}, true)
			decCheck(c, DecCase{Op: "Sub", A: a, B: full}, true)
		}
	}
	c.Exhaustive("exponent gaps 0..80 between operands for Add/Sub/Mul/Cmp/Equal")

	// ---- Truncate sweep ----
	lim := int64(c.N(25000, 300000))
	c.Parallel(int(2*lim+1), func(w, i int) {
		co := int64(i) - lim
		for p := 1; p <= 6; p++ {
			decCheck(c, DecCase{Op: "Truncate", A: dec(co, int32(i%5-2)), Arg: p}, p < 6)
		}
	})
	c.Exhaustive(fmt.Sprintf("Truncate: every coefficient in [-%d,%d] x precisions 1..6", lim, lim))

	// ---- formatting: digit count x scale x sign x negative zero (all three layout branches) ----
	r0 := rand.New(rand.NewSource(c.Seed + 14))
	for nd := 1; nd <= 40; nd++ {
		for sc := -45; sc <= 45; sc++ {
			for _, sg := range []int{1, -1} {
				digits := "1" + strings.Repeat("0", nd-1)
				if r0.Intn(2) == 0 {
					var b strings.Builder
					b.WriteByte(byte('1' + r0.Intn(9)))
					for i := 1; i < nd; i++ {
						b.WriteByte(byte('0' + r0.Intn(10)))
					}
					digits = b.String()
				}
				co, _ := new(big.Int).SetString(digits, 10)
				if sg < 0 {
					co.Neg(co)
				}
				decCheck(c, DecCase{Op: "String", A: model.Dec{Coef: co, Exp: int32(-sc)}}, true)
				decCheck(c, DecCase{Op: "FormatShiftFormat", A: model.Dec{Coef: co, Exp: int32(-sc)}, Arg: nd % 7}, true)
			}
			if nd <= 7 {
				// zero is zero at every exponent, negative zero included
				decCheck(c, DecCase{Op: "FormatShiftFormat", A: model.Dec{Coef: new(big.Int), Exp: int32(-sc)}, Arg: nd}, true)
				decCheck(c, DecCase{Op: "FormatShiftFormat", A: model.Dec{Coef: new(big.Int), Exp: int32(-sc), NegZero: true}, Arg: nd}, true)
			}
		}
	}
	for sc := -45; sc <= 45; sc++ {
		decCheck(c, DecCase{Op: "String", A: model.Dec{Coef: new(big.Int), Exp: int32(-sc), NegZero: true}}, true)
		decCheck(c, DecCase{Op: "String", A: model.Dec{Coef: new(big.Int), Exp: int32(-sc)}}, true)
	}
	for _, e := range []int64{math.MaxInt32, math.MaxInt32 - 1, math.MinInt32, math.MinInt32 + 1, math.MinInt32 + 40, 1 << 30, -(1 << 30)} {
		for _, co := range []int64{0, 1, -1, 12345, -99999999} {
			decCheck(c, DecCase{Op: "String", A: dec(co, int32(e))}, true)
		}
	}
	c.Exhaustive("String/ParseDecimal: digit counts 1..40 x scales -45..45 x sign, zero and negative zero at every scale, exponents at the int32 edges")

	// ---- coefficients at the machine-word boundaries (fast paths for small coefficients) ----
	var wordCo []*big.Int
	for _, k := range []uint{7, 8, 15, 16, 31, 32, 53, 62, 63, 64, 65, 127, 128} {
		p := new(big.Int).Lsh(big.NewInt(1), k)
		for _, d := range []int64{-1, 0, 1} {
			v := new(big.Int).Add(p, big.NewInt(d))
			wordCo = append(wordCo, v, new(big.Int).Neg(v))
		}
	}
	for _, s := range []string{"0", "1", "-1", "2", "-2", "3", "10", "-10", "1000000000000000000", "-1000000000000000000", "10000000000000000000", "3037000499", "3037000500", "-3037000500", "4294967296"} {
		v, _ := new(big.Int).SetString(s, 10)
		wordCo = append(wordCo, v)
	}
	c.Parallel(len(wordCo), func(w, i int) {
		for _, cb := range wordCo {
			for _, ex := range [][2]int32{{0, 0}, {-3, 5}, {2, -2}} {
				a, b := model.Dec{Coef: wordCo[i], Exp: ex[0]}, model.Dec{Coef: cb, Exp: ex[1]}
				for _, op := range []string{"Mul", "Add", "Sub", "Cmp"} {
					decCheck(c, DecCase{Op: op, A: a, B: b}, true)
				}
			}
		}
	})
	c.Exhaustive(fmt.Sprintf("word boundaries: all ordered pairs of %d coefficients (±(2^k+{-1,0,1}) for k in 7..128, sqrt(2^63) neighbours, powers of ten) x 3 exponent pairs x {Mul, Add, Sub, Cmp}", len(wordCo)))

	// ---- both operands at the edges of the exponent range ----
	var edgeCo []*big.Int
	for _, s := range []string{"0", "1", "5", "9", "10", "12", "99", "100", "123", "999", "1000", "12345678901234567890", "100000000000000000000", "99999999999999999999999999999999999999"} {
		v, _ := new(big.Int).SetString(s, 10)
		edgeCo = append(edgeCo, v, new(big.Int).Neg(v))
	}
	var edgeExp []int64
	for _, k := range []int64{0, 1, 2, 3, 5, 19, 37, 40} {
		edgeExp = append(edgeExp, math.MaxInt32-k, math.MinInt32+k)
	}
	type edgePair struct{ ea, eb int64 }
	var edgePairs []edgePair
	for _, ea := range edgeExp {
		for _, eb := range edgeExp {
			if d := ea - eb; d >= -40 && d <= 40 {
				edgePairs = append(edgePairs, edgePair{ea, eb})
			}
		}
	}
	c.Parallel(len(edgePairs), func(w, i int) {
		p := edgePairs[i]
		for _, ca := range edgeCo {
			for _, cb := range edgeCo {
				a, b := model.Dec{Coef: ca, Exp: int32(p.ea)}, model.Dec{Coef: cb, Exp: int32(p.eb)}
				for _, op := range []string{"Cmp", "Add", "Sub"} {
					decCheckGuarded(c, DecCase{Op: op, A: a, B: b})
				}
			}
		}
	})
	inRange := func(e int64) bool { return e >= math.MinInt32 && e <= math.MaxInt32 }
	c.Parallel(len(edgeExp), func(w, i int) {
		e := edgeExp[i]
		for _, co := range edgeCo {
			a := model.Dec{Coef: co, Exp: int32(e)}
			for _, op := range []string{"Neg", "Abs", "Sign", "String"} {
				decCheck(c, DecCase{Op: op, A: a}, true)
			}
			for sh := -45; sh <= 45; sh++ {
				if inRange(e + int64(sh)) {
					decCheck(c, DecCase{Op: "ShiftL", A: a, Arg: sh}, true)
				}
				if inRange(e - int64(sh)) {
					decCheck(c, DecCase{Op: "ShiftR", A: a, Arg: sh}, true)
				}
			}
			for _, eb := range []int64{0, 1, -1, 2, -2, 40, -40, 41, -41} {
				if inRange(e + eb) {
					decCheck(c, DecCase{Op: "Mul", A: a, B: model.Dec{Coef: big.NewInt(-3), Exp: int32(eb)}}, true)
					decCheck(c, DecCase{Op: "Mul", A: model.Dec{Coef: big.NewInt(7), Exp: int32(eb)}, B: a}, true)
				}
			}
			digits := len(new(big.Int).Abs(co).String())
			for _, p := range []int{1, 2, 3, 19, 20, 21, 38, 50} {
				drop := digits - p
				if drop < 0 {
					drop = 0
				}
				if inRange(e + int64(drop)) {
					decCheck(c, DecCase{Op: "Truncate", A: a, Arg: p}, true)
				}
			}
		}
		decCheck(c, DecCase{Op: "String", A: model.Dec{Coef: new(big.Int), Exp: int32(e), NegZero: true}}, true)
	})
	c.Exhaustive(fmt.Sprintf("exponent edges: %d exponents within 40 of MaxInt32 / MinInt32 x %d coefficients x {Neg, Abs, Sign, String, ShiftL/ShiftR by -45..45, Mul by 10^{0,±1,±2,±40,±41}, Truncate to 1..50 digits} wherever the exact result has an int32 exponent", len(edgeExp), len(edgeCo)))
	c.Exhaustive(fmt.Sprintf("exponent edges: %d pairs of exponents within 40 of MaxInt32 / MinInt32 x %d x %d coefficients of 1..38 digits x {Cmp, Add, Sub}", len(edgePairs), len(edgeCo), len(edgeCo)))

	// ---- random operands ----
	n := c.N(60000, 3000000)
	c.Parallel(n, func(w, i int) {
		r := rand.New(rand.NewSource(c.Seed*7_000_003 + int64(i)))
		rc := func() *big.Int {
			var v *big.Int
			switch r.Intn(4) {
			case 0:
				v = big.NewInt(int64(r.Intn(2001) - 1000))
			case 1:
				v = big.NewInt(r.Int63())
			default:
				v = new(big.Int).Rand(r, new(big.Int).Exp(ten, big.NewInt(int64(1+r.Intn(300))), nil))
			}
			if r.Intn(2) == 0 {
				v.Neg(v)
			}
			return v
		}
		var base int64
		switch r.Intn(4) {
		case 0:
			base = int64(r.Intn(41) - 20)
		case 1:
			base = int64(r.Intn(1<<20)) - 1<<19
		case 2:
			base = math.MaxInt32 - 3000 - int64(r.Intn(1000))
		default:
			base = math.MinInt32 + 3000 + int64(r.Intn(1000))
		}
		gap := int64(r.Intn(2001))
		if r.Intn(3) == 0 {
			gap = int64(r.Intn(70))
		}
		a := model.Dec{Coef: rc(), Exp: int32(base)}
		b := model.Dec{Coef: rc(), Exp: int32(base + gap - 1000)}
		if int64(b.Exp) != base+gap-1000 {
			b.Exp = a.Exp
		}
		if d := int64(a.Exp) - int64(b.Exp); d > 2000 || d < -2000 {
			b.Exp = a.Exp
		}
		for _, op := range []string{"Add", "Sub", "Cmp"} {
			decCheck(c, DecCase{Op: op, A: a, B: b}, a.Exp != b.Exp)
		}
		if s := int64(a.Exp) + int64(b.Exp); s <= math.MaxInt32 && s >= math.MinInt32 {
			decCheck(c, DecCase{Op: "Mul", A: a, B: b}, true)
		}
		sh := r.Intn(4001) - 2000
		if s := int64(a.Exp) + int64(sh); s <= math.MaxInt32 && s >= math.MinInt32 {
			decCheck(c, DecCase{Op: "ShiftL", A: a, Arg: sh}, true)
		}
		if s := int64(a.Exp) - int64(sh); s <= math.MaxInt32 && s >= math.MinInt32 {
			decCheck(c, DecCase{Op: "ShiftR", A: a, Arg: sh}, true)
		}
		p := 1 + r.Intn(320)
		if int64(a.Exp)+400 < math.MaxInt32 {
			decCheck(c, DecCase{Op: "Truncate", A: a, Arg: p}, true)
		}
		if sh >= -100 && sh <= 100 && int64(a.Exp) > math.MinInt32+200 && int64(a.Exp) < math.MaxInt32-200 {
			decCheck(c, DecCase{Op: "FormatShiftFormat", A: a, Arg: sh}, true)
		}
		if i%500 == 0 {
			disturbSharedState(int64(i))
		}
		decCheck(c, DecCase{Op: "Neg", A: a}, false)
		decCheck(c, DecCase{Op: "Abs", A: a}, false)
		decCheck(c, DecCase{Op: "Sign", A: a}, false)
		decCheck(c, DecCase{Op: "String", A: a}, true)
		if i < 3 {
			c.Sample(map[string]interface{}{"a": a.String(), "b": b.String(), "ops": "Add Sub Cmp Equal Mul ShiftL ShiftR Truncate Neg Abs Sign String/ParseDecimal"})
		}
	})
}

func init() {
	Register(&Monitor{ID: "C14", Run: func(c *Ctx) {
		c.Rule = "Decimal operations executed on the real type and compared with math/big.Rat arithmetic; String() judged by the independent Ion text lexer and by ParseDecimal(String()). Exhaustive small grid (all ordered pairs), exponent-gap sweep 0..80, Truncate sweep, formatting sweep over digit count x scale x sign, random 300-digit operands across the int32 exponent range, and a grid with both operands within 40 of MaxInt32 / MinInt32 (every operation whose exact result still has an int32 exponent; an operation on such operands that has not returned after two minutes is reported as not returning). Cmp and Equal also between a value and values derived from it (shifted, negated, copied) and between decimals built around one big.Int of the caller, zero and negative zero included. Non-trivial: operands differ in exponent, or a shift/precision argument is effective, or a formatting case; distinct by (op, operands, argument)."
		c.Assume("domain: results representable (exponent sums within int32, |exponent difference| <= 2000 so exact results stay materialisable)")
		runC14(c)
	}, Replay: func(c *Ctx, v *Violation) string {
		var k DecCase
		if err := json.Unmarshal(v.Case, &k); err != nil {
			return "cannot decode case: " + err.Error()
		}
		if r := runDecCase(k); r != "" {
			return "VIOLATED on replay: " + r
		}
		return "HELD on replay"
	}})
}
