package mon

import (
	"bytes"
	"encoding/hex"
	"fmt"
	"math/rand"

	"github.com/amzn/ion-go/ion"

	"verifh/model"
	"verifh/refbin"
	"verifh/refsym"
	"verifh/reftext"
)

// One Decoder, many symbol tables: a stream in which the ids of the same field names change from one
// table to the next (replaced tables, tables that list the names in another order, a version marker,
// appended tables), decoded by a single Decoder into one Go struct type, a map and interface{}. What an
// id meant under an earlier table must not survive into the next one at any layer.
type ctxRow struct {
	A int `ion:"a"`
	B int `ion:"b"`
	C int `ion:"c"`
}

func runC10Decoder(c *Ctx) {
	n := c.N(300, 6000)
	c.Parallel(n, func(w, i int) {
		cs := c.Seed*10_300_007 + int64(i)
		r := rand.New(rand.NewSource(cs))
		binary := i%2 == 0
		var enc *refbin.Encoder
		var prn *reftext.Printer
		if binary {
			enc = refbin.NewEncoder(newChoice(cs, 0.1), nil)
		} else {
			prn = reftext.NewPrinter(newChoice(cs, 0.5))
		}
		ctx := refsym.System()
		var want []ctxRow
		var hist []string
		names := []string{"a", "b", "c"}
		nseg := 2 + r.Intn(6)
		for s := 0; s < nseg; s++ {
			// a new table: the three names (or some of them) in a random order, replacing or appending
			perm := r.Perm(3)
			var spec refsym.LSTSpec
			spec.Append = s > 0 && r.Intn(3) == 0
			have := map[string]bool{}
			if spec.Append {
				for id := uint64(10); id <= ctx.MaxID(); id++ {
					if sl, ok := ctx.Lookup(id); ok && sl.Known {
						have[sl.Text] = true
					}
				}
			} else if s > 0 && r.Intn(4) == 0 {
				if binary {
					enc.AppendIVM()
				} else {
					prn.AppendIVM()
				}
				hist = append(hist, "ivm")
			}
			for _, p := range perm {
				if r.Intn(5) == 0 && s > 0 {
					spec.Symbols = append(spec.Symbols, refsym.Slot{Text: fmt.Sprintf("pad%d", s), Known: true})
				}
				spec.Symbols = append(spec.Symbols, refsym.Slot{Text: names[p], Known: true})
			}
			nc, err := refsym.Apply(func() *refsym.Context {
				if spec.Append {
					return ctx
				}
				return refsym.System()
			}(), nil, spec)
			if err != nil {
				c.Obs("harness_render_failed", 1)
				return
			}
			if binary {
				enc.AppendLST(spec, nil)
			} else {
				prn.AppendLST(spec)
			}
			ctx = nc
			hist = append(hist, fmt.Sprintf("table(append=%v) %v", spec.Append, spec.Symbols))
			for v := 0; v < 1+r.Intn(3); v++ {
				row := ctxRow{A: r.Intn(1000) + 1, B: r.Intn(1000) + 1, C: r.Intn(1000) + 1}
				st := model.StructV()
				for _, p := range r.Perm(3) {
					val := []int{row.A, row.B, row.C}[p]
					if r.Intn(6) == 0 {
						// field absent: the Go field stays zero
						switch p {
						case 0:
							row.A = 0
						case 1:
							row.B = 0
						default:
							row.C = 0
						}
						continue
					}
					st.Kids = append(st.Kids, model.Int64V(int64(val)).WithField(model.T(names[p])))
				}
				if binary {
					enc.AppendValue(st)
				} else {
					prn.AppendValue(st)
				}
				want = append(want, row)
				hist = append(hist, "value "+model.Fmt(st))
			}
		}
		var data []byte
		if binary {
			if enc.Err != nil {
				c.Obs("harness_render_failed", 1)
				return
			}
			data = enc.Out
		} else {
			if prn.Err != nil {
				c.Obs("harness_render_failed", 1)
				return
			}
			data = []byte(prn.B.String() + " ")
		}
		c.Eval(1)
		c.NonTrivial(hex.EncodeToString(data))
		c.Obs("decoder_streams_across_table_changes", 1)
		k := CtxCase{Binary: binary, InputHex: hex.EncodeToString(data), Shown: showInput(binary, data), History: hist}
		verdict := func() (verdict string) {
			defer func() {
				if rec := recover(); rec != nil {
					verdict = fmt.Sprintf("panic: %v", rec)
				}
			}()
			// (1) one Decoder, one struct type
			d := ion.NewDecoder(ion.NewReader(bytes.NewReader(data)))
			for ri, w := range want {
				var got ctxRow
				if err := d.DecodeTo(&got); err != nil {
					return fmt.Sprintf("DecodeTo of row %d failed: %v", ri, err)
				}
				if got != w {
					return fmt.Sprintf("row %d decoded by one Decoder into a struct: %+v, the document says %+v", ri, got, w)
				}
			}
			var extra ctxRow
			if err := d.DecodeTo(&extra); err != ion.ErrNoInput {
				return fmt.Sprintf("after the last row DecodeTo returned %v, not ErrNoInput", err)
			}
			// (2) one Decoder, maps
			d = ion.NewDecoder(ion.NewReader(bytes.NewReader(data)))
			for ri, w := range want {
				got := map[string]int{}
				if err := d.DecodeTo(&got); err != nil {
					return fmt.Sprintf("DecodeTo(map) of row %d failed: %v", ri, err)
				}
				if got["a"] != w.A || got["b"] != w.B || got["c"] != w.C {
					return fmt.Sprintf("row %d decoded by one Decoder into a map: %v, the document says %+v", ri, got, w)
				}
			}
			// (3) one Decoder, untyped
			d = ion.NewDecoder(ion.NewReader(bytes.NewReader(data)))
			for ri, w := range want {
				x, err := d.Decode()
				if err != nil {
					return fmt.Sprintf("Decode of row %d failed: %v", ri, err)
				}
				m, _ := x.(map[string]interface{})
				num := func(v interface{}) int {
					switch t := v.(type) {
					case int:
						return t
					case int64:
						return int(t)
					}
					return 0
				}
				if m == nil || num(m["a"]) != w.A || num(m["b"]) != w.B || num(m["c"]) != w.C {
					return fmt.Sprintf("row %d decoded by one Decoder (untyped): %v, the document says %+v", ri, x, w)
				}
			}
			return ""
		}()
		if verdict != "" {
			fam := "text"
			if binary {
				fam = "binary"
			}
			cls := verdict
			if len(cls) > 60 {
				cls = cls[:60]
			}
			c.Violate("symbol-context-decoder", fam+":"+Class(cls), fmt.Sprintf("history=%v input=%s :: %s", hist, k.Shown, verdict), k, nil)
		}
	})
}
