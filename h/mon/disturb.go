package mon

import (
	"bytes"
	"math/big"
	"strings"
	"time"

	"github.com/amzn/ion-go/ion"
)

// disturbSharedState runs library calls that have nothing to do with the property under check but
// might leave something behind in package-level state (lookup tables, caches, pools, memoised
// layouts): timestamps with very long fractions, whole-second timestamps of nanosecond precision
// formatted before fractional ones, big decimals rounded, failing and succeeding Unmarshal calls,
// deep and wide Marshal calls. A monitor calls it at its start and every few hundred cases; what
// it checks afterwards must be unaffected. All results are discarded and panics are swallowed.
func disturbSharedState(seed int64) {
	defer func() { recover() }()
	// binary timestamps whose fraction needs big-integer rounding: 2000-01-01T00:00:00.<digits>Z
	for _, digits := range []string{"5" + strings.Repeat("0", 27), strings.Repeat("9", 30), "1" + strings.Repeat("0", 19), strings.Repeat("4", 63), "05" + strings.Repeat("0", 38)} {
		coef, _ := new(big.Int).SetString(digits, 10)
		cb := coef.Bytes()
		if len(cb) > 0 && cb[0]&0x80 != 0 {
			cb = append([]byte{0}, cb...)
		}
		body := append([]byte{0x80, 0x0F, 0xD0, 0x81, 0x81, 0x80, 0x80, 0x80, 0xC0 | byte(len(digits))}, cb...)
		doc := append([]byte{0xE0, 0x01, 0x00, 0xEA}, tlvBytes(0x6, body)...)
		r := ion.NewReaderBytes(doc)
		for r.Next() {
			r.TimestampValue()
		}
		ion.ParseTimestamp("2000-01-01T00:00:00." + digits + "Z")
	}
	// whole-second timestamps of nanosecond precision and fractional ones, every kind, formatted in turn
	base := time.Date(2001, 2, 3, 4, 5, 6, 0, time.UTC)
	for _, kind := range []ion.TimezoneKind{ion.TimezoneUTC, ion.TimezoneLocal, ion.TimezoneUnspecified} {
		for _, nd := range []uint8{0, 9, 1, 3} {
			t := base.Add(time.Duration(seed%7) * time.Hour)
			if nd > 0 {
				t = t.Add(123456789 * time.Nanosecond)
			}
			ts := ion.NewTimestampWithFractionalSeconds(t, ion.TimestampPrecisionNanosecond, kind, nd)
			_ = ts.String()
			var buf bytes.Buffer
			w := ion.NewTextWriter(&buf)
			w.WriteTimestamp(ts)
			w.Finish()
		}
	}
	// decimals: rounding, truncation and text of large and tiny values
	for _, s := range []string{"1d19", "9999999999999999999999999999.5", "-0d-40", "1.5d-30", "123456789012345678901234567890d63", "5d-1"} {
		if d, err := ion.ParseDecimal(s); err == nil {
			_ = d.String()
			d.Truncate(3)
			d.ShiftL(2)
			d.Add(ion.NewDecimalInt(1))
			d.Cmp(ion.NewDecimalInt(7))
		}
	}
	// Unmarshal calls that fail, then calls that succeed; Marshal of deep and wide values
	var x struct{ A, B int }
	ion.UnmarshalString("{A:1", &x)
	ion.UnmarshalString("\"s\"", &x.A)
	ion.UnmarshalString("{A:1,B:2}", &x)
	var deep interface{} = []interface{}{1}
	for i := 0; i < 200; i++ {
		deep = []interface{}{deep}
	}
	ion.MarshalText(deep)
	ion.MarshalBinary(map[string]interface{}{"k": deep, "t": time.Unix(seed, 0).UTC()})
}

// DisturbSharedState is called by the check driver before a monitor starts.
func DisturbSharedState(seed int64) { disturbSharedState(seed) }
