package mon

import (
	"fmt"
	"math"
	"math/big"
	"strconv"

	"github.com/amzn/ion-go/ion"
)

// c13FloatIntoDecimal: an Ion float unmarshalled into a Decimal is a number changing its Go representation:
// whatever digits are stored, they have to denote that float (or the call has to fail); a conversion that
// goes through a machine integer wraps at the edges of its width.
func c13FloatIntoDecimal(c *Ctx) {
	var fs []float64
	for _, k := range []int{24, 31, 32, 52, 53, 54, 62, 63, 64, 65, 100, 127, 128, 1023} {
		p := math.Ldexp(1, k)
		fs = append(fs, p, -p, math.Nextafter(p, 0), math.Nextafter(p, math.Inf(1)), -math.Nextafter(p, 0), p+1, p-1, 1.5*p)
	}
	fs = append(fs, 0, math.Copysign(0, -1), 1, -1, 0.1, 1e19, 1e22, 1e23, 5e-324, math.MaxFloat64, 1.5, 123456789.125, 9007199254740993)
	for _, f := range fs {
		if math.IsInf(f, 0) || math.IsNaN(f) {
			continue
		}
		lit := strconv.FormatFloat(f, 'e', -1, 64)
		for _, ptr := range []bool{false, true} {
			c.Eval(1)
			c.NonTrivial("float-into-decimal|" + lit)
			var d ion.Decimal
			var dp *ion.Decimal
			var err error
			verdict := func() (v string) {
				defer func() {
					if rec := recover(); rec != nil {
						v = fmt.Sprintf("panic: %v", rec)
					}
				}()
				if ptr {
					err = ion.UnmarshalString(lit, &dp)
					if err == nil && dp != nil {
						d = *dp
					}
				} else {
					err = ion.UnmarshalString(lit, &d)
				}
				if err != nil {
					return "" // refusing is allowed
				}
				co, ex := d.CoEx()
				back, _, perr := big.ParseFloat(fmt.Sprintf("%se%d", co.String(), ex), 10, 2200, big.ToNearestEven)
				if perr != nil {
					return "the Decimal stored cannot be read as a number: " + perr.Error()
				}
				if f64, _ := back.Float64(); f64 != f {
					return fmt.Sprintf("the Decimal stored is %s, which denotes %v", d.String(), f64)
				}
				return ""
			}()
			if verdict != "" {
				numViolate(c, "float-into-decimal", "Unmarshal of a float into a Decimal", []byte(lit), lit, verdict)
			}
		}
	}
	c.Obs("floats_unmarshalled_into_decimals", int64(len(fs)))
}
