package mon

import (
	"bytes"
	"encoding/hex"
	"encoding/json"
	"fmt"
	"math"
	"math/big"
	"math/rand"
	"strings"

	"github.com/amzn/ion-go/ion"

	"verifh/gen"
	"verifh/ionx"
	"verifh/model"
	"verifh/refbin"
	"verifh/reftext"
)

// Writer modes shared by C01, C04, C05, C12, C19.
const (
	ModeText = iota
	ModePretty
	ModePrettyQuiet
	ModeBinary
	NModes
)

var ModeNames = []string{"text", "pretty", "pretty+quiet", "binary"}

func NewWriterMode(mode int, out *bytes.Buffer, ssts ...ion.SharedSymbolTable) ion.Writer {
	switch mode {
	case ModeText:
		return ion.NewTextWriter(out, ssts...)
	case ModePretty:
		return ion.NewTextWriterOpts(out, ion.TextWriterPretty, ssts...)
	case ModePrettyQuiet:
		return ion.NewTextWriterOpts(out, ion.TextWriterPretty|ion.TextWriterQuietFinish, ssts...)
	default:
		return ion.NewBinaryWriter(out, ssts...)
	}
}

// WriteCase is the replayable description of one write-then-judge case.
type WriteCase struct {
	CaseSeed int64          `json:"case_seed"`
	Mode     int            `json:"mode"`
	IntVia   int            `json:"int_via,omitempty"`
	Vals     []*model.Value `json:"vals"`
	Shown    string         `json:"shown"`
	// Shared: the writer is constructed with these shared symbol tables (and the readers get them
	// in their catalog). FinishEvery > 0: Finish is also called after every that many top-level
	// values, so the stream consists of several batches written by one Writer.
	Shared      []SymImport `json:"shared_tables,omitempty"`
	FinishEvery int         `json:"finish_every,omitempty"`
	// SysAt > 0: the caller also lists the system symbol table itself among the tables, at position
	// SysAt-1 (first, as Imports() of a reader's table has it, or further down)
	SysAt int `json:"system_table_listed_at,omitempty"`
}

func (k WriteCase) variant() string {
	s := ""
	if len(k.Shared) > 0 {
		s += "+imports"
	}
	if k.FinishEvery > 0 {
		s += "+batches"
	}
	if k.SysAt == 1 {
		s += "+system-table-listed-first"
	} else if k.SysAt > 1 {
		s += "+system-table-listed-later"
	}
	return s
}

// writeOnce writes vals in the mode and returns the output bytes, or the writer's error.
func writeOnce(k WriteCase) (out []byte, werr error, panicMsg string) {
	defer func() {
		if rec := recover(); rec != nil {
			panicMsg = ionx.PanicSite(rec)
		}
	}()
	var buf bytes.Buffer
	var ssts []ion.SharedSymbolTable
	for _, t := range k.Shared {
		ssts = append(ssts, ion.NewSharedSymbolTable(t.Name, t.Version, t.Symbols))
	}
	if k.SysAt > 0 {
		at := k.SysAt - 1
		if at > len(ssts) {
			at = len(ssts)
		}
		ssts = append(ssts[:at:at], append([]ion.SharedSymbolTable{ion.V1SystemSymbolTable}, ssts[at:]...)...)
	}
	w := NewWriterMode(k.Mode, &buf, ssts...)
	o := &ionx.WriteOpts{Rnd: rand.New(rand.NewSource(k.CaseSeed)), IntVia: k.IntVia, SymbolFromString: true}
	if k.FinishEvery > 0 {
		for i, v := range k.Vals {
			if err := ionx.Write(w, []*model.Value{v}, o); err != nil {
				return nil, err, ""
			}
			if (i+1)%k.FinishEvery == 0 && i+1 < len(k.Vals) {
				if err := w.Finish(); err != nil {
					return nil, fmt.Errorf("Finish (batch): %w", err), ""
				}
			}
		}
	} else if err := ionx.Write(w, k.Vals, o); err != nil {
		return nil, err, ""
	}
	if err := w.Finish(); err != nil {
		return nil, fmt.Errorf("Finish: %w", err), ""
	}
	return buf.Bytes(), nil, ""
}

// judgeC01 reads the output back with ion-go's own Reader.
func judgeC01(k WriteCase, out []byte) string {
	obs := ionx.ReadAll(out)
	if len(k.Shared) > 0 {
		_, ic := catalogOf(k.Shared)
		obs = ionx.ReadAllCat(out, ic)
	}
	if obs.Panic != "" {
		return "reader panic: " + obs.Panic
	}
	if obs.Err != nil {
		return "reader error: " + obs.ErrString()
	}
	if d := model.Diff(k.Vals, obs.Vals); d != "" {
		return "read back differs: " + d
	}
	if len(obs.Soft) > 0 {
		return "accessor inconsistency: " + obs.Soft[0]
	}
	return ""
}

// judgeC04 decodes the output with the independent reference decoders.
func judgeC04(k WriteCase, out []byte) string {
	var got []*model.Value
	var err error
	rc, _ := catalogOf(k.Shared)
	if k.Mode == ModeBinary {
		got, err = refbin.Decode(out, &refbin.DecodeOpts{Catalog: rc})
	} else {
		got, err = reftext.Parse(string(out), &reftext.ParseOpts{Catalog: rc})
	}
	if err != nil {
		return "reference decoder rejects the output: " + err.Error()
	}
	if d := model.Diff(k.Vals, got); d != "" {
		return "reference decoder sees different values: " + d
	}
	return ""
}

func showBytes(mode int, out []byte) string {
	if mode == ModeBinary {
		s := hex.EncodeToString(out)
		if len(s) > 400 {
			s = s[:400] + "…"
		}
		return s
	}
	s := string(out)
	if len(s) > 400 {
		s = s[:400] + "…"
	}
	return s
}

// runWriteCase executes one case under a judge; reports violations.
func runWriteCase(c *Ctx, sub string, k WriteCase, judge func(WriteCase, []byte) string, feats []string) (accepted bool) {
	c.Eval(1)
	out, werr, pm := writeOnce(k)
	if pm != "" {
		c.Violate(sub, "writer-panic:"+Class(pm), "writer panicked: "+pm+" on "+model.FmtAll(k.Vals), k, feats)
		return false
	}
	if werr != nil {
		c.Obs("writer_rejected", 1)
		c.Feat1("writer_rejected:" + Class(werr.Error()))
		return false
	}
	verdict := judge(k, out)
	c.Obs("values_compared", int64(model.Count(k.Vals)))
	if verdict == "" {
		return true
	}
	// minimise
	min := ShrinkVals(k.Vals, func(cand []*model.Value) bool {
		kk := k
		kk.Vals = cand
		o2, e2, p2 := writeOnce(kk)
		if p2 != "" || e2 != nil {
			return false
		}
		return judge(kk, o2) != ""
	})
	kk := k
	kk.Vals = min
	o2, _, _ := writeOnce(kk)
	v2 := judge(kk, o2)
	if v2 == "" { // shrinking lost it (should not happen)
		kk, o2, v2 = k, out, verdict
	}
	kk.Shown = showBytes(kk.Mode, o2)
	fp := ModeFamily(k.Mode) + k.variant() + ":" + Shape(kk.Vals) + ":" + Class(v2)
	c.Violate(sub, fp, fmt.Sprintf("mode=%s%s values=%s output=%s :: %s", ModeNames[k.Mode], k.variant(), model.FmtAll(kk.Vals), kk.Shown, v2), kk, feats)
	return true
}

func ModeFamily(mode int) string {
	if mode == ModeBinary {
		return "binary"
	}
	return "text"
}

func featList(m map[string]int) []string {
	var out []string
	for k := range m {
		out = append(out, k)
	}
	return out
}

func interesting(feat map[string]int) bool {
	for f := range feat {
		if strings.HasPrefix(f, "int:boundary") || strings.HasPrefix(f, "len:") || strings.HasPrefix(f, "text:reserved") ||
			strings.HasPrefix(f, "sym:") || strings.HasPrefix(f, "annot:") || strings.HasPrefix(f, "float:special") ||
			strings.HasPrefix(f, "dec:") || strings.HasPrefix(f, "ts:") || strings.HasPrefix(f, "null:") || strings.HasPrefix(f, "text:non-ascii") {
			return true
		}
	}
	return false
}

func hasContainer(vals []*model.Value) bool {
	for _, v := range vals {
		if v.Kind.IsContainer() {
			return true
		}
	}
	return false
}

// GridCases returns the deterministic boundary grid used by C01/C04.
func GridCases(thorough bool) []WriteCase {
	var out []WriteCase
	add := func(via int, vals ...*model.Value) {
		for _, v := range vals {
			if !gen.TopLevelOK(v) {
				return
			}
		}
		for m := 0; m < NModes; m++ {
			if m == ModePrettyQuiet {
				continue
			}
			out = append(out, WriteCase{CaseSeed: 1, Mode: m, IntVia: via, Vals: vals})
		}
	}
	// integers around every power of two up to 2^80, every entry point
	for kbits := 0; kbits <= 80; kbits++ {
		for _, d := range []int64{-1, 0, 1} {
			for _, sg := range []int{1, -1} {
				n := new(big.Int).Lsh(big.NewInt(1), uint(kbits))
				n.Add(n, big.NewInt(d))
				if sg < 0 {
					n.Neg(n)
				}
				for via := 1; via <= 3; via++ {
					if via == 1 && !n.IsInt64() || via == 2 && !n.IsUint64() {
						continue
					}
					add(via, model.IntV(n))
				}
			}
		}
	}
	// integers whose magnitude takes 13/14, 63/64/65, 127/128 and thousands of bytes, alone and in a run
	// (the driver changes its big.Int in place after every WriteBigInt call)
	var run []*model.Value
	for _, kbits := range []uint{96, 104, 112, 496, 503, 504, 505, 512, 520, 1016, 1024, 4096, 40000} {
		for _, d := range []int64{-1, 0, 1} {
			n := new(big.Int).Lsh(big.NewInt(1), kbits)
			n.Add(n, big.NewInt(d))
			add(3, model.IntV(n))
			add(3, model.IntV(new(big.Int).Neg(n)))
			if d == 0 && kbits <= 1024 {
				run = append(run, model.IntV(n), model.IntV(new(big.Int).Neg(n)))
			}
		}
	}
	add(3, run...)
	add(3, model.ListV(model.CloneAll(run)...), model.StructV(model.IntV(new(big.Int).Lsh(big.NewInt(1), 600)).WithField(model.T("n"))))
	lens := []int{0, 1, 2, 12, 13, 14, 15, 16, 63, 64, 65, 126, 127, 128, 129}
	if thorough {
		lens = append(lens, 16382, 16383, 16384, 16385, 2097151, 2097152)
	} else {
		lens = append(lens, 16383, 16384)
	}
	for _, L := range lens {
		add(0, model.StrV(strings.Repeat("x", L)))
		add(0, model.ClobV(bytes.Repeat([]byte{'c'}, L)))
		add(0, model.BlobV(bytes.Repeat([]byte{0xAB}, L)))
		add(0, model.SymV(model.T(strings.Repeat("s", L))))
		if L <= 20000 {
			l := model.ListV()
			s := model.SexpV()
			st := model.StructV()
			for i := 0; i < L; i++ {
				l.Kids = append(l.Kids, model.Int64V(int64(i%100)))
				s.Kids = append(s.Kids, model.BoolV(i%2 == 0))
				st.Kids = append(st.Kids, model.NullV(model.Null).WithField(model.T("f")))
			}
			add(0, l)
			add(0, s)
			add(0, st)
		}
		if L >= 1 && L <= 200 {
			// annotation wrapper whose total length crosses 13/14 and 127/128
			v := model.Int64V(5)
			for i := 0; i < L; i++ {
				v.Ann = append(v.Ann, model.T("a"))
			}
			add(0, v)
			// wrapper around a string body of L bytes
			add(0, model.StrV(strings.Repeat("y", L)).WithAnn(model.T("a")))
		}
	}
	// a character that needs a long escape after every number of plain bytes 0..200 (text writers
	// that collect output in fixed-size pieces), in strings, symbols, field names and annotations
	for k := 0; k <= 200; k++ {
		t := strings.Repeat("a", k) + "\x01" + "zz \x1f\"end"
		add(0, model.StrV(t), model.SymV(model.T(t)), model.StructV(model.Int64V(1).WithField(model.T(t)).WithAnn(model.T(t))), model.ClobV([]byte(strings.Repeat("c", k)+"\x01\xff\x80 end")))
	}
	// floats just beyond the float32 range that have few significant bits (binary writers narrow
	// to 32 bits when that is lossless)
	for _, f := range []float64{math.Ldexp(1, 128), math.Ldexp(1.5, 128), 2 * math.MaxFloat32, math.Ldexp(1, 129), math.Ldexp(1, 127), math.MaxFloat32, math.Ldexp(1, -149), math.Ldexp(1, -150), math.Ldexp(1, -126), math.Ldexp(1.5, -127)} {
		add(0, model.FloatV(f), model.FloatV(-f), model.ListV(model.FloatV(f)))
	}
	// many distinct symbols: symbol ids cross the one/two/three-byte boundaries (127/128, 16383/16384)
	// in every position an id is written (value, field name, annotation)
	for _, ns := range []int{130, 16400} {
		st := model.StructV()
		l := model.ListV()
		for i := 0; i < ns; i++ {
			t := fmt.Sprintf("sym_%d", i)
			st.Kids = append(st.Kids, model.Int64V(int64(i)).WithField(model.T(t)))
			if i%3 == 0 || (i > 100 && i < 125) || i > ns-30 {
				l.Kids = append(l.Kids, model.SymV(model.T(t)).WithAnn(model.T(t)))
			}
		}
		for m := 0; m < NModes; m++ {
			if m == ModePrettyQuiet || (ns > 1000 && m != ModeBinary) {
				continue
			}
			out = append(out, WriteCase{CaseSeed: 1, Mode: m, Vals: []*model.Value{st, l, model.SymV(model.T(fmt.Sprintf("sym_%d", ns-1)))}})
		}
	}
	// "$n" both ways on one writer: through WriteSymbolFromString it is the id n (the driver takes that
	// road for system words and for $0 on some seeds), as the text of a token it is that text
	for seed := int64(1); seed <= 12; seed++ {
		for n, word := range []string{"name", "version", "imports", "symbols", "max_id"} {
			lit := fmt.Sprintf("$%d", n+4)
			docs := [][]*model.Value{
				{model.SymV(model.T(word)), model.Int64V(1).WithAnn(model.T(lit)), model.StructV(model.Int64V(2).WithField(model.T(lit))), model.SymV(model.T(lit)), model.SymV(model.T(word))},
				{model.SymV(model.T(lit)), model.SymV(model.T(word)), model.SymV(model.T(lit)), model.ListV(model.SymV(model.T(word)).WithAnn(model.T(lit)))},
				{model.SymV(model.SID(0)), model.SymV(model.T("$0")), model.Int64V(1).WithAnn(model.T("$0")), model.SymV(model.SID(0))},
			}
			for di, d := range docs {
				if di == 2 && n > 0 {
					continue
				}
				for m := 0; m < NModes; m++ {
					if m == ModePrettyQuiet {
						continue
					}
					out = append(out, WriteCase{CaseSeed: seed, Mode: m, Vals: d})
				}
			}
		}
	}
	// runs of lobs (their arguments are cut out of one buffer as adjacent sub-slices for some seeds)
	for seed := int64(1); seed <= 8; seed++ {
		for _, n := range []int{1, 63, 64, 65, 100, 300} {
			mk := func(b byte) []byte { return bytes.Repeat([]byte{b}, n) }
			for m := 0; m < NModes; m++ {
				if m == ModePrettyQuiet {
					continue
				}
				out = append(out, WriteCase{CaseSeed: seed, Mode: m, Vals: []*model.Value{model.BlobV(mk('a')), model.BlobV(mk('b')), model.ClobV(mk('c')), model.Int64V(1),
					model.ListV(model.BlobV(mk('d')), model.ClobV(mk('e')), model.BlobV(mk('f'))), model.StructV(model.BlobV(mk('g')).WithField(model.T("x")), model.BlobV(mk('h')).WithField(model.T("y")))}})
			}
		}
	}
	// nested payloads: the encoded size of an inner container or wrapper crosses each boundary of the
	// binary length encoding (14, 2^7, 2^14, 2^21) while an outer container has to account for it
	for _, B := range []int{14, 128, 16384, 2097152} {
		for delta := -7; delta <= 2; delta++ {
			L := B + delta
			if L < 0 {
				continue
			}
			nested := [][]*model.Value{
				{model.ListV(model.ListV(model.StrV(strings.Repeat("n", L))), model.Int64V(0)), model.SymV(model.T("after"))},
				{model.StructV(model.SexpV(model.BlobV(bytes.Repeat([]byte{0xCD}, L))).WithField(model.T("f")).WithAnn(model.T("a")), model.Int64V(1).WithField(model.T("g"))), model.Int64V(7)},
			}
			for _, vs := range nested {
				if B > 20000 {
					out = append(out, WriteCase{CaseSeed: 1, Mode: ModeBinary, Vals: vs})
				} else {
					add(0, vs...)
				}
			}
		}
	}
	// every kind x {plain, annotated} incl. typed nulls, inside each container kind
	g := gen.New(7)
	for _, k := range gen.AllKinds {
		for _, null := range []bool{false, true} {
			var v *model.Value
			if null {
				v = model.NullV(k)
			} else {
				for {
					v = g.OfKind(k, 3)
					if !v.IsNull || k == model.Null {
						break
					}
				}
			}
			add(0, v.Clone())
			add(0, v.Clone().WithAnn(model.T("a")))
			add(0, v.Clone().WithAnn(model.T("a"), model.T("$5"), model.T("")))
			add(0, model.ListV(v.Clone().WithAnn(model.T("x"))))
			add(0, model.StructV(v.Clone().WithAnn(model.T("x")).WithField(model.T("$5")), v.Clone().WithField(model.T("null"))))
			add(0, model.SexpV(v.Clone(), v.Clone().WithAnn(model.T("+"))))
		}
	}
	add(0, model.BoolV(true).WithAnn(model.T("a")))
	add(0, model.BoolV(false).WithAnn(model.T("a")))
	// reserved-looking symbol text in every symbol position
	for _, t := range gen.ReservedTexts {
		add(0, model.SymV(model.T(t)))
		add(0, model.Int64V(1).WithAnn(model.T(t)))
		add(0, model.StructV(model.Int64V(1).WithField(model.T(t))))
		add(0, model.SexpV(model.SymV(model.T(t)), model.SymV(model.T(t))))
	}
	for _, vs := range LookalikeStreams() {
		add(0, vs...)
	}
	// a top-level symbol whose text is the version-marker text (text modes: it has to be quoted;
	// in binary a top-level symbol with that id is left out, its status is not settled)
	for _, m := range []int{ModeText, ModePretty} {
		out = append(out, WriteCase{CaseSeed: 1, Mode: m, Vals: []*model.Value{model.Int64V(1), model.SymV(model.T("$ion_1_0")), model.SymV(model.T("$ion_1_0")).WithAnn(model.T("a"))}})
	}
	// nesting depth
	depths := []int{1, 2, 5, 13, 14, 15, 40}
	if thorough {
		depths = append(depths, 200, 1000)
	}
	for _, d := range depths {
		for s := int64(0); s < 2; s++ {
			add(0, gen.New(100+s).DeepNest(d))
		}
	}
	return out
}

func runWriteMonitor(c *Ctx, sub string, judge func(WriteCase, []byte) string) {
	n := c.N(3000, 150000)
	accepted := int64(0)
	var accMu = make(chan struct{}, 1)
	accMu <- struct{}{}
	c.Parallel(n, func(w, i int) {
		cs := c.Seed*1_000_003 + int64(i)
		g := gen.New(cs)
		if c.Thorough() && i%50 == 0 {
			g.MaxLen = 17000
		}
		if i%40 == 0 {
			g.MaxDepth = 12
		}
		vals := g.Stream()
		c.Feat(g.Feat)
		nt := (len(vals) >= 2 || hasContainer(vals)) && interesting(g.Feat)
		for m := 0; m < NModes; m++ {
			k := WriteCase{CaseSeed: cs, Mode: m, Vals: vals}
			c.JournalCase(w, fmt.Sprintf("%s case_seed=%d mode=%d", sub, cs, m))
			if runWriteCase(c, sub, k, judge, featList(g.Feat)) {
				<-accMu
				accepted++
				accMu <- struct{}{}
				if nt {
					c.NonTrivial(fmt.Sprintf("%d|%s", m, model.FmtAll(vals)))
				}
			}
		}
		// the same stream through writers constructed with shared symbol tables and/or finished
		// in several batches
		r := rand.New(rand.NewSource(cs ^ 0x5bd1e995))
		for rep := 0; rep < 3; rep++ {
			k := WriteCase{CaseSeed: cs, Mode: []int{ModeText, ModePretty, ModeBinary, ModePrettyQuiet}[(i+rep)%4], Vals: vals}
			if rep != 1 {
				k.Shared = sharedFor(r, vals)
			}
			if rep != 0 && len(vals) > 1 {
				k.FinishEvery = 1 + r.Intn(3)
			}
			if r.Intn(3) == 0 {
				k.SysAt = 1 + r.Intn(len(k.Shared)+1)
			}
			if len(k.Shared) == 0 && k.FinishEvery == 0 && k.SysAt == 0 {
				continue
			}
			c.Feat1("writer" + k.variant())
			c.JournalCase(w, fmt.Sprintf("%s case_seed=%d mode=%d%s", sub, cs, k.Mode, k.variant()))
			if runWriteCase(c, sub, k, judge, featList(g.Feat)) && nt {
				c.NonTrivial(fmt.Sprintf("%d%s|%s", k.Mode, k.variant(), model.FmtAll(vals)))
			}
		}
		if i < 3 {
			c.Sample(map[string]interface{}{"values": model.FmtAll(vals), "modes": ModeNames})
		}
	})
	grid := GridCases(c.Thorough())
	c.Parallel(len(grid), func(w, i int) {
		k := grid[i]
		c.JournalCase(w, fmt.Sprintf("%s grid=%d mode=%d", sub, i, k.Mode))
		if runWriteCase(c, sub+"-grid", k, judge, []string{"grid"}) {
			c.NonTrivial(fmt.Sprintf("g%d|%d|%d", i, k.Mode, k.IntVia))
		}
	})
	c.Obs("grid_cases", int64(len(grid)))
	c.Obs("streams_accepted_by_writer", accepted)
	c.Exhaustive("boundary grid: ints ±(2^k+{-1,0,1}) k<=80 x every writer entry point; payload/container/annotation-wrapper lengths at 13/14, 63/64, 127/128, 16383/16384; every kind x typed null x annotated x container position; every reserved-looking symbol text x symbol position")
	if accepted == 0 {
		c.Inconclusive("no stream was accepted by the writer")
	}
}

// sharedFor derives one or two shared tables that carry some of the stream's symbol texts (and
// some texts it does not use, and a text in both tables).
func sharedFor(r *rand.Rand, vals []*model.Value) []SymImport {
	texts := model.SymbolTexts(vals)
	var a, b []string
	for _, t := range texts {
		if t == "" {
			continue
		}
		switch r.Intn(4) {
		case 0:
			a = append(a, t)
		case 1:
			b = append(b, t)
		case 2:
			a = append(a, t)
			b = append(b, t)
		}
	}
	a = append(a, "only_in_shared_a")
	out := []SymImport{{Name: "sa", Version: 1 + r.Intn(3), Symbols: a, MaxID: -1}}
	if r.Intn(2) == 0 {
		b = append([]string{"only_in_shared_b"}, b...)
		out = append(out, SymImport{Name: "sb", Version: 1, Symbols: b, MaxID: -1})
	}
	return out
}

func replayWrite(judge func(WriteCase, []byte) string) func(c *Ctx, v *Violation) string {
	return func(c *Ctx, v *Violation) string {
		var k WriteCase
		if err := json.Unmarshal(v.Case, &k); err != nil {
			return "cannot decode case: " + err.Error()
		}
		out, werr, pm := writeOnce(k)
		if pm != "" {
			return "writer panicked: " + pm
		}
		if werr != nil {
			return "writer error: " + werr.Error()
		}
		verdict := judge(k, out)
		if verdict == "" {
			return "HELD on replay (output " + showBytes(k.Mode, out) + ")"
		}
		return "VIOLATED on replay: " + verdict + " (output " + showBytes(k.Mode, out) + ")"
	}
}

func init() {
	Register(&Monitor{ID: "C01", Run: func(c *Ctx) {
		c.Rule = "seeded boundary-biased value streams written through the Writer API in 4 modes (text, pretty, pretty+quiet, binary) and read back by ion-go's Reader; the same streams also through writers constructed with one or two shared symbol tables (readers given the catalog) and/or finished in several batches (Finish after every 1..3 top-level values), a third of them with the system symbol table itself listed among the tables (first or further down); arguments that stay the caller's (lob sub-slices of one buffer, annotation slices recycled or with spare capacity, a big.Int changed in place after the call, one token object re-used); WriteSymbolFromString for text and for ids ($n); plus a deterministic boundary grid (integers of 13..5000 bytes, the same $n string as id and as text on one writer, nested payloads whose encoded size crosses 14, 2^7, 2^14 and 2^21, and streams that resemble symbol tables and version markers without being any). Non-trivial: stream has >=2 values or a container and carries a boundary/reserved-text/annotation/typed-null feature; distinct by (mode, canonical model text)."
		c.Assume("model.Diff implements Ion data-model equivalence; the driver makes only legal Writer calls")
		runWriteMonitor(c, "roundtrip", judgeC01)
	}, Replay: replayWrite(judgeC01)})
}
