package mon

import (
	"verifh/model"
	"verifh/refbin"
	"verifh/refsym"
)

// encodeLSTDoc encodes "<local symbol table> 0" in binary with the reference encoder
// (nil when the model rejects the table).
func encodeLSTDoc(spec refsym.LSTSpec, cat refsym.Catalog) []byte {
	e := refbin.NewEncoder(nil, cat)
	e.AppendLST(spec, nil)
	e.AppendValue(model.Int64V(0))
	if e.Err != nil {
		return nil
	}
	return e.Out
}
