package mon

import (
	"reflect"

	"github.com/amzn/ion-go/ion"

	"verifh/model"
)

// Types that write themselves (ion.Marshaler): Marshal has to call MarshalIon wherever such a value
// occurs (top level, fields, elements, map values, behind pointers and interfaces) and embed exactly
// what it wrote.

// MarshVal has a value receiver: it writes marsh::"<S>".
type MarshVal struct{ S string }

func (m MarshVal) MarshalIon(w ion.Writer) error {
	if err := w.Annotation(ion.NewSymbolTokenFromString("marsh")); err != nil {
		return err
	}
	return w.WriteString(m.S)
}

// MarshPtr has a pointer receiver (used behind pointers only): it writes {p:<N>, q:[<N>]}.
type MarshPtr struct{ N int }

func (m *MarshPtr) MarshalIon(w ion.Writer) error {
	if err := w.BeginStruct(); err != nil {
		return err
	}
	w.FieldName(ion.NewSymbolTokenFromString("p"))
	w.WriteInt(int64(m.N))
	w.FieldName(ion.NewSymbolTokenFromString("q"))
	w.BeginList()
	w.WriteInt(int64(m.N))
	w.EndList()
	return w.EndStruct()
}

var (
	tMarshVal    = reflect.TypeOf(MarshVal{})
	tMarshPtrPtr = reflect.TypeOf(&MarshPtr{})
)

func marshalerImage(v reflect.Value) (*model.Value, bool) {
	switch v.Type() {
	case tMarshVal:
		return model.StrV(v.Field(0).String()).WithAnn(model.T("marsh")), true
	case tMarshPtrPtr:
		if v.IsNil() {
			return nil, false
		}
		n := v.Elem().Field(0).Int()
		return model.StructV(model.Int64V(n).WithField(model.T("p")), model.ListV(model.Int64V(n)).WithField(model.T("q"))), true
	}
	return nil, false
}

// MarshHolder puts them everywhere.
type MarshHolder struct {
	V   MarshVal             `ion:"v"`
	PV  *MarshVal            `ion:"pv"`
	P   *MarshPtr            `ion:"p"`
	L   []MarshVal           `ion:"l"`
	LP  []*MarshPtr          `ion:"lp"`
	M   map[string]MarshVal  `ion:"m"`
	MP  map[string]*MarshPtr `ion:"mp"`
	Any interface{}          `ion:"any"`
	N   int                  `ion:"n"`
}

func typeHasMarshaler(t reflect.Type, depth int) bool {
	if t == tMarshVal || t == tMarshPtrPtr || t == reflect.TypeOf(MarshHolder{}) {
		return true
	}
	if depth > 6 {
		return false
	}
	switch t.Kind() {
	case reflect.Ptr, reflect.Slice, reflect.Array, reflect.Map:
		return typeHasMarshaler(t.Elem(), depth+1)
	case reflect.Struct:
		for i := 0; i < t.NumField(); i++ {
			if typeHasMarshaler(t.Field(i).Type, depth+1) {
				return true
			}
		}
	}
	return false
}

func marshalerValues() []interface{} {
	p1, p2 := &MarshPtr{7}, &MarshPtr{-3}
	mv := MarshVal{"x y"}
	return []interface{}{
		MarshVal{"top"}, &mv, p1,
		[]MarshVal{{"a"}, {""}, {"c"}}, []*MarshPtr{p1, p2}, [2]MarshVal{{"1"}, {"2"}},
		map[string]MarshVal{"k": {"v"}}, map[string]*MarshPtr{"k": p2},
		MarshHolder{V: MarshVal{"v"}, PV: &mv, P: p1, L: []MarshVal{{"l"}}, LP: []*MarshPtr{p2}, M: map[string]MarshVal{"a": {"m"}}, MP: map[string]*MarshPtr{"b": p1}, Any: MarshVal{"any"}, N: 9},
		&MarshHolder{V: MarshVal{"v2"}, Any: p2},
		struct {
			A MarshVal
			B *MarshPtr `ion:"b,omitempty"`
		}{MarshVal{"s"}, nil},
	}
}
