// Package model is an independent Ion data model used by every monitor.
// It imports nothing from ion-go.
package model

import (
	"bytes"
	"encoding/hex"
	"fmt"
	"math"
	"math/big"
	"sort"
	"strings"
)

type Kind int

const (
	Null Kind = iota
	Bool
	Int
	Float
	Decimal
	Timestamp
	Symbol
	String
	Clob
	Blob
	List
	Sexp
	Struct
)

var KindNames = []string{"null", "bool", "int", "float", "decimal", "timestamp", "symbol", "string", "clob", "blob", "list", "sexp", "struct"}

func (k Kind) String() string {
	if int(k) < len(KindNames) && k >= 0 {
		return KindNames[k]
	}
	return fmt.Sprintf("kind(%d)", int(k))
}

func (k Kind) IsContainer() bool { return k == List || k == Sexp || k == Struct }

// Sym is a symbol token: text known, or unknown text with a symbol id ($0, $n placeholder).
type Sym struct {
	Text    string
	HasText bool
	SID     int64 // meaningful only when !HasText
}

func T(text string) Sym  { return Sym{Text: text, HasText: true} }
func SID(id int64) Sym   { return Sym{SID: id} }
func (s Sym) String() string {
	if s.HasText {
		return fmt.Sprintf("%q", s.Text)
	}
	return fmt.Sprintf("$%d", s.SID)
}

func (s Sym) Equal(o Sym) bool {
	if s.HasText != o.HasText {
		return false
	}
	if s.HasText {
		return s.Text == o.Text
	}
	return s.SID == o.SID
}

// Dec is coefficient * 10^Exp, with an explicit negative-zero flag (Coef == 0 then).
type Dec struct {
	Coef    *big.Int
	Exp     int32
	NegZero bool
}

func (d Dec) String() string {
	c := "0"
	if d.Coef != nil {
		c = d.Coef.String()
	}
	if d.NegZero {
		c = "-0"
	}
	return fmt.Sprintf("%sd%d", c, d.Exp)
}

func (d Dec) Equal(o Dec) bool {
	a, b := d.Coef, o.Coef
	if a == nil {
		a = new(big.Int)
	}
	if b == nil {
		b = new(big.Int)
	}
	return a.Cmp(b) == 0 && d.Exp == o.Exp && d.NegZero == o.NegZero
}

// Timestamp precisions.
const (
	PYear = 1 + iota
	PMonth
	PDay
	PMinute
	PSecond // FracDigits may be 0..9 (or more in C15's fine-fraction sub-check)
)

// TS holds the *local* calendar fields as written in Ion text, the offset and the precision.
type TS struct {
	Y, M, D    int
	H, Mi, S   int
	Nanos      int // fraction in nanoseconds; multiple of 10^(9-FracDigits)
	FracDigits int
	Prec       int
	OffKnown   bool
	OffMin     int // minutes east of UTC; 0 when !OffKnown
	// AnyFrac: the value stands for something that has no precision of its own (a Go time.Time): any
	// number of fraction digits that carries Nanos exactly denotes it
	AnyFrac bool `json:"any_frac,omitempty"`
}

func (t TS) String() string {
	var b strings.Builder
	fmt.Fprintf(&b, "%04d", t.Y)
	if t.Prec >= PMonth {
		fmt.Fprintf(&b, "-%02d", t.M)
	}
	if t.Prec >= PDay {
		fmt.Fprintf(&b, "-%02d", t.D)
	}
	b.WriteByte('T')
	if t.Prec >= PMinute {
		fmt.Fprintf(&b, "%02d:%02d", t.H, t.Mi)
		if t.Prec >= PSecond {
			fmt.Fprintf(&b, ":%02d", t.S)
			if t.FracDigits > 0 {
				fr := fmt.Sprintf("%09d", t.Nanos)
				if t.FracDigits <= 9 {
					fr = fr[:t.FracDigits]
				}
				b.WriteString("." + fr)
			}
		}
		if !t.OffKnown {
			b.WriteString("-00:00")
		} else if t.OffMin == 0 {
			b.WriteString("Z")
		} else {
			o := t.OffMin
			sg := '+'
			if o < 0 {
				sg = '-'
				o = -o
			}
			fmt.Fprintf(&b, "%c%02d:%02d", sg, o/60, o%60)
		}
	}
	return b.String()
}

func (t TS) Equal(o TS) bool {
	if t.AnyFrac || o.AnyFrac {
		exact := func(x TS) bool {
			p := 1
			for i := x.FracDigits; i < 9; i++ {
				p *= 10
			}
			return x.FracDigits >= 0 && x.FracDigits <= 9 && x.Nanos%p == 0
		}
		a, b := t, o
		a.FracDigits, b.FracDigits, a.AnyFrac, b.AnyFrac = 0, 0, false, false
		return a == b && exact(t) && exact(o)
	}
	return t == o
}

// Value is one Ion value.
type Value struct {
	Kind   Kind
	IsNull bool
	Ann    []Sym
	Field  *Sym // set for direct children of structs

	B     bool
	I     *big.Int
	F     uint64 // float64 bits
	D     Dec
	T     TS
	Sy    Sym
	S     string
	Bytes []byte
	Kids  []*Value
}

// ---- constructors ----

func NullV(k Kind) *Value           { return &Value{Kind: k, IsNull: true} }
func BoolV(b bool) *Value           { return &Value{Kind: Bool, B: b} }
func IntV(i *big.Int) *Value        { return &Value{Kind: Int, I: new(big.Int).Set(i)} }
func Int64V(i int64) *Value         { return &Value{Kind: Int, I: big.NewInt(i)} }
func FloatV(f float64) *Value       { return &Value{Kind: Float, F: math.Float64bits(f)} }
func FloatBitsV(b uint64) *Value    { return &Value{Kind: Float, F: b} }
func DecV(d Dec) *Value             { return &Value{Kind: Decimal, D: d} }
func TSV(t TS) *Value               { return &Value{Kind: Timestamp, T: t} }
func SymV(s Sym) *Value             { return &Value{Kind: Symbol, Sy: s} }
func StrV(s string) *Value          { return &Value{Kind: String, S: s} }
func ClobV(b []byte) *Value         { return &Value{Kind: Clob, Bytes: append([]byte{}, b...)} }
func BlobV(b []byte) *Value         { return &Value{Kind: Blob, Bytes: append([]byte{}, b...)} }
func ListV(kids ...*Value) *Value   { return &Value{Kind: List, Kids: kids} }
func SexpV(kids ...*Value) *Value   { return &Value{Kind: Sexp, Kids: kids} }
func StructV(kids ...*Value) *Value { return &Value{Kind: Struct, Kids: kids} }

func (v *Value) WithAnn(a ...Sym) *Value { v.Ann = append(v.Ann, a...); return v }
func (v *Value) WithField(f Sym) *Value  { v.Field = &f; return v }

// Clone makes a deep copy.
func (v *Value) Clone() *Value {
	if v == nil {
		return nil
	}
	c := *v
	c.Ann = append([]Sym(nil), v.Ann...)
	if v.Field != nil {
		f := *v.Field
		c.Field = &f
	}
	if v.I != nil {
		c.I = new(big.Int).Set(v.I)
	}
	if v.D.Coef != nil {
		c.D.Coef = new(big.Int).Set(v.D.Coef)
	}
	c.Bytes = append([]byte(nil), v.Bytes...)
	c.Kids = nil
	for _, k := range v.Kids {
		c.Kids = append(c.Kids, k.Clone())
	}
	return &c
}

func CloneAll(vs []*Value) []*Value {
	out := make([]*Value, len(vs))
	for i, v := range vs {
		out[i] = v.Clone()
	}
	return out
}

func floatEq(a, b uint64) bool {
	fa, fb := math.Float64frombits(a), math.Float64frombits(b)
	if math.IsNaN(fa) && math.IsNaN(fb) {
		return true
	}
	return a == b
}

// EqOpts tunes equivalence.
type EqOpts struct {
	UnorderedStructs bool // compare struct fields as multisets
}

// Diff returns "" when the sequences are Ion-equivalent, else a description of the first difference.
func Diff(a, b []*Value) string { return DiffOpt(a, b, EqOpts{}) }

func DiffOpt(a, b []*Value, o EqOpts) string { return diffSeq("", a, b, o) }

func diffSeq(path string, a, b []*Value, o EqOpts) string {
	n := len(a)
	if len(b) < n {
		n = len(b)
	}
	for i := 0; i < n; i++ {
		if d := diffVal(fmt.Sprintf("%s/%d", path, i), a[i], b[i], o); d != "" {
			return d
		}
	}
	if len(a) != len(b) {
		return fmt.Sprintf("%s: length %d vs %d", path, len(a), len(b))
	}
	return ""
}

func diffSyms(path, what string, a, b []Sym) string {
	if len(a) != len(b) {
		return fmt.Sprintf("%s: %s count %d vs %d (%v vs %v)", path, what, len(a), len(b), a, b)
	}
	for i := range a {
		if !a[i].Equal(b[i]) {
			return fmt.Sprintf("%s: %s[%d] %v vs %v", path, what, i, a[i], b[i])
		}
	}
	return ""
}

func diffVal(path string, a, b *Value, o EqOpts) string {
	if a.Kind != b.Kind {
		return fmt.Sprintf("%s: kind %v vs %v", path, a.Kind, b.Kind)
	}
	if a.IsNull != b.IsNull {
		return fmt.Sprintf("%s: null %v vs %v (%v)", path, a.IsNull, b.IsNull, a.Kind)
	}
	if (a.Field == nil) != (b.Field == nil) {
		return fmt.Sprintf("%s: field name presence %v vs %v", path, a.Field != nil, b.Field != nil)
	}
	if a.Field != nil && !a.Field.Equal(*b.Field) {
		return fmt.Sprintf("%s: field name %v vs %v", path, *a.Field, *b.Field)
	}
	if d := diffSyms(path, "annotation", a.Ann, b.Ann); d != "" {
		return d
	}
	if a.IsNull {
		return ""
	}
	switch a.Kind {
	case Bool:
		if a.B != b.B {
			return fmt.Sprintf("%s: bool %v vs %v", path, a.B, b.B)
		}
	case Int:
		if a.I == nil || b.I == nil || a.I.Cmp(b.I) != 0 {
			return fmt.Sprintf("%s: int %v vs %v", path, a.I, b.I)
		}
	case Float:
		if !floatEq(a.F, b.F) {
			return fmt.Sprintf("%s: float bits %016x (%v) vs %016x (%v)", path, a.F, math.Float64frombits(a.F), b.F, math.Float64frombits(b.F))
		}
	case Decimal:
		if !a.D.Equal(b.D) {
			return fmt.Sprintf("%s: decimal %v vs %v", path, a.D, b.D)
		}
	case Timestamp:
		if !a.T.Equal(b.T) {
			return fmt.Sprintf("%s: timestamp %v %+v vs %v %+v", path, a.T, a.T, b.T, b.T)
		}
	case Symbol:
		if !a.Sy.Equal(b.Sy) {
			return fmt.Sprintf("%s: symbol %v vs %v", path, a.Sy, b.Sy)
		}
	case String:
		if a.S != b.S {
			return fmt.Sprintf("%s: string %q vs %q", path, trunc(a.S), trunc(b.S))
		}
	case Clob, Blob:
		if !bytes.Equal(a.Bytes, b.Bytes) {
			return fmt.Sprintf("%s: %v bytes %s vs %s", path, a.Kind, trunc(hex.EncodeToString(a.Bytes)), trunc(hex.EncodeToString(b.Bytes)))
		}
	case List, Sexp:
		return diffSeq(path, a.Kids, b.Kids, o)
	case Struct:
		if !o.UnorderedStructs {
			return diffSeq(path, a.Kids, b.Kids, o)
		}
		if len(a.Kids) != len(b.Kids) {
			return fmt.Sprintf("%s: struct field count %d vs %d", path, len(a.Kids), len(b.Kids))
		}
		used := make([]bool, len(b.Kids))
	outer:
		for i, ka := range a.Kids {
			// (the same position first: the usual case, and what keeps large structs linear)
			if !used[i] && diffVal("", ka, b.Kids[i], o) == "" {
				used[i] = true
				continue
			}
			for j, kb := range b.Kids {
				if used[j] || (ka.Field != nil && kb.Field != nil && !ka.Field.Equal(*kb.Field)) {
					continue
				}
				if diffVal("", ka, kb, o) == "" {
					used[j] = true
					continue outer
				}
			}
			return fmt.Sprintf("%s: struct field #%d (%s) has no counterpart", path, i, Fmt(ka))
		}
	}
	return ""
}

func trunc(s string) string {
	if len(s) > 80 {
		return s[:40] + "…" + s[len(s)-30:] + fmt.Sprintf("(len %d)", len(s))
	}
	return s
}

// Equal reports Ion equivalence of two sequences.
func Equal(a, b []*Value) bool { return Diff(a, b) == "" }

// Fmt renders a value in a compact diagnostic notation (not necessarily valid Ion).
func Fmt(v *Value) string {
	var b strings.Builder
	fmtVal(&b, v)
	return b.String()
}

func FmtAll(vs []*Value) string {
	var b strings.Builder
	for i, v := range vs {
		if i > 0 {
			b.WriteByte(' ')
		}
		fmtVal(&b, v)
	}
	return b.String()
}

func fmtVal(b *strings.Builder, v *Value) {
	if v.Field != nil {
		b.WriteString(v.Field.String() + ":")
	}
	for _, a := range v.Ann {
		b.WriteString(a.String() + "::")
	}
	if v.IsNull {
		b.WriteString("null." + v.Kind.String())
		return
	}
	switch v.Kind {
	case Null:
		b.WriteString("null")
	case Bool:
		fmt.Fprintf(b, "%v", v.B)
	case Int:
		s := v.I.String()
		b.WriteString(trunc(s))
	case Float:
		fmt.Fprintf(b, "f:%016x", v.F)
	case Decimal:
		b.WriteString(trunc(v.D.String()))
	case Timestamp:
		b.WriteString(v.T.String())
	case Symbol:
		b.WriteString("sym:" + v.Sy.String())
	case String:
		fmt.Fprintf(b, "%q", trunc(v.S))
	case Clob:
		b.WriteString("clob:" + trunc(hex.EncodeToString(v.Bytes)))
	case Blob:
		b.WriteString("blob:" + trunc(hex.EncodeToString(v.Bytes)))
	case List, Sexp, Struct:
		op, cl := "[", "]"
		if v.Kind == Sexp {
			op, cl = "(", ")"
		} else if v.Kind == Struct {
			op, cl = "{", "}"
		}
		b.WriteString(op)
		for i, k := range v.Kids {
			if i > 0 {
				b.WriteByte(',')
			}
			fmtVal(b, k)
		}
		b.WriteString(cl)
	}
}

// Walk visits every value depth first.
func Walk(vs []*Value, f func(v *Value, depth int)) {
	var rec func(v *Value, d int)
	rec = func(v *Value, d int) {
		f(v, d)
		for _, k := range v.Kids {
			rec(k, d+1)
		}
	}
	for _, v := range vs {
		rec(v, 0)
	}
}

// Count returns the total number of values (all depths).
func Count(vs []*Value) int {
	n := 0
	Walk(vs, func(*Value, int) { n++ })
	return n
}

// SymbolTexts returns all distinct symbol texts used (annotations, field names, symbol values), sorted.
func SymbolTexts(vs []*Value) []string {
	set := map[string]bool{}
	Walk(vs, func(v *Value, _ int) {
		for _, a := range v.Ann {
			if a.HasText {
				set[a.Text] = true
			}
		}
		if v.Field != nil && v.Field.HasText {
			set[v.Field.Text] = true
		}
		if v.Kind == Symbol && !v.IsNull && v.Sy.HasText {
			set[v.Sy.Text] = true
		}
	})
	out := make([]string, 0, len(set))
	for s := range set {
		out = append(out, s)
	}
	sort.Strings(out)
	return out
}

// ---- calendar helpers (proleptic Gregorian, independent of package time) ----

func IsLeap(y int) bool { return (y%4 == 0 && y%100 != 0) || y%400 == 0 }

func DaysIn(y, m int) int {
	switch m {
	case 1, 3, 5, 7, 8, 10, 12:
		return 31
	case 4, 6, 9, 11:
		return 30
	case 2:
		if IsLeap(y) {
			return 29
		}
		return 28
	}
	return 0
}

// DaysFromCivil returns days since 1970-01-01 for a proleptic Gregorian date (Howard Hinnant's algorithm).
func DaysFromCivil(y, m, d int) int64 {
	yy := int64(y)
	if m <= 2 {
		yy--
	}
	var era int64
	if yy >= 0 {
		era = yy / 400
	} else {
		era = (yy - 399) / 400
	}
	yoe := yy - era*400
	mm := int64(m)
	var mp int64
	if mm > 2 {
		mp = mm - 3
	} else {
		mp = mm + 9
	}
	doy := (153*mp+2)/5 + int64(d) - 1
	doe := yoe*365 + yoe/4 - yoe/100 + doy
	return era*146097 + doe - 719468
}

// CivilFromDays is the inverse of DaysFromCivil.
func CivilFromDays(z int64) (y, m, d int) {
	z += 719468
	var era int64
	if z >= 0 {
		era = z / 146097
	} else {
		era = (z - 146096) / 146097
	}
	doe := z - era*146097
	yoe := (doe - doe/1460 + doe/36524 - doe/146096) / 365
	yy := yoe + era*400
	doy := doe - (365*yoe + yoe/4 - yoe/100)
	mp := (5*doy + 2) / 153
	dd := doy - (153*mp+2)/5 + 1
	var mm int64
	if mp < 10 {
		mm = mp + 3
	} else {
		mm = mp - 9
	}
	if mm <= 2 {
		yy++
	}
	return int(yy), int(mm), int(dd)
}

// ShiftMinutes returns the calendar fields of t moved by delta minutes (seconds/nanos untouched).
func ShiftMinutes(y, m, d, h, mi int, delta int) (int, int, int, int, int) {
	days := DaysFromCivil(y, m, d)
	tot := int64(h*60+mi) + int64(delta)
	dd := tot / 1440
	rem := tot % 1440
	if rem < 0 {
		rem += 1440
		dd--
	}
	days += dd
	ny, nm, nd := CivilFromDays(days)
	return ny, nm, nd, int(rem / 60), int(rem % 60)
}

// UTCFields returns the UTC calendar fields of a timestamp with at least minute precision.
func (t TS) UTCFields() (y, m, d, h, mi int) {
	if t.Prec < PMinute || !t.OffKnown || t.OffMin == 0 {
		return t.Y, t.M, t.D, t.H, t.Mi
	}
	return ShiftMinutes(t.Y, t.M, t.D, t.H, t.Mi, -t.OffMin)
}

// Valid reports whether the fields denote a real Ion timestamp.
func (t TS) Valid() bool {
	if t.Y < 1 || t.Y > 9999 || t.Prec < PYear || t.Prec > PSecond {
		return false
	}
	if t.Prec >= PMonth && (t.M < 1 || t.M > 12) {
		return false
	}
	if t.Prec >= PDay && (t.D < 1 || t.D > DaysIn(t.Y, t.M)) {
		return false
	}
	if t.Prec >= PMinute {
		if t.H < 0 || t.H > 23 || t.Mi < 0 || t.Mi > 59 {
			return false
		}
		if t.OffMin <= -1440 || t.OffMin >= 1440 {
			return false
		}
	}
	if t.Prec >= PSecond && (t.S < 0 || t.S > 59) {
		return false
	}
	return true
}

// Normalize clears fields below the precision so that Equal is meaningful.
func (t TS) Normalize() TS {
	if t.Prec < PMonth {
		t.M = 1
	}
	if t.Prec < PDay {
		t.D = 1
	}
	if t.Prec < PMinute {
		t.H, t.Mi, t.OffKnown, t.OffMin = 0, 0, false, 0
	}
	if t.Prec < PSecond {
		t.S, t.Nanos, t.FracDigits = 0, 0, 0
	}
	if !t.OffKnown {
		t.OffMin = 0
	}
	return t
}
