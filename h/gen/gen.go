// Package gen holds the seeded, boundary-biased generators of model values.
package gen

import (
	"math"
	"math/big"
	"math/rand"
	"strings"

	"verifh/model"
)

// G is a generator with a feature log.
type G struct {
	R        *rand.Rand
	Feat     map[string]int
	MaxDepth int
	// MaxLen caps payload lengths (strings, lobs, containers).
	MaxLen int
	// NoUnknownSyms suppresses $0.
	NoUnknownSyms bool
	// SymPool, when set, restricts symbol texts.
	SymPool []string
	// NoFineTS etc. can be added as needed.
}

func New(seed int64) *G {
	return &G{R: rand.New(rand.NewSource(seed)), Feat: map[string]int{}, MaxDepth: 5, MaxLen: 200}
}

func (g *G) note(f string) { g.Feat[f]++ }

func (g *G) pick(n int) int { return g.R.Intn(n) }

// ---- integers ----

var IntBoundaryBits = []int{6, 7, 8, 13, 14, 15, 16, 21, 24, 31, 32, 48, 56, 62, 63, 64, 65, 70, 71, 72, 79, 80, 127, 128}

func (g *G) Int() *big.Int {
	switch g.pick(6) {
	case 0:
		g.note("int:small")
		return big.NewInt(int64(g.pick(41) - 20))
	case 1, 2:
		k := IntBoundaryBits[g.pick(len(IntBoundaryBits))]
		n := new(big.Int).Lsh(big.NewInt(1), uint(k))
		n.Add(n, big.NewInt(int64(g.pick(5)-2)))
		if g.pick(2) == 0 {
			n.Neg(n)
		}
		g.note("int:boundary")
		return n
	case 3:
		g.note("int:int64")
		return big.NewInt(int64(g.R.Uint64()))
	case 4:
		bits := 1 + g.pick(300)
		n := new(big.Int).Rand(g.R, new(big.Int).Lsh(big.NewInt(1), uint(bits)))
		if g.pick(2) == 0 {
			n.Neg(n)
		}
		g.note("int:big")
		return n
	default:
		return new(big.Int).SetUint64(g.R.Uint64())
	}
}

// ---- floats ----

var FloatSpecials = []float64{0, math.Copysign(0, -1), 1, -1, 0.5, 1e100, -1e-100, math.MaxFloat64, -math.MaxFloat64,
	math.SmallestNonzeroFloat64, -math.SmallestNonzeroFloat64, math.MaxFloat32, -math.MaxFloat32,
	math.SmallestNonzeroFloat32, float64(math.MaxFloat32) * 2, 1 << 24, 1<<24 + 1, 1<<53 + 2, 0.1, 1.0 / 3, 123456789.125,
	math.Inf(1), math.Inf(-1), math.NaN(), 2.2250738585072014e-308, 1.1754943508222875e-38, 3.4028235677973366e38}

func (g *G) FloatBits() uint64 {
	switch g.pick(5) {
	case 0, 1:
		g.note("float:special")
		return math.Float64bits(FloatSpecials[g.pick(len(FloatSpecials))])
	case 2:
		g.note("float:float32-exact")
		return math.Float64bits(float64(math.Float32frombits(g.R.Uint32())))
	case 3:
		g.note("float:decimalish")
		return math.Float64bits(float64(g.pick(2000000)-1000000) / float64([]int{1, 10, 100, 1000, 1 << 10}[g.pick(5)]))
	default:
		g.note("float:random-bits")
		return g.R.Uint64()
	}
}

// ---- decimals ----

func (g *G) Dec() model.Dec {
	var d model.Dec
	switch g.pick(5) {
	case 0:
		d.Coef = big.NewInt(int64(g.pick(2001) - 1000))
	case 1:
		d.Coef = g.Int()
	case 2:
		d.Coef = new(big.Int)
		if g.pick(2) == 0 {
			d.NegZero = true
			g.note("dec:negzero")
		}
	default:
		d.Coef = big.NewInt(g.R.Int63n(1e12) - 5e11)
	}
	switch g.pick(6) {
	case 0:
		d.Exp = 0
	case 1:
		d.Exp = int32(g.pick(13) - 6)
	case 2:
		d.Exp = int32(g.pick(200) - 100)
	case 3:
		// VarInt width boundaries
		k := []int{6, 7, 13, 14, 20, 21, 27, 28, 31}[g.pick(9)]
		v := int64(1)<<uint(k) + int64(g.pick(3)-1)
		if v > math.MaxInt32 {
			v = math.MaxInt32
		}
		if g.pick(2) == 0 {
			v = -v
		}
		d.Exp = int32(v)
		g.note("dec:exp-boundary")
	default:
		d.Exp = int32(-g.pick(20))
	}
	return d
}

// ---- timestamps ----

func (g *G) TS() model.TS {
	var t model.TS
	years := []int{1, 2, 99, 100, 999, 1000, 1582, 1900, 1969, 1970, 2000, 2023, 2024, 2100, 9998, 9999}
	if g.pick(3) == 0 {
		t.Y = 1 + g.pick(9999)
	} else {
		t.Y = years[g.pick(len(years))]
	}
	t.M = 1 + g.pick(12)
	dim := model.DaysIn(t.Y, t.M)
	switch g.pick(3) {
	case 0:
		t.D = 1
	case 1:
		t.D = dim
	default:
		t.D = 1 + g.pick(dim)
	}
	t.Prec = 1 + g.pick(5)
	if g.pick(3) == 0 {
		t.Prec = model.PSecond
	}
	switch g.pick(3) {
	case 0:
		t.H, t.Mi, t.S = 0, 0, 0
	case 1:
		t.H, t.Mi, t.S = 23, 59, 59
	default:
		t.H, t.Mi, t.S = g.pick(24), g.pick(60), g.pick(60)
	}
	if t.Prec >= model.PMinute {
		switch g.pick(4) {
		case 0:
			t.OffKnown = false
			g.note("ts:unknown-offset")
		case 1:
			t.OffKnown = true
		default:
			t.OffKnown = true
			offs := []int{1, -1, 60, -60, 330, -330, 720, -720, 1439, -1439, 59, -59, 61, 840}
			if g.pick(2) == 0 {
				t.OffMin = offs[g.pick(len(offs))]
			} else {
				t.OffMin = g.pick(2879) - 1439
			}
			g.note("ts:offset")
		}
	}
	if t.Prec == model.PSecond && g.pick(2) == 0 {
		t.FracDigits = 1 + g.pick(9)
		var n int
		switch g.pick(5) {
		case 0:
			n = 0
		case 1:
			n = 999999999
		case 2:
			n = 1
		case 3:
			n = []int{100000000, 10000000, 1000, 123000000, 120000000, 1230}[g.pick(6)]
		default:
			n = g.pick(1000000000)
		}
		p := 1
		for i := t.FracDigits; i < 9; i++ {
			p *= 10
		}
		t.Nanos = n / p * p
		g.note("ts:fraction")
	}
	t = t.Normalize()
	// local year must stay within 1..9999 and so must the UTC year be encodable: allow 0/10000 UTC (legal)
	return t
}

// ---- text ----

var ReservedTexts = []string{"null", "true", "false", "nan", "$5", "$0", "$ion", "$ion_1_0", "$ion_symbol_table", "name", "version",
	"imports", "symbols", "max_id", "", "+", "-", "//", "]", "+inf", "-inf", "null.int", "$", "$$", "a b", "a'b", "a\"b", "a\\b",
	"$10", "$007", "$+5", "$-5", "inf", "_", "x1", "1x", "2020T", "a::b", "{", "}", "*", "/*", "*/", "...", "é", "日本", "😀",
	// letters outside ASCII: an identifier may only consist of ASCII letters, digits, $ and _
	// identifiers that only begin like a version marker or a system symbol
	"$ion_1_0_1", "$ion_1_0a", "$ion_1_0$", "$ion_2_0x", "$ion_1_1_beta", "$ion_10", "$ion_1", "$ion_1_0_", "$ion_symbol_table2", "$ion_symbol_tabl", "$ionx",
	"você", "três", "õ", "µ", "ªº", "κε", "ек", "número", "Ångström", "ñ_1", "ǅ", "ß", "a­b", "ª", "xµ", "_º"}

var runePool = []rune{'a', 'b', 'z', 'A', 'Z', '0', '9', '_', '$', ' ', '\'', '"', '\\', '/', '?', '\n', '\r', '\t', 0, 7, 8, 11, 12, 0x1f, 0x7f,
	0x80, 0xaa, 0xb5, 0xba, 0xc0, 0xd7, 0xea, 0xf5, 0xfa, 0x3b5, 0x3ba, 0x435, 0x43a, 0xe9, 0xff, 0x100, 0x7ff, 0x800, 0x2248, 0xfffd, 0xffff, 0x10000, 0x1f600, 0x10ffff, '{', '}', '[', ']', '(', ')', ',', ':', '.', '+', '-', '*', '#'}

// Text returns valid UTF-8 text of a boundary-biased length.
func (g *G) Text() string {
	switch g.pick(8) {
	case 0:
		return ""
	case 1:
		g.note("text:reserved")
		return ReservedTexts[g.pick(len(ReservedTexts))]
	case 2:
		return []string{"a", "abc", "hello", "field", "x_y", "Foo"}[g.pick(6)]
	}
	n := g.Len()
	var b strings.Builder
	for b.Len() < n {
		if g.pick(3) == 0 {
			r := runePool[g.pick(len(runePool))]
			b.WriteRune(r)
			if r > 0x7f {
				g.note("text:non-ascii")
			}
		} else {
			b.WriteByte(byte('a' + g.pick(26)))
		}
	}
	s := b.String()
	return s
}

// SymText returns symbol text (shorter, more reserved-looking).
func (g *G) SymText() string {
	if g.SymPool != nil {
		return g.SymPool[g.pick(len(g.SymPool))]
	}
	switch g.pick(6) {
	case 0, 1:
		g.note("sym:reserved-looking")
		return ReservedTexts[g.pick(len(ReservedTexts))]
	case 2:
		return g.Text()
	default:
		return []string{"a", "b", "c", "abc", "foo", "bar", "name", "id", "x", "long_symbol_name_here"}[g.pick(10)]
	}
}

func (g *G) Sym() model.Sym {
	if !g.NoUnknownSyms && g.pick(40) == 0 {
		g.note("sym:$0")
		return model.SID(0)
	}
	return model.T(g.SymText())
}

var LenClasses = []int{0, 1, 2, 12, 13, 14, 15, 16, 63, 64, 65, 127, 128, 129, 200}
var BigLenClasses = []int{16383, 16384, 16385}

// Len returns a payload length.
func (g *G) Len() int {
	var n int
	switch g.pick(4) {
	case 0:
		n = g.pick(8)
	case 1:
		n = LenClasses[g.pick(len(LenClasses))]
		g.note("len:boundary")
	case 2:
		n = g.pick(40)
	default:
		if g.MaxLen > 16000 && g.pick(10) == 0 {
			n = BigLenClasses[g.pick(3)]
			g.note("len:16k")
		} else {
			n = g.pick(20)
		}
	}
	if n > g.MaxLen {
		n = g.MaxLen
	}
	return n
}

func (g *G) Bytes() []byte {
	n := g.Len()
	b := make([]byte, n)
	switch g.pick(3) {
	case 0:
		g.R.Read(b)
	case 1:
		for i := range b {
			b[i] = byte(0x20 + g.pick(0x5f))
		}
	default:
		pool := []byte{0, '"', '\'', '\\', '}', '{', '\n', '\r', 0x7f, 0x80, 0xff, 'a', ' ', '/', '*'}
		for i := range b {
			b[i] = pool[g.pick(len(pool))]
		}
	}
	return b
}

func (g *G) Anns() []model.Sym {
	switch g.pick(6) {
	case 0:
		g.note("annot:1")
		return []model.Sym{g.Sym()}
	case 1:
		n := 2 + g.pick(2)
		out := make([]model.Sym, n)
		for i := range out {
			out[i] = g.Sym()
		}
		g.note("annot:n")
		return out
	}
	return nil
}

var AllKinds = []model.Kind{model.Null, model.Bool, model.Int, model.Float, model.Decimal, model.Timestamp, model.Symbol,
	model.String, model.Clob, model.Blob, model.List, model.Sexp, model.Struct}

// Scalar generates a non-container value of the given kind (or typed null).
func (g *G) OfKind(k model.Kind, depth int) *model.Value {
	if k != model.Null && g.pick(12) == 0 {
		g.note("null:typed")
		return model.NullV(k)
	}
	switch k {
	case model.Null:
		return model.NullV(model.Null)
	case model.Bool:
		return model.BoolV(g.pick(2) == 0)
	case model.Int:
		return model.IntV(g.Int())
	case model.Float:
		return model.FloatBitsV(g.FloatBits())
	case model.Decimal:
		return model.DecV(g.Dec())
	case model.Timestamp:
		return model.TSV(g.TS())
	case model.Symbol:
		return model.SymV(g.Sym())
	case model.String:
		return model.StrV(g.Text())
	case model.Clob:
		return model.ClobV(g.Bytes())
	case model.Blob:
		return model.BlobV(g.Bytes())
	case model.List, model.Sexp, model.Struct:
		v := &model.Value{Kind: k}
		n := 0
		if depth < g.MaxDepth {
			switch g.pick(4) {
			case 0:
				n = 0
			case 1:
				n = 1
			default:
				n = g.pick(6)
			}
			if g.pick(30) == 0 {
				n = 13 + g.pick(4)
			}
		}
		for i := 0; i < n; i++ {
			kid := g.Value(depth + 1)
			if k == model.Struct {
				var f model.Sym
				if len(v.Kids) > 0 && g.pick(6) == 0 {
					f = *v.Kids[g.pick(len(v.Kids))].Field
					g.note("struct:repeated-field")
				} else {
					f = g.Sym()
				}
				kid.Field = &f
			}
			v.Kids = append(v.Kids, kid)
		}
		if n > 0 {
			g.note("container:non-empty")
		}
		if depth >= 2 {
			g.note("nest:deep")
		}
		return v
	}
	return nil
}

// Value generates any value with optional annotations.
func (g *G) Value(depth int) *model.Value {
	var k model.Kind
	if depth >= g.MaxDepth || g.pick(3) != 0 {
		k = AllKinds[g.pick(10)]
	} else {
		k = AllKinds[10+g.pick(3)]
	}
	v := g.OfKind(k, depth)
	v.Ann = g.Anns()
	if len(v.Ann) > 0 && v.Kind == model.Bool && !v.IsNull {
		g.note("annot:on-bool")
	}
	return v
}

// TopLevelOK reports whether v can stand at top level without being a system value.
func TopLevelOK(v *model.Value) bool {
	if v.Kind == model.Struct && len(v.Ann) > 0 && v.Ann[0].HasText && v.Ann[0].Text == "$ion_symbol_table" {
		return false
	}
	if v.Kind == model.Symbol && !v.IsNull && len(v.Ann) == 0 && v.Sy.HasText && v.Sy.Text == "$ion_1_0" {
		return false
	}
	return true
}

// Stream generates a top-level value sequence.
func (g *G) Stream() []*model.Value {
	n := 1 + g.pick(6)
	if g.pick(10) == 0 {
		n = 0
	}
	var out []*model.Value
	for len(out) < n {
		v := g.Value(0)
		if !TopLevelOK(v) {
			continue
		}
		out = append(out, v)
	}
	return out
}

// DeepNest builds a nesting chain of the given depth.
func (g *G) DeepNest(depth int) *model.Value {
	leaf := g.OfKind(model.Int, 0)
	cur := leaf
	for i := 0; i < depth; i++ {
		k := AllKinds[10+g.pick(3)]
		c := &model.Value{Kind: k}
		if k == model.Struct {
			f := g.Sym()
			cur.Field = &f
		}
		c.Kids = []*model.Value{cur}
		cur = c
	}
	return cur
}
