// Package choice carries the randomised representation choices of the reference producers
// and records which non-canonical features were used (feature histogram, minimisation).
package choice

import (
	"math/rand"
	"sort"
)

type C struct {
	R     *rand.Rand
	P     float64         // probability of a non-canonical choice at each opportunity
	Feat  map[string]int  // features used
	Off   map[string]bool // features switched off (minimisation)
	Count int             // number of non-canonical choices taken
}

func New(r *rand.Rand, p float64) *C {
	return &C{R: r, P: p, Feat: map[string]int{}}
}

// Flip reports whether to take the non-canonical alternative labelled feat.
func (c *C) Flip(feat string) bool {
	if c == nil || c.R == nil {
		return false
	}
	if c.Off != nil && c.Off[feat] {
		// keep the random stream aligned
		c.R.Float64()
		return false
	}
	if c.R.Float64() < c.P {
		c.Feat[feat]++
		c.Count++
		return true
	}
	return false
}

// FlipP is Flip with an explicit probability.
func (c *C) FlipP(feat string, p float64) bool {
	if c == nil || c.R == nil {
		return false
	}
	if c.Off != nil && c.Off[feat] {
		c.R.Float64()
		return false
	}
	if c.R.Float64() < p {
		c.Feat[feat]++
		c.Count++
		return true
	}
	return false
}

// Intn returns a uniform choice in [0,n); 0 when canonical.
func (c *C) Intn(n int) int {
	if c == nil || c.R == nil || n <= 1 {
		return 0
	}
	return c.R.Intn(n)
}

// Note records a feature unconditionally.
func (c *C) Note(feat string) {
	if c == nil || c.Feat == nil {
		return
	}
	c.Feat[feat]++
}

func (c *C) Features() []string {
	if c == nil {
		return nil
	}
	out := make([]string, 0, len(c.Feat))
	for f := range c.Feat {
		out = append(out, f)
	}
	sort.Strings(out)
	return out
}
