// Package refbin is a strict Ion 1.0 binary decoder/validator and an encoder with representation
// choices, written from the specification. It shares no code with ion-go.
package refbin

import (
	"errors"
	"fmt"
	"math"
	"math/big"
	"unicode/utf8"

	"verifh/model"
	"verifh/refsym"
)

var IVM = []byte{0xE0, 0x01, 0x00, 0xEA}

// ErrUnsupported marks inputs the reference deliberately does not judge.
var ErrUnsupported = errors.New("refbin: construct outside the reference's scope")

type decoder struct {
	b   []byte
	ctx *refsym.Context
	cat refsym.Catalog
	// Events records context changes for C10.
	onContext func(c *refsym.Context, afterValues int)
	// KeepSystem: return symbol tables as values as well (raw mode).
	raw bool
	// LSTErr remembers ParseLST problems (duplicate fields): the stream is then out of the strict scope.
	nvals int
}

type DecodeOpts struct {
	Catalog   refsym.Catalog
	Raw       bool // do not interpret symbol tables; SIDs resolved against a table of unknowns
	OnContext func(c *refsym.Context, afterValues int)
	// FinalContext receives the context in force at the end.
	FinalContext **refsym.Context
}

// Decode validates and decodes a complete binary stream.
func Decode(data []byte, o *DecodeOpts) ([]*model.Value, error) {
	if o == nil {
		o = &DecodeOpts{}
	}
	if len(data) < 4 || data[0] != 0xE0 || data[1] != 0x01 || data[2] != 0x00 || data[3] != 0xEA {
		return nil, fmt.Errorf("stream does not start with the Ion 1.0 version marker")
	}
	d := &decoder{b: data, ctx: refsym.System(), cat: o.Catalog, onContext: o.OnContext, raw: o.Raw}
	var out []*model.Value
	pos := 4
	for pos < len(data) {
		if data[pos] == 0xE0 {
			if pos+4 > len(data) {
				return out, fmt.Errorf("truncated version marker at %d", pos)
			}
			if data[pos+1] != 0x01 || data[pos+2] != 0x00 || data[pos+3] != 0xEA {
				return out, fmt.Errorf("bad version marker at %d", pos)
			}
			pos += 4
			d.ctx = refsym.System()
			if d.onContext != nil {
				d.onContext(d.ctx, d.nvals)
			}
			continue
		}
		v, n, err := d.value(pos, len(data), 0)
		if err != nil {
			return out, err
		}
		pos = n
		if v == nil { // NOP pad
			continue
		}
		if !d.raw && refsym.IsLST(v) {
			if v.IsNull {
				return out, fmt.Errorf("%w: null.struct annotated as symbol table", ErrUnsupported)
			}
			spec, err := refsym.ParseLST(v)
			if err != nil {
				return out, fmt.Errorf("%w: %v", ErrUnsupported, err)
			}
			nc, err := refsym.Apply(d.ctx, d.cat, spec)
			if err != nil {
				return out, err
			}
			d.ctx = nc
			if d.onContext != nil {
				d.onContext(d.ctx, d.nvals)
			}
			continue
		}
		out = append(out, v)
		d.nvals++
	}
	if o.FinalContext != nil {
		*o.FinalContext = d.ctx
	}
	return out, nil
}

func (d *decoder) varUInt(pos, end int) (uint64, int, error) {
	var v uint64
	for i := 0; ; i++ {
		if pos >= end {
			return 0, 0, fmt.Errorf("VarUInt runs past its container at %d", pos)
		}
		if i >= 10 {
			return 0, 0, fmt.Errorf("%w: VarUInt longer than 10 bytes at %d", ErrUnsupported, pos)
		}
		c := d.b[pos]
		pos++
		if v>>57 != 0 {
			return 0, 0, fmt.Errorf("VarUInt overflows 64 bits at %d", pos)
		}
		v = v<<7 | uint64(c&0x7F)
		if c&0x80 != 0 {
			return v, pos, nil
		}
	}
}

// varInt returns value, negative flag (for -0), new position.
func (d *decoder) varInt(pos, end int) (int64, bool, int, error) {
	if pos >= end {
		return 0, false, 0, fmt.Errorf("VarInt runs past its container at %d", pos)
	}
	c := d.b[pos]
	pos++
	neg := c&0x40 != 0
	v := int64(c & 0x3F)
	n := 1
	for c&0x80 == 0 {
		if pos >= end {
			return 0, false, 0, fmt.Errorf("VarInt runs past its container at %d", pos)
		}
		if n >= 10 {
			return 0, false, 0, fmt.Errorf("%w: VarInt longer than 10 bytes", ErrUnsupported)
		}
		c = d.b[pos]
		pos++
		n++
		if v>>55 != 0 {
			return 0, false, 0, fmt.Errorf("VarInt overflows at %d", pos)
		}
		v = v<<7 | int64(c&0x7F)
	}
	if neg {
		v = -v
	}
	return v, neg, pos, nil
}

func (d *decoder) sym(id uint64) (model.Sym, error) {
	if d.raw {
		return model.SID(int64(id)), nil
	}
	return d.ctx.Sym(id)
}

// value decodes the value starting at pos, bounded by end. Returns nil value for a NOP pad.
func (d *decoder) value(pos, end, depth int) (*model.Value, int, error) {
	return d.valueEx(pos, end, depth, false)
}

func (d *decoder) valueEx(pos, end, depth int, inWrapper bool) (*model.Value, int, error) {
	if pos >= end {
		return nil, 0, fmt.Errorf("value expected at %d but container ends", pos)
	}
	start := pos
	tag := d.b[pos]
	pos++
	t, l := int(tag>>4), int(tag&0x0F)
	if t == 15 {
		return nil, 0, fmt.Errorf("illegal type code 15 at %d", start)
	}
	if t == 14 && l == 0 {
		return nil, 0, fmt.Errorf("version marker inside a container or wrapper at %d", start)
	}
	if t == 14 && (l == 15 || l == 1 || l == 2) {
		return nil, 0, fmt.Errorf("illegal annotation wrapper length code %d at %d", l, start)
	}
	kinds := []model.Kind{model.Null, model.Bool, model.Int, model.Int, model.Float, model.Decimal, model.Timestamp,
		model.Symbol, model.String, model.Clob, model.Blob, model.List, model.Sexp, model.Struct}
	if l == 15 {
		if t == 3 {
			return nil, 0, fmt.Errorf("illegal null for negative int (0x3F) at %d", start)
		}
		return model.NullV(kinds[t]), pos, nil
	}
	if t == 1 {
		switch l {
		case 0:
			return model.BoolV(false), pos, nil
		case 1:
			return model.BoolV(true), pos, nil
		}
		return nil, 0, fmt.Errorf("illegal bool representation 0x%02X at %d", tag, start)
	}
	length := uint64(l)
	sorted := false
	if l == 14 || (t == 13 && l == 1) {
		if t == 13 && l == 1 {
			sorted = true
		}
		var err error
		length, pos, err = d.varUInt(pos, end)
		if err != nil {
			return nil, 0, err
		}
	}
	if length > uint64(end-pos) {
		return nil, 0, fmt.Errorf("value at %d declares length %d but only %d bytes remain in its container", start, length, end-pos)
	}
	body := d.b[pos : pos+int(length)]
	vend := pos + int(length)
	switch t {
	case 0: // NOP pad
		if inWrapper {
			return nil, 0, fmt.Errorf("annotation wraps a NOP pad at %d", start)
		}
		return nil, vend, nil
	case 2, 3:
		mag := new(big.Int).SetBytes(body)
		if t == 3 {
			if mag.Sign() == 0 {
				return nil, 0, fmt.Errorf("negative zero int at %d", start)
			}
			mag.Neg(mag)
		}
		return &model.Value{Kind: model.Int, I: mag}, vend, nil
	case 4:
		switch length {
		case 0:
			return model.FloatV(0), vend, nil
		case 4:
			bits := uint32(body[0])<<24 | uint32(body[1])<<16 | uint32(body[2])<<8 | uint32(body[3])
			return model.FloatV(float64(math.Float32frombits(bits))), vend, nil
		case 8:
			var bits uint64
			for _, c := range body {
				bits = bits<<8 | uint64(c)
			}
			return model.FloatBitsV(bits), vend, nil
		}
		return nil, 0, fmt.Errorf("illegal float length %d at %d", length, start)
	case 5:
		dec, err := d.decimal(pos, vend)
		if err != nil {
			return nil, 0, err
		}
		return model.DecV(dec), vend, nil
	case 6:
		ts, err := d.timestamp(pos, vend)
		if err != nil {
			return nil, 0, err
		}
		return model.TSV(ts), vend, nil
	case 7:
		if length > 8 {
			return nil, 0, fmt.Errorf("%w: symbol id wider than 8 bytes at %d", ErrUnsupported, start)
		}
		var id uint64
		for _, c := range body {
			id = id<<8 | uint64(c)
		}
		s, err := d.sym(id)
		if err != nil {
			return nil, 0, err
		}
		return model.SymV(s), vend, nil
	case 8:
		if !utf8.Valid(body) {
			return nil, 0, fmt.Errorf("string at %d is not valid UTF-8", start)
		}
		return model.StrV(string(body)), vend, nil
	case 9:
		return model.ClobV(body), vend, nil
	case 10:
		return model.BlobV(body), vend, nil
	case 11, 12:
		v := &model.Value{Kind: kinds[t]}
		p := pos
		for p < vend {
			k, n, err := d.value(p, vend, depth+1)
			if err != nil {
				return nil, 0, err
			}
			p = n
			if k != nil {
				v.Kids = append(v.Kids, k)
			}
		}
		return v, vend, nil
	case 13:
		v := &model.Value{Kind: model.Struct}
		if sorted && length == 0 {
			return nil, 0, fmt.Errorf("sorted struct (0xD1) with no fields at %d", start)
		}
		p := pos
		for p < vend {
			id, n, err := d.varUInt(p, vend)
			if err != nil {
				return nil, 0, err
			}
			p = n
			k, n2, err := d.value(p, vend, depth+1)
			if err != nil {
				return nil, 0, err
			}
			p = n2
			if k == nil {
				continue // NOP pad behind a field id
			}
			s, err := d.sym(id)
			if err != nil {
				return nil, 0, err
			}
			k.Field = &s
			v.Kids = append(v.Kids, k)
		}
		return v, vend, nil
	case 14:
		if inWrapper {
			return nil, 0, fmt.Errorf("annotation wrapper directly inside an annotation wrapper at %d", start)
		}
		alen, p, err := d.varUInt(pos, vend)
		if err != nil {
			return nil, 0, err
		}
		if alen == 0 {
			return nil, 0, fmt.Errorf("annotation wrapper without annotations at %d", start)
		}
		if alen >= uint64(vend-p) {
			return nil, 0, fmt.Errorf("annotation wrapper at %d leaves no room for a value", start)
		}
		aend := p + int(alen)
		var anns []model.Sym
		for p < aend {
			id, n, err := d.varUInt(p, aend)
			if err != nil {
				return nil, 0, err
			}
			p = n
			s, err := d.sym(id)
			if err != nil {
				return nil, 0, err
			}
			anns = append(anns, s)
		}
		inner, n, err := d.valueEx(p, vend, depth, true)
		if err != nil {
			return nil, 0, err
		}
		if n != vend {
			return nil, 0, fmt.Errorf("annotation wrapper at %d: enclosed value ends at %d, wrapper at %d", start, n, vend)
		}
		inner.Ann = anns
		return inner, vend, nil
	}
	return nil, 0, fmt.Errorf("unreachable type %d", t)
}

func (d *decoder) intField(body []byte) (*big.Int, bool) {
	if len(body) == 0 {
		return new(big.Int), false
	}
	neg := body[0]&0x80 != 0
	bs := append([]byte{}, body...)
	bs[0] &= 0x7F
	v := new(big.Int).SetBytes(bs)
	if neg {
		if v.Sign() == 0 {
			return v, true
		}
		v.Neg(v)
	}
	return v, false
}

func (d *decoder) decimal(pos, end int) (model.Dec, error) {
	if pos == end {
		return model.Dec{Coef: new(big.Int)}, nil
	}
	exp, _, p, err := d.varInt(pos, end)
	if err != nil {
		return model.Dec{}, err
	}
	if exp > math.MaxInt32 || exp < math.MinInt32 {
		return model.Dec{}, fmt.Errorf("%w: decimal exponent %d outside int32", ErrUnsupported, exp)
	}
	coef, negz := d.intField(d.b[p:end])
	return model.Dec{Coef: coef, Exp: int32(exp), NegZero: negz}, nil
}

func (d *decoder) timestamp(pos, end int) (model.TS, error) {
	var t model.TS
	if pos == end {
		return t, fmt.Errorf("empty timestamp")
	}
	off, negOff, p, err := d.varInt(pos, end)
	if err != nil {
		return t, err
	}
	unknown := negOff && off == 0
	if p >= end {
		return t, fmt.Errorf("timestamp without year")
	}
	y, p, err := d.varUInt(p, end)
	if err != nil {
		return t, err
	}
	f := []uint64{y, 1, 1, 0, 0, 0}
	nf := 1
	for nf < 6 && p < end {
		var v uint64
		v, p, err = d.varUInt(p, end)
		if err != nil {
			return t, err
		}
		f[nf] = v
		nf++
	}
	if nf == 4 {
		return t, fmt.Errorf("timestamp with hour but no minute")
	}
	// year 0 / 10000 can legitimately appear as UTC fields when the local year is 1 / 9999
	if y > 10000 || ((y == 0 || y == 10000) && nf < 5) {
		return t, fmt.Errorf("timestamp year %d out of range", y)
	}
	if f[1] < 1 || f[1] > 12 || f[2] < 1 || int(f[2]) > model.DaysIn(int(y), int(f[1])) || f[3] > 23 || f[4] > 59 || f[5] > 59 {
		return t, fmt.Errorf("impossible calendar field in timestamp: %v", f)
	}
	if off <= -1440 || off >= 1440 {
		return t, fmt.Errorf("%w: timestamp offset of a day or more", ErrUnsupported)
	}
	t.Y, t.M, t.D, t.H, t.Mi, t.S = int(f[0]), int(f[1]), int(f[2]), int(f[3]), int(f[4]), int(f[5])
	switch nf {
	case 1:
		t.Prec = model.PYear
	case 2:
		t.Prec = model.PMonth
	case 3:
		t.Prec = model.PDay
	case 5:
		t.Prec = model.PMinute
	case 6:
		t.Prec = model.PSecond
	}
	if p < end {
		if nf < 6 {
			return t, fmt.Errorf("timestamp fraction without seconds")
		}
		exp, _, p2, err := d.varInt(p, end)
		if err != nil {
			return t, err
		}
		coef, negz := d.intField(d.b[p2:end])
		if negz || coef.Sign() < 0 {
			return t, fmt.Errorf("negative timestamp fraction")
		}
		if exp >= 0 {
			if coef.Sign() != 0 {
				return t, fmt.Errorf("timestamp fraction >= 1")
			}
		} else {
			if -exp > 9 {
				return t, fmt.Errorf("%w: timestamp fraction finer than nanoseconds", ErrUnsupported)
			}
			lim := new(big.Int).Exp(big.NewInt(10), big.NewInt(-exp), nil)
			if coef.Cmp(lim) >= 0 {
				return t, fmt.Errorf("timestamp fraction >= 1")
			}
			t.FracDigits = int(-exp)
			n := coef.Int64()
			for i := int(-exp); i < 9; i++ {
				n *= 10
			}
			t.Nanos = int(n)
		}
	}
	if t.Prec >= model.PMinute {
		if !unknown {
			t.OffKnown = true
			t.OffMin = int(off)
			if off != 0 {
				t.Y, t.M, t.D, t.H, t.Mi = model.ShiftMinutes(t.Y, t.M, t.D, t.H, t.Mi, int(off))
			}
		}
		if t.Y < 1 || t.Y > 9999 {
			return t, fmt.Errorf("timestamp local year %d out of range", t.Y)
		}
		// re-validate the day against the real month length for the year-0/10000 path
	} else if y == 0 || y == 10000 {
		return t, fmt.Errorf("timestamp year out of range")
	}
	return t.Normalize(), nil
}
