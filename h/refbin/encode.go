package refbin

import (
	"fmt"
	"math"
	"math/big"
	"sort"

	"verifh/choice"
	"verifh/model"
	"verifh/refsym"
)

// Encoder produces legal Ion 1.0 binary with representation choices.
type Encoder struct {
	C   *choice.C
	Cat refsym.Catalog
	Ctx *refsym.Context
	Out []byte
	// UnorderedStructs is set when a sorted-field struct reordered fields.
	UnorderedStructs bool
	// NoAltSID forces the lowest id for every text.
	NoAltSID bool
	Err      error
	// Raw substitutes the given bytes for the (unannotated) encoding of a value node (C07).
	Raw map[*model.Value][]byte
	// Tops records [start,end) offsets of every top-level item appended (values, tables, markers, pads).
	Tops [][2]int
}

func NewEncoder(c *choice.C, cat refsym.Catalog) *Encoder {
	e := &Encoder{C: c, Cat: cat, Ctx: refsym.System()}
	e.Out = append(e.Out, IVM...)
	return e
}

func (e *Encoder) fail(f string, a ...interface{}) {
	if e.Err == nil {
		e.Err = fmt.Errorf(f, a...)
	}
}

// ---- primitives ----

func minimalUint(v uint64) []byte {
	var b []byte
	for v > 0 {
		b = append([]byte{byte(v)}, b...)
		v >>= 8
	}
	return b
}

func (e *Encoder) VarUInt(v uint64) []byte {
	var groups []byte
	groups = append(groups, byte(v&0x7F))
	v >>= 7
	for v > 0 {
		groups = append([]byte{byte(v & 0x7F)}, groups...)
		v >>= 7
	}
	if len(groups) < 8 && e.C.Flip("enc:padded-varuint") {
		pad := 1 + e.C.Intn(2)
		groups = append(make([]byte, pad), groups...)
	}
	groups[len(groups)-1] |= 0x80
	return groups
}

func (e *Encoder) VarInt(v int64, negZero bool) []byte {
	neg := v < 0 || negZero
	mag := uint64(v)
	if v < 0 {
		mag = uint64(-v)
	}
	// split magnitude: low 7-bit groups, first group 6 bits
	var groups []byte
	groups = append(groups, byte(mag&0x7F))
	mag >>= 7
	for mag > 0 {
		groups = append([]byte{byte(mag & 0x7F)}, groups...)
		mag >>= 7
	}
	if groups[0]&0x40 != 0 {
		groups = append([]byte{0}, groups...)
	}
	if len(groups) < 8 && e.C.Flip("enc:padded-varint") {
		groups = append(make([]byte, 1+e.C.Intn(2)), groups...)
	}
	if neg {
		groups[0] |= 0x40
	}
	groups[len(groups)-1] |= 0x80
	return groups
}

// intField encodes a sign-magnitude Int sub-field.
func (e *Encoder) intField(v *big.Int, negZero bool, allowEmpty bool) []byte {
	if v.Sign() == 0 && !negZero {
		if allowEmpty && !e.C.Flip("enc:zero-coef-byte") {
			return nil
		}
		return []byte{0x00}
	}
	mag := new(big.Int).Abs(v).Bytes()
	if len(mag) == 0 {
		mag = []byte{0}
	}
	if mag[0]&0x80 != 0 {
		mag = append([]byte{0}, mag...)
	}
	if e.C.Flip("enc:padded-int-field") {
		mag = append(make([]byte, 1+e.C.Intn(2)), mag...)
	}
	if v.Sign() < 0 || negZero {
		mag[0] |= 0x80
	}
	return mag
}

// tag builds the type descriptor (+ length) for a body of the given length.
func (e *Encoder) tag(t byte, length int, allowVar bool) []byte {
	if length < 14 && !(allowVar && e.C.Flip("enc:len-as-varuint")) {
		return []byte{t<<4 | byte(length)}
	}
	return append([]byte{t<<4 | 0x0E}, e.VarUInt(uint64(length))...)
}

func (e *Encoder) sid(s model.Sym) uint64 {
	if !s.HasText {
		if s.SID < 0 || uint64(s.SID) > e.Ctx.MaxID() {
			e.fail("symbol id %d not defined in context (max %d)", s.SID, e.Ctx.MaxID())
			return 0
		}
		return uint64(s.SID)
	}
	ids := e.Ctx.IDsFor(s.Text)
	if len(ids) == 0 {
		e.fail("text %q not declared in the current context", s.Text)
		return 0
	}
	if len(ids) > 1 && !e.NoAltSID && e.C.Flip("enc:alt-sid") {
		return ids[e.C.Intn(len(ids))]
	}
	return ids[0]
}

// NOP returns a pad of exactly n (>=1) bytes.
func (e *Encoder) NOP(n int) []byte {
	if n == 1 {
		return []byte{0x00}
	}
	if n <= 14 {
		b := make([]byte, n)
		b[0] = byte(n - 1)
		return b
	}
	// 0x0E + VarUInt(len) + len bytes, canonical VarUInt
	body := n - 2
	lenb := []byte{byte(body) | 0x80}
	if body >= 128 {
		body = n - 3
		lenb = []byte{byte(body >> 7), byte(body&0x7F) | 0x80}
	}
	b := append([]byte{0x0E}, lenb...)
	return append(b, make([]byte, body)...)
}

func (e *Encoder) randomNOP() []byte {
	sizes := []int{1, 2, 3, 14, 15, 16, 40, 200}
	p := e.NOP(sizes[e.C.Intn(len(sizes))])
	// non-zero pad content is legal
	if len(p) > 2 && e.C.Intn(2) == 1 {
		p[len(p)-1] = 0xFF
	}
	return p
}

// ---- values ----

// Value encodes one value (with annotations; field names are the caller's business).
func (e *Encoder) Value(v *model.Value) []byte {
	inner := e.bare(v)
	if len(v.Ann) == 0 {
		return inner
	}
	var ids []byte
	for _, a := range v.Ann {
		ids = append(ids, e.VarUInt(e.sid(a))...)
	}
	body := append(e.VarUInt(uint64(len(ids))), ids...)
	body = append(body, inner...)
	return append(e.tag(14, len(body), len(body) >= 3), body...)
}

var nullTags = map[model.Kind]byte{model.Null: 0x0F, model.Bool: 0x1F, model.Int: 0x2F, model.Float: 0x4F, model.Decimal: 0x5F,
	model.Timestamp: 0x6F, model.Symbol: 0x7F, model.String: 0x8F, model.Clob: 0x9F, model.Blob: 0xAF, model.List: 0xBF,
	model.Sexp: 0xCF, model.Struct: 0xDF}

func (e *Encoder) bare(v *model.Value) []byte {
	if e.Raw != nil {
		if r, ok := e.Raw[v]; ok {
			return r
		}
	}
	if v.IsNull || v.Kind == model.Null {
		return []byte{nullTags[v.Kind]}
	}
	switch v.Kind {
	case model.Bool:
		if v.B {
			return []byte{0x11}
		}
		return []byte{0x10}
	case model.Int:
		t := byte(2)
		if v.I.Sign() < 0 {
			t = 3
		}
		mag := new(big.Int).Abs(v.I).Bytes()
		if e.C.Flip("enc:padded-int") {
			mag = append(make([]byte, 1+e.C.Intn(3)), mag...)
		}
		return append(e.tag(t, len(mag), true), mag...)
	case model.Float:
		f := math.Float64frombits(v.F)
		if v.F == 0 && !e.C.Flip("enc:float-zero-wide") {
			return []byte{0x40}
		}
		if (float64(float32(f)) == f || math.IsNaN(f)) && e.C.Flip("enc:float32") {
			b := math.Float32bits(float32(f))
			return []byte{0x44, byte(b >> 24), byte(b >> 16), byte(b >> 8), byte(b)}
		}
		out := []byte{0x48}
		for i := 7; i >= 0; i-- {
			out = append(out, byte(v.F>>(8*uint(i))))
		}
		return out
	case model.Decimal:
		body := e.decimalBody(v.D)
		return append(e.tag(5, len(body), true), body...)
	case model.Timestamp:
		body := e.timestampBody(v.T)
		return append(e.tag(6, len(body), true), body...)
	case model.Symbol:
		id := e.sid(v.Sy)
		mag := minimalUint(id)
		if len(mag) < 6 && e.C.Flip("enc:padded-sid") {
			mag = append(make([]byte, 1+e.C.Intn(2)), mag...)
		}
		return append(e.tag(7, len(mag), true), mag...)
	case model.String:
		return append(e.tag(8, len(v.S), true), v.S...)
	case model.Clob:
		return append(e.tag(9, len(v.Bytes), true), v.Bytes...)
	case model.Blob:
		return append(e.tag(10, len(v.Bytes), true), v.Bytes...)
	case model.List, model.Sexp:
		var body []byte
		for _, k := range v.Kids {
			if e.C.Flip("enc:nop-in-seq") {
				body = append(body, e.randomNOP()...)
			}
			body = append(body, e.Value(k)...)
		}
		if len(v.Kids) > 0 && e.C.Flip("enc:nop-in-seq") {
			body = append(body, e.randomNOP()...)
		}
		t := byte(11)
		if v.Kind == model.Sexp {
			t = 12
		}
		return append(e.tag(t, len(body), true), body...)
	case model.Struct:
		type fld struct {
			id  uint64
			enc []byte
		}
		var fs []fld
		for _, k := range v.Kids {
			if k.Field == nil {
				e.fail("struct child without field name")
				continue
			}
			fs = append(fs, fld{e.sid(*k.Field), e.Value(k)})
		}
		sorted := len(fs) > 0 && e.C.Flip("enc:sorted-struct")
		if sorted {
			before := make([]uint64, len(fs))
			for i := range fs {
				before[i] = fs[i].id
			}
			sort.SliceStable(fs, func(i, j int) bool { return fs[i].id < fs[j].id })
			for i := range fs {
				if fs[i].id != before[i] {
					e.UnorderedStructs = true
				}
			}
		}
		var body []byte
		for _, f := range fs {
			if !sorted && e.C.Flip("enc:nop-in-struct") {
				body = append(body, e.VarUInt(0)...)
				body = append(body, e.randomNOP()...)
			}
			body = append(body, e.VarUInt(f.id)...)
			body = append(body, f.enc...)
		}
		if !sorted && len(fs) > 0 && e.C.Flip("enc:nop-in-struct") {
			body = append(body, e.VarUInt(0)...)
			body = append(body, e.randomNOP()...)
		}
		if sorted {
			return append(append([]byte{0xD1}, e.VarUInt(uint64(len(body)))...), body...)
		}
		if len(body) == 1 {
			// a one-byte body would read as the sorted-struct marker: cannot happen (field id + value >= 2)
			e.fail("struct body of length 1")
		}
		return append(e.tag(13, len(body), len(body) != 1), body...)
	}
	e.fail("unknown kind %v", v.Kind)
	return nil
}

func (e *Encoder) decimalBody(d model.Dec) []byte {
	coef := d.Coef
	if coef == nil {
		coef = new(big.Int)
	}
	if coef.Sign() == 0 && d.Exp == 0 && !d.NegZero && !e.C.Flip("enc:dec-explicit-zero") {
		return nil
	}
	body := e.VarInt(int64(d.Exp), false)
	return append(body, e.intField(coef, d.NegZero, true)...)
}

func (e *Encoder) timestampBody(t model.TS) []byte {
	var body []byte
	y, m, d, h, mi := t.Y, t.M, t.D, t.H, t.Mi
	if t.Prec >= model.PMinute && t.OffKnown {
		body = e.VarInt(int64(t.OffMin), false)
		y, m, d, h, mi = t.UTCFields()
	} else {
		body = e.VarInt(0, true)
	}
	body = append(body, e.VarUInt(uint64(y))...)
	if t.Prec >= model.PMonth {
		body = append(body, e.VarUInt(uint64(m))...)
	}
	if t.Prec >= model.PDay {
		body = append(body, e.VarUInt(uint64(d))...)
	}
	if t.Prec >= model.PMinute {
		body = append(body, e.VarUInt(uint64(h))...)
		body = append(body, e.VarUInt(uint64(mi))...)
	}
	if t.Prec >= model.PSecond {
		body = append(body, e.VarUInt(uint64(t.S))...)
		if t.FracDigits > 0 {
			body = append(body, e.VarInt(int64(-t.FracDigits), false)...)
			c := int64(t.Nanos)
			for i := t.FracDigits; i < 9; i++ {
				c /= 10
			}
			body = append(body, e.intField(big.NewInt(c), false, true)...)
		}
	}
	return body
}

// ---- stream level ----

func (e *Encoder) AppendIVM() {
	e.Tops = append(e.Tops, [2]int{len(e.Out), len(e.Out) + 4})
	e.Out = append(e.Out, IVM...)
	e.Ctx = refsym.System()
}

func (e *Encoder) AppendNOP() {
	st := len(e.Out)
	e.Out = append(e.Out, e.randomNOP()...)
	e.Tops = append(e.Tops, [2]int{st, len(e.Out)})
}

// AppendValue appends a top-level user value.
func (e *Encoder) AppendValue(v *model.Value) {
	st := len(e.Out)
	e.Out = append(e.Out, e.Value(v)...)
	e.Tops = append(e.Tops, [2]int{st, len(e.Out)})
}

// LSTValue builds the struct value of a symbol table.
// elems allows non-string entries in the symbols list (gaps); nil means "all strings".
func LSTValue(spec refsym.LSTSpec, gapValues []*model.Value) *model.Value {
	st := model.StructV()
	st.Ann = []model.Sym{model.T("$ion_symbol_table")}
	if spec.Append {
		st.Kids = append(st.Kids, model.SymV(model.T("$ion_symbol_table")).WithField(model.T("imports")))
	} else if len(spec.Imports) > 0 {
		l := model.ListV()
		for _, imp := range spec.Imports {
			is := model.StructV(model.StrV(imp.Name).WithField(model.T("name")))
			if imp.Version >= 0 {
				is.Kids = append(is.Kids, model.Int64V(int64(imp.Version)).WithField(model.T("version")))
			}
			if imp.MaxID >= 0 {
				is.Kids = append(is.Kids, model.Int64V(imp.MaxID).WithField(model.T("max_id")))
			}
			l.Kids = append(l.Kids, is)
		}
		st.Kids = append(st.Kids, l.WithField(model.T("imports")))
	}
	if len(spec.Symbols) > 0 {
		l := model.ListV()
		g := 0
		for _, s := range spec.Symbols {
			if s.Known {
				l.Kids = append(l.Kids, model.StrV(s.Text))
			} else {
				var gv *model.Value
				if g < len(gapValues) {
					gv = gapValues[g].Clone()
				} else {
					gv = model.NullV(model.String)
				}
				g++
				l.Kids = append(l.Kids, gv)
			}
		}
		st.Kids = append(st.Kids, l.WithField(model.T("symbols")))
	}
	return st
}

// AppendLST emits a local symbol table and installs the resulting context.
func (e *Encoder) AppendLST(spec refsym.LSTSpec, gapValues []*model.Value) {
	v := LSTValue(spec, gapValues)
	if e.C.Flip("lst:symbols-before-imports") && len(v.Kids) == 2 {
		v.Kids[0], v.Kids[1] = v.Kids[1], v.Kids[0]
	}
	old := e.NoAltSID
	e.NoAltSID = true
	st := len(e.Out)
	e.Out = append(e.Out, e.Value(v)...)
	e.Tops = append(e.Tops, [2]int{st, len(e.Out)})
	e.NoAltSID = old
	nc, err := refsym.Apply(e.Ctx, e.Cat, spec)
	if err != nil {
		e.fail("LST: %v", err)
		return
	}
	e.Ctx = nc
}

// missing returns the texts of vals not resolvable in the current context.
func (e *Encoder) missing(vals []*model.Value) []string {
	var out []string
	for _, t := range model.SymbolTexts(vals) {
		if _, ok := e.Ctx.FindByName(t); !ok {
			out = append(out, t)
		}
	}
	return out
}

// declare emits a table making every text of vals resolvable.
func (e *Encoder) declare(vals []*model.Value, allowAppend bool) {
	appendMode := allowAppend && e.Ctx.MaxID() > 9 && e.C.Flip("lst:append")
	var need []string
	if appendMode {
		need = e.missing(vals)
	} else {
		for _, t := range model.SymbolTexts(vals) {
			sys := false
			for _, s := range refsym.SystemTexts {
				if s == t {
					sys = true
				}
			}
			if !sys || e.C.Flip("lst:redeclare-system-text") {
				need = append(need, t)
			}
		}
	}
	if e.C != nil && e.C.R != nil && len(need) > 1 && e.C.Flip("lst:shuffled") {
		e.C.R.Shuffle(len(need), func(i, j int) { need[i], need[j] = need[j], need[i] })
	}
	var slots []refsym.Slot
	var gaps []*model.Value
	for _, t := range need {
		if e.C.Flip("lst:gap") {
			slots = append(slots, refsym.Slot{})
			gaps = append(gaps, []*model.Value{model.NullV(model.String), model.Int64V(7), model.NullV(model.Null), model.SymV(model.T("name"))}[e.C.Intn(4)])
		}
		slots = append(slots, refsym.Slot{Text: t, Known: true})
		if e.C.Flip("lst:dup") {
			slots = append(slots, refsym.Slot{Text: t, Known: true})
		}
	}
	if e.C.Flip("lst:unused") {
		slots = append(slots, refsym.Slot{Text: "unused_symbol", Known: true})
	}
	if len(slots) == 0 && !appendMode && e.Ctx.MaxID() == 9 && !e.C.Flip("lst:empty") {
		return
	}
	e.AppendLST(refsym.LSTSpec{Append: appendMode, Symbols: slots}, gaps)
}

// Encoded is the result of Encode.
type Encoded struct {
	Bytes            []byte
	UnorderedStructs bool
}

// Encode renders a whole stream: version marker, symbol tables as needed, values, with choices.
func Encode(vals []*model.Value, c *choice.C) (*Encoded, error) {
	e := NewEncoder(c, nil)
	if err := e.Stream(vals); err != nil {
		return nil, err
	}
	return &Encoded{Bytes: e.Out, UnorderedStructs: e.UnorderedStructs}, nil
}

// Stream appends a whole value stream (tables as needed, values, pads) to the encoder.
func (e *Encoder) Stream(vals []*model.Value) error {
	c := e.C
	// split into segments
	cuts := []int{0}
	if len(vals) > 1 && c.Flip("stream:multi-segment") {
		n := 1 + c.Intn(2)
		for i := 0; i < n; i++ {
			cuts = append(cuts, 1+c.Intn(len(vals)-1))
		}
		sort.Ints(cuts)
	}
	cuts = append(cuts, len(vals))
	for s := 0; s+1 < len(cuts); s++ {
		seg := vals[cuts[s]:cuts[s+1]]
		if s > 0 && len(seg) == 0 {
			continue
		}
		if s > 0 && c.Flip("stream:repeat-ivm") {
			e.AppendIVM()
		}
		if s == 0 && c.Flip("stream:double-ivm") {
			e.AppendIVM()
		}
		if c.Flip("enc:nop-top") {
			e.AppendNOP()
		}
		if s == 0 || len(e.missing(seg)) > 0 || c.Flip("lst:redundant") {
			e.declare(seg, s > 0)
		}
		for _, v := range seg {
			if c.Flip("enc:nop-top") {
				e.AppendNOP()
			}
			e.AppendValue(v)
		}
	}
	if c.Flip("enc:nop-top") {
		e.AppendNOP()
	}
	return e.Err
}
