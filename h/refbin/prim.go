package refbin

import (
	"fmt"
	"math/big"
)

// Primitive decoders used to judge ion-go's codecs byte by byte (C04, C13).

// PVarUInt decodes a VarUInt at the front of bs as a big integer, returning the bytes consumed.
func PVarUInt(bs []byte) (*big.Int, int, error) {
	v := new(big.Int)
	for i, c := range bs {
		v.Lsh(v, 7)
		v.Or(v, big.NewInt(int64(c&0x7F)))
		if c&0x80 != 0 {
			return v, i + 1, nil
		}
	}
	return nil, 0, fmt.Errorf("unterminated VarUInt")
}

// PVarInt decodes a VarInt: value, negative flag, bytes consumed.
func PVarInt(bs []byte) (*big.Int, bool, int, error) {
	if len(bs) == 0 {
		return nil, false, 0, fmt.Errorf("empty VarInt")
	}
	neg := bs[0]&0x40 != 0
	v := big.NewInt(int64(bs[0] & 0x3F))
	n := 1
	c := bs[0]
	for c&0x80 == 0 {
		if n >= len(bs) {
			return nil, false, 0, fmt.Errorf("unterminated VarInt")
		}
		c = bs[n]
		n++
		v.Lsh(v, 7)
		v.Or(v, big.NewInt(int64(c&0x7F)))
	}
	if neg {
		v.Neg(v)
	}
	return v, neg, n, nil
}

// PUInt decodes a big-endian magnitude.
func PUInt(bs []byte) *big.Int { return new(big.Int).SetBytes(bs) }

// PInt decodes a sign-magnitude Int field: value, negative-zero flag.
func PInt(bs []byte) (*big.Int, bool) {
	if len(bs) == 0 {
		return new(big.Int), false
	}
	neg := bs[0]&0x80 != 0
	c := append([]byte{}, bs...)
	c[0] &= 0x7F
	v := new(big.Int).SetBytes(c)
	if neg {
		if v.Sign() == 0 {
			return v, true
		}
		v.Neg(v)
	}
	return v, false
}

// PTag decodes a type descriptor + length: type code, length, header bytes.
func PTag(bs []byte) (int, *big.Int, int, error) {
	if len(bs) == 0 {
		return 0, nil, 0, fmt.Errorf("empty")
	}
	t, l := int(bs[0]>>4), int(bs[0]&0x0F)
	if l < 14 {
		return t, big.NewInt(int64(l)), 1, nil
	}
	if l == 15 {
		return t, nil, 1, nil
	}
	v, n, err := PVarUInt(bs[1:])
	if err != nil {
		return 0, nil, 0, err
	}
	return t, v, 1 + n, nil
}
