// Package reftext is a strict Ion 1.0 text parser and a printer with spelling choices, written
// from the specification. It shares no code with ion-go.
package reftext

import (
	"encoding/base64"
	"errors"
	"fmt"
	"math"
	"math/big"
	"strconv"
	"strings"
	"unicode/utf8"

	"verifh/model"
	"verifh/refsym"
)

var ErrUnsupported = errors.New("reftext: construct outside the reference's scope")

type ParseOpts struct {
	Catalog      refsym.Catalog
	Raw          bool // do not interpret symbol tables / version markers; $n stays a SID
	OnContext    func(c *refsym.Context, afterValues int)
	FinalContext **refsym.Context
}

type parser struct {
	s     string
	p     int
	ctx   *refsym.Context
	o     *ParseOpts
	nvals int
}

type perr struct {
	pos int
	msg string
}

func (e *perr) Error() string { return fmt.Sprintf("text offset %d: %s", e.pos, e.msg) }

func (p *parser) errf(f string, a ...interface{}) error {
	return &perr{p.p, fmt.Sprintf(f, a...)}
}

// Parse parses a complete text stream.
func Parse(src string, o *ParseOpts) ([]*model.Value, error) {
	if o == nil {
		o = &ParseOpts{}
	}
	if !utf8.ValidString(src) {
		return nil, fmt.Errorf("input is not valid UTF-8")
	}
	p := &parser{s: src, ctx: refsym.System(), o: o}
	var out []*model.Value
	for {
		if err := p.ws(true); err != nil {
			return out, err
		}
		if p.eof() {
			break
		}
		start := p.p
		v, bare, err := p.value(cTop)
		if err != nil {
			return out, err
		}
		_ = start
		if !o.Raw {
			if bare && v.Kind == model.Symbol && !v.IsNull && len(v.Ann) == 0 && v.Sy.HasText && v.Sy.Text == "$ion_1_0" {
				p.ctx = refsym.System()
				if o.OnContext != nil {
					o.OnContext(p.ctx, p.nvals)
				}
				continue
			}
			if refsym.IsLST(v) {
				if v.IsNull {
					return out, fmt.Errorf("%w: null.struct annotated as symbol table", ErrUnsupported)
				}
				spec, err := refsym.ParseLST(v)
				if err != nil {
					return out, fmt.Errorf("%w: %v", ErrUnsupported, err)
				}
				nc, err := refsym.Apply(p.ctx, o.Catalog, spec)
				if err != nil {
					return out, err
				}
				p.ctx = nc
				if o.OnContext != nil {
					o.OnContext(p.ctx, p.nvals)
				}
				continue
			}
		}
		out = append(out, v)
		p.nvals++
	}
	if o.FinalContext != nil {
		*o.FinalContext = p.ctx
	}
	return out, nil
}

type pctx int

const (
	cTop pctx = iota
	cList
	cSexp
	cStruct
)

func (p *parser) eof() bool { return p.p >= len(p.s) }

func (p *parser) peek() byte {
	if p.p < len(p.s) {
		return p.s[p.p]
	}
	return 0
}

func (p *parser) peekAt(i int) byte {
	if p.p+i < len(p.s) {
		return p.s[p.p+i]
	}
	return 0
}

func (p *parser) has(pref string) bool { return strings.HasPrefix(p.s[p.p:], pref) }

func isWS(c byte) bool { return c == ' ' || (c >= 0x09 && c <= 0x0D) }

// ws skips whitespace and (when comments is true) comments.
func (p *parser) ws(comments bool) error {
	for !p.eof() {
		c := p.peek()
		if isWS(c) {
			p.p++
			continue
		}
		if comments && c == '/' && p.peekAt(1) == '/' {
			for !p.eof() && p.peek() != '\n' && p.peek() != '\r' {
				p.p++
			}
			continue
		}
		if comments && c == '/' && p.peekAt(1) == '*' {
			end := strings.Index(p.s[p.p+2:], "*/")
			if end < 0 {
				return p.errf("unterminated block comment")
			}
			p.p += 2 + end + 2
			continue
		}
		break
	}
	return nil
}

func isIDStart(c byte) bool {
	return (c >= 'a' && c <= 'z') || (c >= 'A' && c <= 'Z') || c == '_' || c == '$'
}
func isDigit(c byte) bool  { return c >= '0' && c <= '9' }
func isIDPart(c byte) bool { return isIDStart(c) || isDigit(c) }
func isOp(c byte) bool     { return strings.IndexByte("!#%&*+-./;<=>?@^`|~", c) >= 0 }

// numeric stop: end of input, one of {}[](),"' whitespace, or the start of a comment
func (p *parser) atStop() bool {
	if p.eof() {
		return true
	}
	c := p.peek()
	if strings.IndexByte("{}[](),\"'", c) >= 0 || isWS(c) {
		return true
	}
	if c == '/' && (p.peekAt(1) == '/' || p.peekAt(1) == '*') {
		return true
	}
	return false
}

func (p *parser) symFromID(text string) (model.Sym, error) {
	// $n (digits only) is a symbol id reference
	if len(text) > 1 && text[0] == '$' {
		alld := true
		for i := 1; i < len(text); i++ {
			if !isDigit(text[i]) {
				alld = false
			}
		}
		if alld {
			id, err := strconv.ParseUint(text[1:], 10, 63)
			if err != nil {
				return model.Sym{}, fmt.Errorf("%w: huge symbol id", ErrUnsupported)
			}
			if p.o.Raw {
				return model.SID(int64(id)), nil
			}
			return p.ctx.Sym(id)
		}
	}
	return model.T(text), nil
}

// value parses annotations + value. bare reports an unquoted identifier symbol (for $ion_1_0).
func (p *parser) value(c pctx) (*model.Value, bool, error) {
	var anns []model.Sym
	for {
		if err := p.ws(true); err != nil {
			return nil, false, err
		}
		if p.eof() {
			return nil, false, p.errf("value expected")
		}
		ch := p.peek()
		// possible annotation: identifier or quoted symbol followed by ::
		if isIDStart(ch) || (ch == '\'' && !p.has("'''")) {
			save := p.p
			var sym model.Sym
			quoted := ch == '\''
			var idtext string
			if quoted {
				t, err := p.quoted('\'', false)
				if err != nil {
					return nil, false, err
				}
				sym = model.T(t)
			} else {
				idtext = p.ident()
			}
			after := p.p
			if err := p.ws(true); err != nil {
				return nil, false, err
			}
			if p.has("::") {
				p.p += 2
				if !quoted {
					switch idtext {
					case "null", "true", "false", "nan":
						return nil, false, p.errf("keyword %q used as annotation", idtext)
					}
					var err error
					sym, err = p.symFromID(idtext)
					if err != nil {
						return nil, false, err
					}
				}
				anns = append(anns, sym)
				continue
			}
			// not an annotation: it is the value
			p.p = after
			if quoted {
				v := model.SymV(sym)
				v.Ann = anns
				return v, false, nil
			}
			p.p = save
		}
		break
	}
	v, bare, err := p.bareValue(c)
	if err != nil {
		return nil, false, err
	}
	v.Ann = anns
	return v, bare && len(anns) == 0, nil
}

func (p *parser) ident() string {
	st := p.p
	for !p.eof() && isIDPart(p.peek()) {
		p.p++
	}
	return p.s[st:p.p]
}

var typeNames = map[string]model.Kind{"null": model.Null, "bool": model.Bool, "int": model.Int, "float": model.Float,
	"decimal": model.Decimal, "timestamp": model.Timestamp, "symbol": model.Symbol, "string": model.String,
	"clob": model.Clob, "blob": model.Blob, "list": model.List, "sexp": model.Sexp, "struct": model.Struct}

func (p *parser) bareValue(c pctx) (*model.Value, bool, error) {
	ch := p.peek()
	switch {
	case p.has("{{"):
		v, err := p.lob()
		return v, false, err
	case ch == '{':
		v, err := p.structV()
		return v, false, err
	case ch == '[':
		v, err := p.seq('[', ']', cList)
		return v, false, err
	case ch == '(':
		v, err := p.seq('(', ')', cSexp)
		return v, false, err
	case ch == '"':
		s, err := p.quoted('"', false)
		if err != nil {
			return nil, false, err
		}
		return model.StrV(s), false, nil
	case p.has("'''"):
		s, err := p.longString(true, false)
		if err != nil {
			return nil, false, err
		}
		return model.StrV(s), false, nil
	case ch == '\'':
		s, err := p.quoted('\'', false)
		if err != nil {
			return nil, false, err
		}
		return model.SymV(model.T(s)), false, nil
	case isDigit(ch) || (ch == '-' && isDigit(p.peekAt(1))):
		v, err := p.number()
		return v, false, err
	case (ch == '+' || ch == '-') && p.has(string(ch)+"inf"):
		// +inf / -inf only when followed by a stop
		save := p.p
		p.p += 4
		if p.atStop() {
			if ch == '+' {
				return model.FloatV(math.Inf(1)), false, nil
			}
			return model.FloatV(math.Inf(-1)), false, nil
		}
		p.p = save
		if c == cSexp {
			return p.operator()
		}
		return nil, false, p.errf("unexpected %q", ch)
	case isIDStart(ch):
		id := p.ident()
		switch id {
		case "true":
			return model.BoolV(true), false, nil
		case "false":
			return model.BoolV(false), false, nil
		case "nan":
			return model.FloatV(math.NaN()), false, nil
		case "null":
			if p.peek() == '.' {
				p.p++
				tn := p.ident()
				k, ok := typeNames[tn]
				if !ok || tn == "" {
					return nil, false, p.errf("bad null type %q", tn)
				}
				return model.NullV(k), false, nil
			}
			return model.NullV(model.Null), false, nil
		}
		s, err := p.symFromID(id)
		if err != nil {
			return nil, false, err
		}
		return model.SymV(s), true, nil
	case isOp(ch) && c == cSexp:
		return p.operator()
	}
	return nil, false, p.errf("unexpected character %q", ch)
}

func (p *parser) operator() (*model.Value, bool, error) {
	st := p.p
	for !p.eof() && isOp(p.peek()) {
		if p.peek() == '/' && (p.peekAt(1) == '/' || p.peekAt(1) == '*') {
			break
		}
		p.p++
	}
	if p.p == st {
		return nil, false, p.errf("operator expected")
	}
	return model.SymV(model.T(p.s[st:p.p])), false, nil
}

func (p *parser) seq(open, close byte, c pctx) (*model.Value, error) {
	p.p++
	v := &model.Value{Kind: model.List}
	if c == cSexp {
		v.Kind = model.Sexp
	}
	first := true
	for {
		if err := p.ws(true); err != nil {
			return nil, err
		}
		if p.eof() {
			return nil, p.errf("unterminated container")
		}
		if p.peek() == close {
			p.p++
			return v, nil
		}
		if c == cList && !first {
			if p.peek() != ',' {
				return nil, p.errf("comma expected in list")
			}
			p.p++
			if err := p.ws(true); err != nil {
				return nil, err
			}
			if p.peek() == close {
				p.p++
				return v, nil
			}
		}
		k, _, err := p.value(c)
		if err != nil {
			return nil, err
		}
		v.Kids = append(v.Kids, k)
		first = false
	}
}

func (p *parser) structV() (*model.Value, error) {
	p.p++
	v := &model.Value{Kind: model.Struct}
	first := true
	for {
		if err := p.ws(true); err != nil {
			return nil, err
		}
		if p.eof() {
			return nil, p.errf("unterminated struct")
		}
		if p.peek() == '}' {
			p.p++
			return v, nil
		}
		if !first {
			if p.peek() != ',' {
				return nil, p.errf("comma expected in struct")
			}
			p.p++
			if err := p.ws(true); err != nil {
				return nil, err
			}
			if p.peek() == '}' {
				p.p++
				return v, nil
			}
		}
		// field name
		var fn model.Sym
		ch := p.peek()
		switch {
		case ch == '"':
			s, err := p.quoted('"', false)
			if err != nil {
				return nil, err
			}
			fn = model.T(s)
		case p.has("'''"):
			s, err := p.longString(true, false)
			if err != nil {
				return nil, err
			}
			fn = model.T(s)
		case ch == '\'':
			s, err := p.quoted('\'', false)
			if err != nil {
				return nil, err
			}
			fn = model.T(s)
		case isIDStart(ch):
			id := p.ident()
			switch id {
			case "null", "true", "false", "nan":
				return nil, p.errf("keyword %q used as field name", id)
			}
			var err error
			fn, err = p.symFromID(id)
			if err != nil {
				return nil, err
			}
		default:
			return nil, p.errf("field name expected, found %q", ch)
		}
		if err := p.ws(true); err != nil {
			return nil, err
		}
		if p.peek() != ':' || p.peekAt(1) == ':' {
			return nil, p.errf("colon expected after field name")
		}
		p.p++
		k, _, err := p.value(cStruct)
		if err != nil {
			return nil, err
		}
		k.Field = &fn
		v.Kids = append(v.Kids, k)
		first = false
	}
}

func hexVal(c byte) int {
	switch {
	case c >= '0' && c <= '9':
		return int(c - '0')
	case c >= 'a' && c <= 'f':
		return int(c-'a') + 10
	case c >= 'A' && c <= 'F':
		return int(c-'A') + 10
	}
	return -1
}

func (p *parser) hexN(n int) (rune, error) {
	if p.p+n > len(p.s) {
		return 0, p.errf("truncated hex escape")
	}
	var r rune
	for i := 0; i < n; i++ {
		h := hexVal(p.s[p.p+i])
		if h < 0 {
			return 0, p.errf("bad hex digit in escape")
		}
		r = r<<4 | rune(h)
	}
	p.p += n
	return r, nil
}

// escape parses the escape after the backslash. clob: only byte escapes.
// Returns the bytes to append (nil for line continuation).
func (p *parser) escape(clob bool) ([]byte, error) {
	if p.eof() {
		return nil, p.errf("truncated escape")
	}
	c := p.peek()
	p.p++
	switch c {
	case '0':
		return []byte{0}, nil
	case 'a':
		return []byte{7}, nil
	case 'b':
		return []byte{8}, nil
	case 't':
		return []byte{9}, nil
	case 'n':
		return []byte{10}, nil
	case 'f':
		return []byte{12}, nil
	case 'r':
		return []byte{13}, nil
	case 'v':
		return []byte{11}, nil
	case '"', '\'', '/', '?', '\\':
		return []byte{c}, nil
	case '\n':
		return nil, nil
	case '\r':
		if p.peek() == '\n' {
			p.p++
		}
		return nil, nil
	case 'x':
		r, err := p.hexN(2)
		if err != nil {
			return nil, err
		}
		if clob {
			return []byte{byte(r)}, nil
		}
		return []byte(string(r)), nil
	case 'u', 'U':
		if clob {
			return nil, p.errf("unicode escape in clob")
		}
		n := 4
		if c == 'U' {
			n = 8
		}
		r, err := p.hexN(n)
		if err != nil {
			return nil, err
		}
		if r >= 0xD800 && r <= 0xDBFF && c == 'u' {
			// surrogate pair written as two \u escapes
			if p.has("\\u") {
				save := p.p
				p.p += 2
				lo, err := p.hexN(4)
				if err != nil {
					return nil, err
				}
				if lo >= 0xDC00 && lo <= 0xDFFF {
					cp := 0x10000 + (r-0xD800)<<10 + (lo - 0xDC00)
					return []byte(string(cp)), nil
				}
				p.p = save
			}
			return nil, p.errf("lone surrogate escape")
		}
		if (r >= 0xD800 && r <= 0xDFFF) || r > 0x10FFFF {
			return nil, p.errf("escape denotes no Unicode scalar value")
		}
		return []byte(string(r)), nil
	}
	return nil, p.errf("illegal escape \\%c", c)
}

// quoted parses "..." or '...' (single line).
func (p *parser) quoted(q byte, clob bool) (string, error) {
	p.p++
	var b []byte
	for {
		if p.eof() {
			return "", p.errf("unterminated quoted text")
		}
		c := p.peek()
		if c == q {
			p.p++
			return string(b), nil
		}
		if c == '\\' {
			p.p++
			e, err := p.escape(clob)
			if err != nil {
				return "", err
			}
			b = append(b, e...)
			continue
		}
		if c < 0x20 && c != '\t' && c != 0x0B && c != 0x0C {
			return "", p.errf("raw control character 0x%02X in quoted text", c)
		}
		if clob && c >= 0x80 {
			return "", p.errf("non-ASCII character in clob")
		}
		b = append(b, c)
		p.p++
	}
}

// longString parses one or more adjacent '''...''' segments.
func (p *parser) longString(comments bool, clob bool) (string, error) {
	var b []byte
	for {
		if !p.has("'''") {
			return "", p.errf("long string expected")
		}
		p.p += 3
		for {
			if p.eof() {
				return "", p.errf("unterminated long string")
			}
			if p.has("'''") {
				p.p += 3
				break
			}
			c := p.peek()
			if c == '\\' {
				p.p++
				e, err := p.escape(clob)
				if err != nil {
					return "", err
				}
				b = append(b, e...)
				continue
			}
			if c == '\r' {
				// CR LF and CR are normalised to LF
				p.p++
				if p.peek() == '\n' {
					p.p++
				}
				b = append(b, '\n')
				continue
			}
			if c < 0x20 && c != '\t' && c != 0x0B && c != 0x0C && c != '\n' {
				return "", p.errf("raw control character 0x%02X in long string", c)
			}
			if clob && c >= 0x80 {
				return "", p.errf("non-ASCII character in clob")
			}
			b = append(b, c)
			p.p++
		}
		save := p.p
		if err := p.ws(comments); err != nil {
			return "", err
		}
		if p.has("'''") {
			continue
		}
		p.p = save
		return string(b), nil
	}
}

func (p *parser) lob() (*model.Value, error) {
	p.p += 2
	if err := p.ws(false); err != nil {
		return nil, err
	}
	if p.eof() {
		return nil, p.errf("unterminated lob")
	}
	closeLob := func() error {
		if err := p.ws(false); err != nil {
			return err
		}
		if !p.has("}}") {
			return p.errf("}} expected")
		}
		p.p += 2
		return nil
	}
	switch {
	case p.peek() == '"':
		s, err := p.quoted('"', true)
		if err != nil {
			return nil, err
		}
		if err := closeLob(); err != nil {
			return nil, err
		}
		return model.ClobV([]byte(s)), nil
	case p.has("'''"):
		s, err := p.longString(false, true)
		if err != nil {
			return nil, err
		}
		if err := closeLob(); err != nil {
			return nil, err
		}
		return model.ClobV([]byte(s)), nil
	}
	var b64 []byte
	for {
		if p.eof() {
			return nil, p.errf("unterminated blob")
		}
		c := p.peek()
		if c == '}' {
			break
		}
		if isWS(c) {
			p.p++
			continue
		}
		if !(isDigit(c) || (c >= 'a' && c <= 'z') || (c >= 'A' && c <= 'Z') || c == '+' || c == '/' || c == '=') {
			return nil, p.errf("illegal character %q in blob", c)
		}
		b64 = append(b64, c)
		p.p++
	}
	if !p.has("}}") {
		return nil, p.errf("}} expected")
	}
	p.p += 2
	data, err := base64.StdEncoding.Strict().DecodeString(string(b64))
	if err != nil {
		return nil, p.errf("bad base64: %v", err)
	}
	return model.BlobV(data), nil
}

// digits parses DIGIT (_? DIGIT)* for the given digit test and returns the digits without underscores.
func (p *parser) digits(ok func(byte) bool) (string, error) {
	var b []byte
	if p.eof() || !ok(p.peek()) {
		return "", p.errf("digit expected")
	}
	for !p.eof() {
		c := p.peek()
		if ok(c) {
			b = append(b, c)
			p.p++
			continue
		}
		if c == '_' {
			if p.p+1 < len(p.s) && ok(p.s[p.p+1]) {
				p.p++
				continue
			}
			return "", p.errf("underscore not between digits")
		}
		break
	}
	return string(b), nil
}

func (p *parser) number() (*model.Value, error) {
	st := p.p
	neg := false
	if p.peek() == '-' {
		neg = true
		p.p++
	}
	// timestamp: four digits followed by '-' or 'T'
	if !neg && p.p+4 < len(p.s)+0 && isDigit(p.peekAt(0)) && isDigit(p.peekAt(1)) && isDigit(p.peekAt(2)) && isDigit(p.peekAt(3)) &&
		(p.peekAt(4) == '-' || p.peekAt(4) == 'T') {
		return p.timestamp()
	}
	if p.peek() == '0' && (p.peekAt(1) == 'x' || p.peekAt(1) == 'X' || p.peekAt(1) == 'b' || p.peekAt(1) == 'B') {
		base := 16
		okf := func(c byte) bool { return hexVal(c) >= 0 }
		if p.peekAt(1) == 'b' || p.peekAt(1) == 'B' {
			base = 2
			okf = func(c byte) bool { return c == '0' || c == '1' }
		}
		p.p += 2
		ds, err := p.digits(okf)
		if err != nil {
			return nil, err
		}
		if !p.atStop() {
			return nil, p.errf("number not followed by a stop character")
		}
		n, _ := new(big.Int).SetString(ds, base)
		if neg {
			if n.Sign() == 0 {
				return nil, p.errf("negative zero int")
			}
			n.Neg(n)
		}
		return &model.Value{Kind: model.Int, I: n}, nil
	}
	ip, err := p.digits(isDigit)
	if err != nil {
		return nil, err
	}
	if len(ip) > 1 && ip[0] == '0' {
		return nil, p.errf("leading zero in number")
	}
	frac := ""
	hasPoint := false
	if p.peek() == '.' {
		hasPoint = true
		p.p++
		if isDigit(p.peek()) {
			frac, err = p.digits(isDigit)
			if err != nil {
				return nil, err
			}
		}
	}
	expCh := byte(0)
	expStr := ""
	if c := p.peek(); c == 'e' || c == 'E' || c == 'd' || c == 'D' {
		expCh = c | 0x20
		p.p++
		es := p.p
		if p.peek() == '+' || p.peek() == '-' {
			p.p++
		}
		if !isDigit(p.peek()) {
			return nil, p.errf("exponent digits expected")
		}
		for isDigit(p.peek()) {
			p.p++
		}
		expStr = p.s[es:p.p]
	}
	if !p.atStop() {
		return nil, p.errf("number %q not followed by a stop character", p.s[st:p.p])
	}
	if !hasPoint && expCh == 0 {
		n, _ := new(big.Int).SetString(ip, 10)
		if neg {
			if n.Sign() == 0 {
				return nil, p.errf("negative zero int")
			}
			n.Neg(n)
		}
		return &model.Value{Kind: model.Int, I: n}, nil
	}
	if expCh == 'e' {
		txt := ip
		if neg {
			txt = "-" + txt
		}
		if hasPoint {
			txt += "." + frac
		}
		txt += "e" + expStr
		f, err := strconv.ParseFloat(txt, 64)
		if err != nil {
			if ne, ok := err.(*strconv.NumError); !ok || ne.Err != strconv.ErrRange {
				return nil, p.errf("bad float %q", txt)
			}
		}
		return model.FloatV(f), nil
	}
	// decimal
	exp := int64(0)
	if expStr != "" {
		e, err := strconv.ParseInt(expStr, 10, 64)
		if err != nil {
			return nil, fmt.Errorf("%w: decimal exponent", ErrUnsupported)
		}
		exp = e
	}
	exp -= int64(len(frac))
	if exp > math.MaxInt32 || exp < math.MinInt32 {
		return nil, fmt.Errorf("%w: decimal exponent out of int32", ErrUnsupported)
	}
	coef, _ := new(big.Int).SetString(ip+frac, 10)
	d := model.Dec{Coef: coef, Exp: int32(exp)}
	if neg {
		if coef.Sign() == 0 {
			d.NegZero = true
		} else {
			coef.Neg(coef)
		}
	}
	return model.DecV(d), nil
}

func (p *parser) fixedDigits(n int) (int, error) {
	if p.p+n > len(p.s) {
		return 0, p.errf("truncated timestamp")
	}
	v := 0
	for i := 0; i < n; i++ {
		c := p.s[p.p+i]
		if !isDigit(c) {
			return 0, p.errf("digit expected in timestamp")
		}
		v = v*10 + int(c-'0')
	}
	p.p += n
	return v, nil
}

func (p *parser) timestamp() (*model.Value, error) {
	var t model.TS
	var err error
	done := func() (*model.Value, error) {
		if !p.atStop() {
			return nil, p.errf("timestamp not followed by a stop character")
		}
		t = t.Normalize()
		if !t.Valid() {
			return nil, p.errf("impossible timestamp %+v", t)
		}
		return model.TSV(t), nil
	}
	if t.Y, err = p.fixedDigits(4); err != nil {
		return nil, err
	}
	t.Prec = model.PYear
	if p.peek() == 'T' {
		p.p++
		return done()
	}
	if p.peek() != '-' {
		return nil, p.errf("bad timestamp")
	}
	p.p++
	if t.M, err = p.fixedDigits(2); err != nil {
		return nil, err
	}
	t.Prec = model.PMonth
	if p.peek() == 'T' {
		p.p++
		return done()
	}
	if p.peek() != '-' {
		return nil, p.errf("bad timestamp")
	}
	p.p++
	if t.D, err = p.fixedDigits(2); err != nil {
		return nil, err
	}
	t.Prec = model.PDay
	if p.peek() != 'T' {
		return done()
	}
	p.p++
	if !isDigit(p.peek()) {
		return done()
	}
	if t.H, err = p.fixedDigits(2); err != nil {
		return nil, err
	}
	if p.peek() != ':' {
		return nil, p.errf("hour without minute")
	}
	p.p++
	if t.Mi, err = p.fixedDigits(2); err != nil {
		return nil, err
	}
	t.Prec = model.PMinute
	if p.peek() == ':' {
		p.p++
		if t.S, err = p.fixedDigits(2); err != nil {
			return nil, err
		}
		t.Prec = model.PSecond
		if p.peek() == '.' {
			p.p++
			st := p.p
			for isDigit(p.peek()) {
				p.p++
			}
			fr := p.s[st:p.p]
			if len(fr) == 0 {
				return nil, p.errf("fraction digits expected")
			}
			if len(fr) > 9 {
				return nil, fmt.Errorf("%w: timestamp fraction finer than nanoseconds", ErrUnsupported)
			}
			t.FracDigits = len(fr)
			n, _ := strconv.Atoi(fr)
			for i := len(fr); i < 9; i++ {
				n *= 10
			}
			t.Nanos = n
		}
	}
	// offset is mandatory
	switch p.peek() {
	case 'Z':
		p.p++
		t.OffKnown = true
	case '+', '-':
		sg := p.peek()
		p.p++
		oh, err := p.fixedDigits(2)
		if err != nil {
			return nil, err
		}
		if p.peek() != ':' {
			return nil, p.errf("bad offset")
		}
		p.p++
		om, err := p.fixedDigits(2)
		if err != nil {
			return nil, err
		}
		if oh > 23 || om > 59 {
			return nil, p.errf("offset out of range")
		}
		off := oh*60 + om
		if sg == '-' {
			if off == 0 {
				t.OffKnown = false
			} else {
				t.OffKnown = true
				t.OffMin = -off
			}
		} else {
			t.OffKnown = true
			t.OffMin = off
		}
	default:
		return nil, p.errf("timestamp offset expected")
	}
	return done()
}
