package reftext

import (
	"encoding/base64"
	"fmt"
	"math"
	"math/big"
	"strconv"
	"strings"
	"unicode/utf8"

	"verifh/choice"
	"verifh/model"
	"verifh/refsym"
)

// Printer renders model values as Ion text with spelling choices.
type Printer struct {
	C   *choice.C
	Cat refsym.Catalog
	Ctx *refsym.Context
	B   strings.Builder
	lastWasLong bool
	// Raw substitutes the given text for the (unannotated) rendering of a value node (C07).
	Raw map[*model.Value]string
	// Tops records [start,end) offsets of every top-level value rendered.
	Tops [][2]int
	// UseSIDs lets the printer write $n for texts the current context defines.
	UseSIDs bool
	Err     error
}

func NewPrinter(c *choice.C) *Printer {
	return &Printer{C: c, Ctx: refsym.System()}
}

func (p *Printer) fail(f string, a ...interface{}) {
	if p.Err == nil {
		p.Err = fmt.Errorf(f, a...)
	}
}

// ---- whitespace / comments ----

var wsChoices = []string{" ", "\t", "\n", "\r\n", "\r", "  "}

func (p *Printer) comment() string {
	bodies := []string{"", " c ", "x]}){{\"'", " '''\" ", "**", " a::b ", "/ /", " \\ ", "/", "/ x ", "*", "/*", "//", "* /"}
	b := bodies[p.C.Intn(len(bodies))]
	if p.C.Intn(2) == 0 {
		nl := []string{"\n", "\r\n", "\r"}[p.C.Intn(3)]
		return "//" + strings.ReplaceAll(b, "\n", " ") + nl
	}
	return "/*" + b + "*/"
}

// optWS is optional whitespace/comments (may be empty).
func (p *Printer) optWS() string {
	var s string
	if p.C.Flip("ws:extra") {
		s += wsChoices[p.C.Intn(len(wsChoices))]
	}
	if p.C.Flip("ws:vt-ff") {
		s += []string{"\v", "\f"}[p.C.Intn(2)]
	}
	if p.C.Flip("ws:comment") {
		s += " " + p.comment()
	}
	return s
}

// reqWS is mandatory separation (at least one whitespace character).
func (p *Printer) reqWS() string {
	s := " "
	if p.C != nil && p.C.R != nil && p.C.Flip("ws:alt-separator") {
		s = wsChoices[p.C.Intn(len(wsChoices))]
	}
	return s + p.optWS()
}

// ---- symbols ----

func identOK(s string) bool {
	if s == "" || !isIDStart(s[0]) {
		return false
	}
	for i := 1; i < len(s); i++ {
		if !isIDPart(s[i]) {
			return false
		}
	}
	switch s {
	case "null", "true", "false", "nan":
		return false
	}
	// $n-shaped text must be quoted (unquoted it is a SID reference)
	if len(s) > 1 && s[0] == '$' {
		alld := true
		for i := 1; i < len(s); i++ {
			if !isDigit(s[i]) {
				alld = false
			}
		}
		if alld {
			return false
		}
	}
	return true
}

func operatorOK(s string) bool {
	if s == "" {
		return false
	}
	for i := 0; i < len(s); i++ {
		if !isOp(s[i]) {
			return false
		}
	}
	if strings.Contains(s, "//") || strings.Contains(s, "/*") {
		return false
	}
	// a leading sign followed by inf would read as a float only when the whole token is +inf/-inf
	if s == "+inf" || s == "-inf" {
		return false
	}
	return true
}

// operatorGlueOK: prev is a bare operator symbol as rendered inside an s-expression and cur, the rendering of
// the next value, may follow it without any separator: cur does not start with an operator character (the
// two would merge), and the pair does not spell a signed number or a signed infinity.
func operatorGlueOK(prev, cur string) bool {
	if !operatorOK(prev) || cur == "" || isOp(cur[0]) {
		return false
	}
	last := prev[len(prev)-1]
	if (last == '+' || last == '-') && strings.HasPrefix(cur, "inf") {
		return false
	}
	if (last == '-' || last == '.') && cur[0] >= '0' && cur[0] <= '9' {
		return false
	}
	return true
}

// symbol renders a symbol token. where: 'v' value, 'a' annotation, 'f' field name; inSexp for operators.
func (p *Printer) symbol(s model.Sym, where byte, inSexp bool) string {
	if !s.HasText {
		if s.SID < 0 || uint64(s.SID) > p.Ctx.MaxID() {
			p.fail("symbol id %d not defined in context", s.SID)
		}
		return fmt.Sprintf("$%d", s.SID)
	}
	t := s.Text
	// (without a declared table only system symbols have ids: name is $4 in any stream)
	if p.UseSIDs || (len(p.Ctx.IDsFor(t)) > 0 && p.C.FlipP("sym:system-sid", 0.25)) {
		if ids := p.Ctx.IDsFor(t); len(ids) > 0 && (!p.UseSIDs || p.C.Flip("sym:as-sid")) {
			return fmt.Sprintf("$%d", ids[p.C.Intn(len(ids))])
		}
	}
	if where == 'f' && utf8.ValidString(t) {
		if p.C.Flip("field:as-string") {
			if p.C.Intn(3) == 0 {
				return p.longString(t, false, true)
			}
			return p.shortQuoted(t, '"', false)
		}
	}
	if where == 'v' && inSexp && operatorOK(t) && !p.C.Flip("sym:quoted-operator") {
		return t
	}
	if identOK(t) && !p.C.Flip("sym:quoted") {
		return t
	}
	return p.shortQuoted(t, '\'', false)
}

// ---- strings ----

var simpleEsc = map[byte]string{0: "\\0", 7: "\\a", 8: "\\b", 9: "\\t", 10: "\\n", 12: "\\f", 13: "\\r", 11: "\\v",
	'"': "\\\"", '\'': "\\'", '/': "\\/", '?': "\\?", '\\': "\\\\"}

func (p *Printer) escRune(r rune, clob bool) string {
	if r < 0x80 {
		if e, ok := simpleEsc[byte(r)]; ok && p.C.Intn(2) == 0 {
			return e
		}
	}
	hexf := "%02x"
	if p.C.Intn(2) == 0 {
		hexf = "%02X"
	}
	if clob || (r <= 0xFF && p.C.Intn(2) == 0) {
		return "\\x" + fmt.Sprintf(hexf, r)
	}
	if r <= 0xFFFF && p.C.Intn(2) == 0 {
		return "\\u" + fmt.Sprintf("%04x", r)
	}
	if r > 0xFFFF && p.C.FlipP("str:surrogate-pair-escape", 0.15) {
		r -= 0x10000
		return fmt.Sprintf("\\u%04X\\u%04X", 0xD800+(r>>10), 0xDC00+(r&0x3FF))
	}
	return "\\U" + fmt.Sprintf("%08x", r)
}

// shortQuoted renders text between q quotes on one line.
func (p *Printer) shortQuoted(t string, q byte, clob bool) string {
	var b strings.Builder
	b.WriteByte(q)
	bs := []byte(t)
	for i := 0; i < len(bs); {
		var r rune
		sz := 1
		if clob {
			r = rune(bs[i])
		} else {
			r, sz = utf8.DecodeRune(bs[i:])
		}
		must := r == rune(q) || r == '\\' || r < 0x20 || (clob && r >= 0x7F)
		if r == '\t' && p.C.Intn(2) == 0 {
			must = false
		}
		if must || p.C.Flip("str:escape") {
			b.WriteString(p.escRune(r, clob))
		} else {
			b.Write(bs[i : i+sz])
		}
		i += sz
	}
	b.WriteByte(q)
	return b.String()
}

// longString renders text as 1..4 concatenated ''' segments.
func (p *Printer) longString(t string, clob bool, comments bool) string {
	bs := []byte(t)
	// choose cut points on rune boundaries
	cuts := []int{0}
	n := p.C.Intn(4)
	for i := 0; i < n && len(bs) > 0; i++ {
		c := p.C.Intn(len(bs) + 1)
		for !clob && c < len(bs) && !utf8.RuneStart(bs[c]) {
			c++
		}
		cuts = append(cuts, c)
	}
	cuts = append(cuts, len(bs))
	sortInts(cuts)
	var b strings.Builder
	for s := 0; s+1 < len(cuts); s++ {
		if s > 0 {
			if comments {
				b.WriteString(p.optWS())
				if b.Len() > 0 && strings.HasSuffix(b.String(), "'") {
					b.WriteString(" ")
				}
			} else if p.C.Intn(2) == 0 {
				b.WriteString(wsChoices[p.C.Intn(len(wsChoices))])
			}
		}
		seg := bs[cuts[s]:cuts[s+1]]
		b.WriteString("'''")
		prevRawQuote := false
		for i := 0; i < len(seg); {
			var r rune
			sz := 1
			if clob {
				r = rune(seg[i])
			} else {
				r, sz = utf8.DecodeRune(seg[i:])
			}
			raw := true
			switch {
			case r == '\'':
				last := i+sz >= len(seg)
				nextQ := !last && seg[i+sz] == '\''
				if last || nextQ || prevRawQuote || i == 0 || p.C.Intn(2) == 0 {
					raw = false
				}
			case r == '\\':
				raw = false
			case r == '\n':
				if !p.C.Flip("str:raw-newline") {
					raw = false
				} else if p.C.Flip("str:raw-crlf") && !clob {
					b.WriteString([]string{"\r\n", "\r"}[p.C.Intn(2)])
					prevRawQuote = false
					i += sz
					continue
				}
			case r == '\r':
				raw = false // a raw CR would be normalised away
			case r < 0x20 && r != '\t':
				raw = false
			case clob && r >= 0x7F:
				raw = false
			}
			if raw && p.C.Flip("str:escape") {
				raw = false
			}
			if raw {
				b.Write(seg[i : i+sz])
				prevRawQuote = r == '\''
			} else {
				b.WriteString(p.escRune(r, clob))
				prevRawQuote = false
			}
			i += sz
			if !clob && p.C.FlipP("str:line-continuation", 0.02) {
				b.WriteString("\\\n")
			}
		}
		b.WriteString("'''")
	}
	return b.String()
}

func sortInts(a []int) {
	for i := 1; i < len(a); i++ {
		for j := i; j > 0 && a[j] < a[j-1]; j-- {
			a[j], a[j-1] = a[j-1], a[j]
		}
	}
}

// ---- numbers ----

func (p *Printer) underscore(digits string) string {
	if len(digits) < 2 || !p.C.Flip("num:underscore") {
		return digits
	}
	var b strings.Builder
	for i := 0; i < len(digits); i++ {
		if i > 0 && p.C.Intn(3) == 0 {
			b.WriteByte('_')
		}
		b.WriteByte(digits[i])
	}
	return b.String()
}

func (p *Printer) intText(n *big.Int) string {
	neg := n.Sign() < 0
	a := new(big.Int).Abs(n)
	var s string
	switch {
	case p.C.Flip("int:hex"):
		d := a.Text(16)
		var b strings.Builder
		for i := 0; i < len(d); i++ {
			c := d[i]
			if c >= 'a' && p.C.Intn(2) == 0 {
				c -= 32
			}
			b.WriteByte(c)
		}
		d = b.String()
		if p.C.Intn(3) == 0 {
			d = strings.Repeat("0", 1+p.C.Intn(2)) + d
		}
		s = []string{"0x", "0X"}[p.C.Intn(2)] + p.underscore(d)
	case p.C.Flip("int:binary"):
		d := a.Text(2)
		if p.C.Intn(3) == 0 {
			d = strings.Repeat("0", 1+p.C.Intn(3)) + d
		}
		s = []string{"0b", "0B"}[p.C.Intn(2)] + p.underscore(d)
	default:
		s = p.underscore(a.String())
	}
	if neg {
		s = "-" + s
	}
	return s
}

func (p *Printer) expText(e int64, letter string) string {
	if p.C.Intn(2) == 0 {
		letter = strings.ToUpper(letter)
	}
	s := strconv.FormatInt(e, 10)
	if e >= 0 && p.C.Intn(3) == 0 {
		s = "+" + s
	}
	if p.C.Intn(4) == 0 {
		// zero-padded exponent digits
		sign := ""
		if s[0] == '+' || s[0] == '-' {
			sign, s = s[:1], s[1:]
		}
		s = sign + strings.Repeat("0", 1+p.C.Intn(2)) + s
	}
	return letter + s
}

// scaled renders digits * 10^exp with the point moved by a random amount.
// digits has no sign and no leading zeros (except "0").
func (p *Printer) scaled(digits string, exp int64, letter string, needMarker bool) string {
	// move the point: value = digits[:k] . digits[k:] * 10^(exp + len(digits)-k)
	k := len(digits)
	if p.C.Flip("num:point-moved") {
		k = 1 + p.C.Intn(len(digits))
	}
	ip, fp := digits[:k], digits[k:]
	e := exp + int64(len(fp))
	if strings.TrimLeft(ip, "0") == "" {
		ip = "0"
	} else {
		ip = strings.TrimLeft(ip, "0")
	}
	// note: trimming leading zeros of the integer part keeps the value
	out := p.underscore(ip)
	if fp != "" {
		out += "." + fp
	} else if p.C.Intn(3) == 0 {
		out += "."
		needMarker = needMarker && letter == "e"
	}
	if e != 0 || needMarker && !strings.Contains(out, ".") || letter == "e" || p.C.Intn(3) == 0 {
		out += p.expText(e, letter)
	}
	return out
}

func (p *Printer) floatText(bits uint64) string {
	f := math.Float64frombits(bits)
	switch {
	case math.IsNaN(f):
		return "nan"
	case math.IsInf(f, 1):
		return "+inf"
	case math.IsInf(f, -1):
		return "-inf"
	}
	s := strconv.FormatFloat(math.Abs(f), 'e', -1, 64) // d.ddddde±xx
	mant, expS, _ := strings.Cut(s, "e")
	e, _ := strconv.ParseInt(expS, 10, 64)
	digits := strings.Replace(mant, ".", "", 1)
	e -= int64(len(digits) - 1)
	if p.C.Flip("num:trailing-zeros") {
		z := 1 + p.C.Intn(3)
		digits += strings.Repeat("0", z)
		e -= int64(z)
	}
	out := p.scaled(digits, e, "e", true)
	if math.Signbit(f) {
		out = "-" + out
	}
	return out
}

func (p *Printer) decimalText(d model.Dec) string {
	c := d.Coef
	if c == nil {
		c = new(big.Int)
	}
	digits := new(big.Int).Abs(c).String()
	var out string
	// decimals: moving the point changes nothing as long as coefficient digits and exponent agree:
	// ip.fp d e  denotes coefficient ip+fp and exponent e - len(fp)
	k := len(digits)
	if p.C.Flip("num:point-moved") {
		k = 1 + p.C.Intn(len(digits))
	}
	ip, fp := digits[:k], digits[k:]
	if len(ip) > 1 && ip[0] == '0' {
		ip, fp = digits, "" // would need a leading zero
	}
	e := int64(d.Exp) + int64(len(fp))
	out = p.underscore(ip)
	hasPoint := false
	if fp != "" {
		out += "." + fp
		hasPoint = true
	} else if e == 0 || p.C.Intn(3) == 0 {
		out += "."
		hasPoint = true
	}
	if e != 0 || !hasPoint || p.C.Intn(4) == 0 {
		out += p.expText(e, "d")
	}
	if c.Sign() < 0 || d.NegZero {
		out = "-" + out
	}
	return out
}

func (p *Printer) timestampText(t model.TS) string {
	s := t.String()
	if t.Prec == model.PDay && p.C.Flip("ts:day-without-T") {
		s = strings.TrimSuffix(s, "T")
	}
	if t.Prec >= model.PMinute && t.OffKnown && t.OffMin == 0 && p.C.Flip("ts:plus-zero-offset") {
		s = strings.TrimSuffix(s, "Z") + "+00:00"
	}
	return s
}

// ---- values ----

func (p *Printer) blobText(b []byte) string {
	enc := base64.StdEncoding.EncodeToString(b)
	var sb strings.Builder
	sb.WriteString("{{")
	if p.C.Flip("lob:inner-ws") {
		sb.WriteString(wsChoices[p.C.Intn(len(wsChoices))])
	}
	for i := 0; i < len(enc); i++ {
		sb.WriteByte(enc[i])
		if p.C.FlipP("lob:ws-in-base64", 0.05) {
			sb.WriteString(wsChoices[p.C.Intn(len(wsChoices))])
		}
	}
	if p.C.Flip("lob:inner-ws") {
		sb.WriteString(wsChoices[p.C.Intn(len(wsChoices))])
	}
	sb.WriteString("}}")
	return sb.String()
}

func (p *Printer) clobText(b []byte) string {
	var sb strings.Builder
	sb.WriteString("{{")
	if p.C.Flip("lob:inner-ws") {
		sb.WriteString(wsChoices[p.C.Intn(len(wsChoices))])
	}
	if p.C.Flip("clob:long") {
		sb.WriteString(p.longString(string(b), true, false))
	} else {
		sb.WriteString(p.shortQuoted(string(b), '"', true))
	}
	if p.C.Flip("lob:inner-ws") {
		sb.WriteString(wsChoices[p.C.Intn(len(wsChoices))])
	}
	sb.WriteString("}}")
	return sb.String()
}

// Value renders one value with annotations.
func (p *Printer) Value(v *model.Value, inSexp bool) string {
	var sb strings.Builder
	for _, a := range v.Ann {
		sb.WriteString(p.symbol(a, 'a', false))
		sb.WriteString(p.optWS())
		sb.WriteString("::")
		sb.WriteString(p.optWS())
	}
	sb.WriteString(p.bare(v, inSexp))
	return sb.String()
}

func (p *Printer) bare(v *model.Value, inSexp bool) string {
	// Two long strings that are adjacent tokens would concatenate into one value.
	prevLong := p.lastWasLong
	p.lastWasLong = false
	if p.Raw != nil {
		if r, ok := p.Raw[v]; ok {
			return r
		}
	}
	if v.Kind == model.String && !v.IsNull {
		if !prevLong && len(v.Ann) == 0 && p.C.Flip("str:long") {
			p.lastWasLong = true
			return p.longString(v.S, false, true)
		}
		if len(v.Ann) > 0 && p.C.Flip("str:long") {
			p.lastWasLong = true
			return p.longString(v.S, false, true)
		}
		return p.shortQuoted(v.S, '"', false)
	}
	if v.Kind == model.Null {
		if p.C.Flip("null:explicit-null-null") {
			return "null.null"
		}
		return "null"
	}
	if v.IsNull {
		return "null." + v.Kind.String()
	}
	switch v.Kind {
	case model.Bool:
		if v.B {
			return "true"
		}
		return "false"
	case model.Int:
		return p.intText(v.I)
	case model.Float:
		return p.floatText(v.F)
	case model.Decimal:
		return p.decimalText(v.D)
	case model.Timestamp:
		return p.timestampText(v.T)
	case model.Symbol:
		return p.symbol(v.Sy, 'v', inSexp)
	case model.String:
		if p.C.Flip("str:long") {
			return p.longString(v.S, false, true)
		}
		return p.shortQuoted(v.S, '"', false)
	case model.Clob:
		return p.clobText(v.Bytes)
	case model.Blob:
		return p.blobText(v.Bytes)
	case model.List:
		var sb strings.Builder
		sb.WriteString("[")
		for i, k := range v.Kids {
			if i > 0 {
				sb.WriteString(",")
			}
			sb.WriteString(p.optWS())
			sb.WriteString(p.Value(k, false))
			sb.WriteString(p.sepAfter(k))
		}
		if len(v.Kids) > 0 && p.C.Flip("list:trailing-comma") {
			sb.WriteString(",")
		}
		sb.WriteString(p.optWS())
		sb.WriteString("]")
		return sb.String()
	case model.Sexp:
		var sb strings.Builder
		sb.WriteString("(")
		prev := ""
		for i, k := range v.Kids {
			sep := ""
			if i > 0 {
				if p.C.Flip("ws:comment-adjacent") {
					// a comment alone separates two tokens, an operator in front of it included
					sep = p.comment() + p.optWS()
				} else {
					sep = p.reqWS()
				}
			} else {
				sep = p.optWS()
			}
			cur := p.Value(k, true)
			if i > 0 && operatorGlueOK(prev, cur) && p.C.Flip("sexp:operator-adjacent") {
				// an operator ends at the first character that is not an operator character: (+2007T) is + and 2007T
				sep = ""
			}
			sb.WriteString(sep)
			sb.WriteString(cur)
			prev = cur
		}
		if len(v.Kids) > 0 {
			// a trailing operator or number must not touch a comment: use plain whitespace first
			sb.WriteString(p.sepAfter(v.Kids[len(v.Kids)-1]))
		} else {
			sb.WriteString(p.optWS())
		}
		sb.WriteString(")")
		return sb.String()
	case model.Struct:
		var sb strings.Builder
		sb.WriteString("{")
		for i, k := range v.Kids {
			if i > 0 {
				sb.WriteString(",")
			}
			sb.WriteString(p.optWS())
			if k.Field == nil {
				p.fail("struct child without field name")
				continue
			}
			sb.WriteString(p.symbol(*k.Field, 'f', false))
			sb.WriteString(p.optWS())
			sb.WriteString(":")
			sb.WriteString(p.optWS())
			sb.WriteString(p.Value(k, false))
			sb.WriteString(p.sepAfter(k))
		}
		if len(v.Kids) > 0 && p.C.Flip("struct:trailing-comma") {
			sb.WriteString(",")
		}
		sb.WriteString(p.optWS())
		sb.WriteString("}")
		return sb.String()
	}
	p.fail("unknown kind")
	return ""
}

// sepAfter: optional whitespace after a value inside list/struct. Numbers and unquoted tokens must not be
// directly followed by a comment, so a plain whitespace character is inserted first.
func (p *Printer) sepAfter(k *model.Value) string {
	ws := p.optWS()
	if ws == "" {
		return ""
	}
	if p.C.Flip("ws:comment-adjacent") {
		// the comment (if any) directly follows the token, an operator symbol included: the
		// start of a comment ends every token
		return strings.TrimLeft(ws, " \t\r\n\v\f")
	}
	return " " + ws
}

// ---- stream level ----

func (p *Printer) AppendLST(spec refsym.LSTSpec) {
	var sb strings.Builder
	// the same symbol may be spelled unquoted, quoted or by its system id
	spell := func() string {
		if p.C.Flip("lst:alt-spelling") {
			return []string{"'$ion_symbol_table'", "$3", "'\\x24ion_symbol_table'"}[p.C.Intn(3)]
		}
		return "$ion_symbol_table"
	}
	ann := spell()
	sb.WriteString(ann + p.optWS() + "::" + p.optWS() + "{")
	parts := []string{}
	if spec.Append {
		imp := "imports"
		if p.C.Flip("lst:alt-spelling") {
			imp = []string{"'imports'", "$6", "\"imports\""}[p.C.Intn(3)]
		}
		parts = append(parts, imp+p.optWS()+":"+p.optWS()+spell())
	} else if len(spec.Imports) > 0 {
		var is []string
		for _, imp := range spec.Imports {
			s := "{name:" + p.shortQuoted(imp.Name, '"', false)
			if imp.Version >= 0 {
				s += fmt.Sprintf(",version:%d", imp.Version)
			}
			if imp.MaxID >= 0 {
				s += fmt.Sprintf(",max_id:%d", imp.MaxID)
			}
			is = append(is, s+"}")
		}
		parts = append(parts, "imports:["+strings.Join(is, ",")+"]")
	}
	if len(spec.Symbols) > 0 {
		var ss []string
		for _, s := range spec.Symbols {
			if s.Known {
				ss = append(ss, p.shortQuoted(s.Text, '"', false))
			} else {
				ss = append(ss, []string{"null", "null.string", "7", "name"}[p.C.Intn(4)])
			}
		}
		parts = append(parts, "symbols"+p.optWS()+":"+p.optWS()+"["+strings.Join(ss, ","+p.optWS())+"]")
	}
	if len(parts) == 2 && p.C.Flip("lst:symbols-before-imports") {
		parts[0], parts[1] = parts[1], parts[0]
	}
	sb.WriteString(strings.Join(parts, ","))
	sb.WriteString("}")
	p.sep()
	p.B.WriteString(sb.String())
	nc, err := refsym.Apply(p.Ctx, p.Cat, spec)
	if err != nil {
		p.fail("LST: %v", err)
		return
	}
	p.Ctx = nc
}

func (p *Printer) sep() {
	if p.B.Len() > 0 {
		if p.C.Flip("ws:comment-adjacent") {
			p.B.WriteString(p.comment())
		}
		p.B.WriteString(p.reqWS())
	} else {
		p.B.WriteString(p.optWS())
	}
}

func (p *Printer) AppendIVM() {
	p.sep()
	p.B.WriteString("$ion_1_0")
	p.Ctx = refsym.System()
}

func (p *Printer) AppendValue(v *model.Value) {
	p.sep()
	st := p.B.Len()
	p.B.WriteString(p.Value(v, false))
	p.Tops = append(p.Tops, [2]int{st, p.B.Len()})
}

// Print renders a whole stream. With c.Flip("txt:lst") a symbol table is declared and $n used.
func Print(vals []*model.Value, c *choice.C) (string, error) {
	p := NewPrinter(c)
	if err := p.Stream(vals); err != nil {
		return "", err
	}
	return p.B.String(), nil
}

// Stream renders a whole value stream into the printer.
func (p *Printer) Stream(vals []*model.Value) error {
	c := p.C
	texts := model.SymbolTexts(vals)
	if len(texts) > 0 && c.Flip("txt:lst") {
		var slots []refsym.Slot
		for _, t := range texts {
			if c.Intn(2) == 0 {
				slots = append(slots, refsym.Slot{Text: t, Known: true})
			}
		}
		if len(slots) > 0 {
			p.AppendLST(refsym.LSTSpec{Symbols: slots})
			p.UseSIDs = true
		}
	}
	for i, v := range vals {
		// a later table (replacing or appending) re-maps the ids: the same $n may now denote other text
		if i > 0 && p.UseSIDs && c.Flip("txt:lst-again") {
			rest := model.SymbolTexts(vals[i:])
			var slots []refsym.Slot
			for j := len(rest) - 1; j >= 0; j-- {
				if c.Intn(3) != 0 {
					slots = append(slots, refsym.Slot{Text: rest[j], Known: true})
				}
			}
			spec := refsym.LSTSpec{Symbols: slots, Append: c.Intn(3) == 0}
			if len(slots) > 0 || !spec.Append {
				p.AppendLST(spec)
			}
		}
		p.AppendValue(v)
	}
	if ws := p.optWS(); ws != "" {
		p.B.WriteString(" " + ws)
	}
	return p.Err
}
