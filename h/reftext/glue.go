package reftext

// OperatorGlueOK reports whether the text cur may directly follow the bare operator symbol prev inside an
// s-expression without changing how either is read.
func OperatorGlueOK(prev, cur string) bool { return operatorGlueOK(prev, cur) }
