// Command verif runs the runtime monitors for the ion-go properties.
package main

import (
	"encoding/json"
	"fmt"
	"os"
	"os/exec"
	"path/filepath"
	"runtime/pprof"
	"sort"
	"strconv"
	"strings"
	"syscall"
	"time"

	"verifh/mon"
)

func root() string {
	r := os.Getenv("VERIF_ROOT")
	if r == "" {
		r = "/verif"
	}
	return r
}

func seed() int64 {
	s := os.Getenv("VERIF_SEED")
	if s == "" {
		return 1
	}
	v, err := strconv.ParseInt(s, 10, 64)
	if err != nil {
		return 1
	}
	return v
}

func main() {
	if len(os.Args) < 2 {
		usage()
	}
	switch os.Args[1] {
	case "check":
		if len(os.Args) < 3 {
			usage()
		}
		id := os.Args[2]
		tier := "quick"
		if len(os.Args) > 3 {
			tier = strings.TrimPrefix(os.Args[3], "--tier=")
		}
		if t := os.Getenv("VERIF_TIER"); t != "" && len(os.Args) <= 3 {
			tier = t
		}
		if tier != "quick" && tier != "thorough" {
			usage()
		}
		if os.Getenv("VERIF_CHILD") == "1" {
			os.Exit(child(id, tier))
		}
		os.Exit(supervise(id, tier))
	case "replay":
		if len(os.Args) < 3 {
			usage()
		}
		os.Exit(replay(os.Args[2]))
	case "worker":
		os.Exit(mon.WorkerMain(os.Args[2:]))
	case "list":
		var ids []string
		for id := range mon.Monitors {
			ids = append(ids, id)
		}
		sort.Strings(ids)
		fmt.Println(strings.Join(ids, " "))
	default:
		usage()
	}
}

func usage() {
	fmt.Fprintln(os.Stderr, "usage: verif check <ID> quick|thorough | replay <path> | list")
	os.Exit(2)
}

func child(id, tier string) int {
	m, ok := mon.Monitors[id]
	if !ok {
		fmt.Printf("BROKEN: no monitor for %s\n", id)
		return 2
	}
	c := mon.NewCtx(id, tier, seed())
	if pf := os.Getenv("VERIF_PROF"); pf != "" {
		if f, err := os.Create(pf); err == nil {
			pprof.StartCPUProfile(f)
			defer pprof.StopCPUProfile()
		}
	}
	c.OpenJournal()
	// unrelated library calls first: nothing they leave behind in package-level state may matter
	mon.DisturbSharedState(c.Seed)
	m.Run(c)
	code := c.Finish()
	os.WriteFile(filepath.Join(root(), "out", "journal", id+".done"), []byte(strconv.Itoa(code)), 0o644)
	return code
}

func supervise(id, tier string) int {
	jdir := filepath.Join(root(), "out", "journal")
	os.MkdirAll(jdir, 0o755)
	os.MkdirAll(filepath.Join(root(), "out", "logs"), 0o755)
	done := filepath.Join(jdir, id+".done")
	os.Remove(done)
	errPath := filepath.Join(root(), "out", "logs", id+".stderr")
	errFile, _ := os.Create(errPath)
	cmd := exec.Command(os.Args[0], "check", id, tier)
	cmd.Env = append(os.Environ(), "VERIF_CHILD=1", "GOTRACEBACK=all")
	cmd.Stdout = os.Stdout
	cmd.Stderr = errFile
	if err := cmd.Start(); err != nil {
		fmt.Printf("BROKEN: cannot start child: %v\n", err)
		return 2
	}
	limit := 20 * time.Minute
	if tier == "thorough" {
		limit = 3 * time.Hour
	}
	timer := time.AfterFunc(limit, func() {
		cmd.Process.Signal(syscall.SIGQUIT)
		time.Sleep(3 * time.Second)
		cmd.Process.Kill()
	})
	err := cmd.Wait()
	timedOut := !timer.Stop()
	errFile.Close()
	if data, e := os.ReadFile(done); e == nil {
		code, _ := strconv.Atoi(string(data))
		// child finished its bookkeeping normally
		if tail := tailFile(errPath, 2000); strings.TrimSpace(tail) != "" && code != 0 {
			fmt.Fprintln(os.Stderr, tail)
		}
		return code
	}
	tail := headFile(errPath, 12000) + "\n…\n" + tailFile(errPath, 6000)
	if timedOut {
		fmt.Printf("INCONCLUSIVE property=%s watchdog fired after %v (wall-clock, not a verdict)\n", id, limit)
		fmt.Fprintln(os.Stderr, tail)
		return 2
	}
	// abnormal death
	journal := tailFile(filepath.Join(jdir, id+".journal"), 4000)
	if strings.Contains(tail, "github.com/amzn/ion-go/") && (strings.Contains(tail, "fatal error:") || strings.Contains(tail, "panic:") || strings.Contains(tail, "goroutine stack exceeds")) {
		vdir := filepath.Join(root(), "out", "violations", id)
		os.MkdirAll(vdir, 0o755)
		path := filepath.Join(vdir, "fatal.json")
		rec := map[string]interface{}{"property": id, "sub_check": "process-death", "detail": "the checking process died with a runtime fatal error inside ion-go while executing a journalled case",
			"journal_tail": journal, "stderr_tail": tail, "seed": seed(), "tier": tier}
		data, _ := json.MarshalIndent(rec, "", " ")
		os.WriteFile(path, data, 0o644)
		fmt.Printf("VIOLATION property=%s replay=%s\n", id, path)
		fmt.Printf("  process died inside ion-go: %v\n", err)
		return 1
	}
	if prefix := os.Getenv("VERIF_RACE_LOG"); prefix != "" {
		// a data race can corrupt memory and bring the runtime itself down: the reports the race
		// detector wrote before the crash decide
		if _, races := mon.CollectRaces(prefix); len(races) > 0 {
			vdir := filepath.Join(root(), "out", "violations", id)
			os.MkdirAll(vdir, 0o755)
			n := 0
			for key, blk := range races {
				path := filepath.Join(vdir, fmt.Sprintf("race%03d.json", n))
				n++
				rec := map[string]interface{}{"property": id, "sub_check": "data-race", "fingerprint": "data-race|" + key,
					"detail": "race detector report (the checking process later died: " + fmt.Sprint(err) + "):\n" + blk, "seed": seed(), "tier": tier}
				data, _ := json.MarshalIndent(rec, "", " ")
				os.WriteFile(path, data, 0o644)
				fmt.Printf("VIOLATION property=%s replay=%s\n  sub=data-race fingerprint=data-race|%s (process died afterwards)\n", id, path, key)
			}
			return 1
		}
	}
	fmt.Printf("BROKEN property=%s: checking process died outside ion-go (%v)\n", id, err)
	fmt.Fprintln(os.Stderr, tail)
	return 2
}

func headFile(path string, n int) string {
	data, err := os.ReadFile(path)
	if err != nil {
		return ""
	}
	if len(data) > n {
		data = data[:n]
	}
	return string(data)
}

func tailFile(path string, n int) string {
	data, err := os.ReadFile(path)
	if err != nil {
		return ""
	}
	if len(data) > n {
		data = data[len(data)-n:]
	}
	return string(data)
}

func replay(path string) int {
	data, err := os.ReadFile(path)
	if err != nil {
		fmt.Println("cannot read", path, err)
		return 2
	}
	var v mon.Violation
	if err := json.Unmarshal(data, &v); err != nil {
		fmt.Println("cannot parse", path, err)
		return 2
	}
	m, ok := mon.Monitors[v.Property]
	if !ok || m.Replay == nil {
		fmt.Printf("no replay function for %s; the record itself is the witness:\n%s\n", v.Property, string(data))
		return 2
	}
	c := mon.NewCtx(v.Property, v.Tier, v.Seed)
	res := m.Replay(c, &v)
	fmt.Printf("replay %s sub=%s\n  recorded: %s\n  now: %s\n", v.Property, v.Sub, v.Detail, res)
	if strings.HasPrefix(res, "VIOLATED") {
		return 1
	}
	return 0
}
