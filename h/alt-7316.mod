module verifh

go 1.21

require github.com/amzn/ion-go v0.0.0

replace github.com/amzn/ion-go => /tmp/vw-C19-k
